#!/bin/bash
# Re-validates every stored seeded change against the current /repo (HEAD + working tree) and the current checks:
# one line per change (demo without / with, test suite with, check exit and violation count).  ~25 min on 16 cores.
# usage: tools/revalidate_all_seeded.sh [outfile]
cd /verif
OUT=${1:-/dev/shm/reval.txt}
for d in seeded/*/; do id=$(basename "$d"); P=${id%-*}; echo "tools/validate_seeded.sh $P $id $d/patch.diff $d/demo.py"; done \
  | xargs -P 5 -I{} bash -c "{}" 2>&1 | grep -v conda | sort > "$OUT"
echo "changes: $(wc -l < "$OUT")  caught: $(grep -c 'check_exit=1' "$OUT")  demo ok: $(grep -c 'demo_without=0 demo_with=1' "$OUT")  tests ok: $(grep -c '41 passed' "$OUT")"

#!/usr/bin/env python3
"""Regenerates MANIFEST.json from tools/manifest_data.py (single source of truth)."""
import json, os, sys
sys.path.insert(0, os.path.dirname(os.path.abspath(__file__)))
from manifest_data import CHECKS, NOT_APPLICABLE, NOTES, ENGINES
ROOT = os.path.dirname(os.path.dirname(os.path.abspath(__file__)))
checks = []
for c in CHECKS:
    pid = c["id"]
    checks.append({
        "property_id": pid,
        "quick_cmd": f"./check {pid} --tier quick",
        "thorough_cmd": f"./check {pid} --tier thorough",
        "evidence_file": f"/verif/evidence/{pid}.json",
        "replay_cmd_template": f"./check {pid} --replay {{path}}",
        "engine": "pyvc",
        "level_claimed": {"category": c["category"], "text": c["text"], "design_ref": c.get("design_ref", "DESIGN.md section 5, " + pid)},
        "level_note": c["note"],
        "technique": c["technique"],
    })
m = {
    "version": 1,
    "setup_cmd": "./setup.sh",
    "hooks": {
        "guard": "PYMBOLIC_VERIF",
        "enable": "no hooks are needed: contracts are sidecars in /verif/contracts and generated code is captured through _MODULE_SOURCE_CODE, which the repository already provides; checks import /repo's working tree directly",
        "baseline_off_cmd": "cd /repo && /venv/bin/python -m pytest -ra -q -p no:cacheprovider --timeout=900 --continue-on-collection-errors",
        "source_commits": [],
        "add_only": True,
    },
    "engines": ENGINES,
    "checks": checks,
    "notes": NOTES,
    "not_applicable": NOT_APPLICABLE,
}
json.dump(m, open(os.path.join(ROOT, "MANIFEST.json"), "w"), indent=1)
try:
    import jsonschema
    jsonschema.validate(m, json.load(open("/root/.vp/MANIFEST.schema.json")))
    print("MANIFEST.json valid;", len(checks), "checks,", len(NOT_APPLICABLE), "not applicable")
except ImportError:
    print("written (jsonschema not available for validation)")

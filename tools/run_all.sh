#!/bin/bash
# Runs the quick command of every registered check (in parallel, 4 at a time) and prints one summary line each.
cd /verif
ids=$(python3 -c "import json; print(' '.join(c['property_id'] for c in json.load(open('MANIFEST.json'))['checks']))")
tier=${1:-quick}
mkdir -p /dev/shm/runall
echo $ids | tr ' ' '\n' | xargs -P 4 -I{} sh -c "VERIF_PROCS=6 ./check {} --tier $tier > /dev/shm/runall/{}.log 2>&1; echo {} exit=\$? \$(grep -c '^VIOLATION' /dev/shm/runall/{}.log) violations \$(grep -c '^KNOWN-FINDING' /dev/shm/runall/{}.log) known : \$(grep '^\[' /dev/shm/runall/{}.log | cut -c1-170)"

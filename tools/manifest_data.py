ENGINES = [
    {"name": "pyvc", "path": "/verif/pyvc", "serves_properties": ["C01", "C02", "C04", "C05", "C08", "C09", "C17", "C19"],
     "kind_free_text": "own verification-condition generator: symbolic execution of the AST of the real functions (re-read from /repo on every run) against sidecar contracts, discharged with z3; bounded run-time contract checking of the real functions as labelled stand-in"},
]
NOTES = ("Contract-based deductive verification with an own VC generator (PyVC) over the real source; see DESIGN.md. "
         "Exit 0 = held (KNOWN-FINDING lines allowed), 1 = VIOLATION line printed, 3 = harness error.")
CHECKS = [
    {"id": "C02", "category": "proof",
     "text": "every EvaluationMapper.map_<K> reachable by dispatch is proved (z3, all field values, all child counts) to have the outcome of one unfolding of the reference denotation den, with self.rec replaced by the mapper contract; by structural induction evaluate = den on all trees; entry points evaluate/evaluate_kw proved as wrappers; the memoizing variant rests on the C05 cache contract; bounded run of the real evaluators against den as cross-check",
     "note": "assumes Python operators are strict functions of their operands (abstract encoding), generators consumed eagerly, pytools.product = left fold, structural induction (M-IND) and the dispatcher contract (C04); CSE cache method and numpy/multivector/polynomial branches are bounded only",
     "technique": "deductive: per-method VCs from the real AST vs. contract, z3; bounded run-time contract check as stand-in"},
]
CHECKS.append(
    {"id": "C04", "category": "proof",
     "text": "Mapper.__call__/rec_fallback/map_foreign proved against the dispatch rule for every built-in node class (real MRO, symbolic handler set, symbolic extra arguments) and for foreign objects; every IdentityMapper, CombineMapper and WalkMapper map_<K> proved against the identity / combine-all-children / visit-children-post contracts stated over the annotation-derived children of K with a ghost event log; instrumented real mappers, fixture hierarchies x handler subsets and handler-name derivation run as bounded cross-check",
     "note": "abstract callbacks (visit, post_visit, combine, handlers) are uninterpreted; closed world of node classes; M-IND; handler-name regex, numpy/multivector branches and user hierarchies are bounded only; known finding C04-identity-cse-zero excluded as a named region",
     "technique": "deductive: per-method VCs from the real AST vs. contract (ghost event log, Map/Fold lifting), z3; bounded run-time contract check as stand-in"})
CHECKS.append(
    {"id": "C09", "category": "proof",
     "text": "every DependencyMapper.map_<K> proved equal to one unfolding of the specification Deps (written from the property statement) for symbolic boolean flags x the three include_calls settings, with and without a pre-filled CSE cache (cache invariant + frame); every FlopCounterBase.map_<K> proved equal to the independent flop count; NodeCountMapper.post_visit, get_num_nodes, CSEAwareFlopCounter.map_common_subexpression proved with old-state postconditions; bounded run over all 28 flag settings, cached/uncached, fresh/reused instances",
     "note": "sets as z3 sets over object identity; M-IND; dispatcher (C04) and cache (C05) contracts assumed for the cached variants; get_num_nodes uses an assumed contract for the walk over the whole tree; the relevance lemma (evaluation needs no other variable) is bounded only",
     "technique": "deductive: per-method VCs from the real AST vs. executable specification, z3 (sets, ints); bounded run-time contract check as stand-in"})
CHECKS.append(
    {"id": "C05", "category": "proof",
     "text": "CachedMapper.__call__ proved for every node class, symbolic handler set and symbolic extra arguments to return what the un-memoized dispatch returns (cache invariant assumed on hits and re-established for every entry written, no handler runs on a hit, only _cache assigned); get_cache_key proved injective in (type(expr), expr, args, kwargs); CSE caching mix-in proved for the evaluation and dependency mappers; table obligations on the concrete cached classes; optimizer (all 32 option sets), cached/uncached pairs and call histories as bounded stand-in",
     "note": "A-EQ-KEY (look-up with an equal key = look-up with that key) and determinism of handlers are assumed; the premise that mapping respects equality of nested constants is false on the pinned tree (known findings C05-nested-constant-type*); optimize_mapper is bounded only (translation validation of its output is not attempted); known finding C05-inline-rec-bypasses-cache",
     "technique": "deductive: object-invariant VCs on the real __call__ with a symbolic dict, injectivity lemma over the real get_cache_key, z3; bounded differential runs for the optimizer"})
CHECKS.append(
    {"id": "C01", "category": "proof",
     "text": "for every expression dataclass and the fixture hierarchies (decorated, undecorated-legacy, mixed) the generated __eq__/__hash__/state methods (text captured from _MODULE_SOURCE_CODE and byte-code-compared with the running functions) and the legacy Expression back end are proved: eq <=> same class and field-wise ==, fresh hash cached and nothing else assigned, SpecEq => equal hashes, cached hash returned unchanged, state = exactly the fields without the cached hash; __post_init__ contracts; decorator configuration (frozen=__debug__, eq=False); frame scan of all attribute writes that can reach an existing expression; bounded pairs/triples/histories as cross-check",
     "note": "A-EQ (== on field values is an equivalence compatible with hash; tuple hash is a function of element hashes) is assumed, dataclasses' frozen semantics trusted; transitivity/symmetry of == follow field-wise from A-EQ (lemma not machine-checked beyond the bounded triples); Polynomial/Rational unhashable is known finding C01-legacy-builtins-unhashable",
     "technique": "deductive: VCs from the generated method text per class vs. field-wise specification, relational hash-consistency obligation, z3; syntactic frame scan; bounded pair/history enumeration"})
CHECKS.append(
    {"id": "C08", "category": "proof",
     "text": "the closure of make_subst_func proved to be the statement's look-up rule (node key, then Variable name, else None); SubstitutionMapper.map_variable/map_subscript/map_lookup proved to return sigma(node) itself when not None (no re-substitution) and otherwise the identity image; every inherited map_<K> proved against the identity contract (same extra arguments, same object when unchanged); the semantic commutation with evaluation is validated exhaustively on depth<=2 trees x 16 substitution maps x environment box against den_sigma (the substitution lemma over den is not machine-proved)",
     "note": "sigma uninterpreted and pure; M-IND; C04/C05 contracts; the lemma den(Subst(e,s),env) = den_s(e,env) and substitute()'s dict handling are bounded only",
     "technique": "deductive: per-method VCs (interception + identity contract), refinement of the real closure, z3; exhaustive bounded differential evaluation for the semantic lemma"})
CHECKS.append(
    {"id": "C17", "category": "proof",
     "text": "the mechanism that makes pickles hash-seed independent is proved per node class (incl. fixture and legacy classes): __getstate__ returns exactly the fields (the cached, process-local hash never enters the state), __setstate__ assigns exactly the fields and never _hash_value, a fresh hash is computed from the fields, SpecEq => equal hash; the inputs of the persistent digest are proved free of id()/hash()/set order; the two-process statement itself is executed: producer/consumer interpreters with different PYTHONHASHSEED and -O, all protocols, histories of hash/compare/pickle operations, compiled expressions",
     "note": "pickle/copyreg semantics, str.encode/repr/hashlib determinism are trusted; the cross-process runs are a bounded stand-in (not proved); known findings C17-digest-kw-order and C17-digest-constant-type (digest does not respect ==)",
     "technique": "deductive: per-class state-method and hash obligations (shared with C01), taint scan of the symbolic digest log, z3; bounded two-process execution"})
CHECKS.append(
    {"id": "C19", "category": "proof",
     "text": "integer_power proved for all integers x and all exponents (loop invariant aux*x^n = x0^n0, lemma pw(x*x,k) = pw(x,2k) proved by induction, variant n, negative n raises RuntimeError); extended_euclidean proved for all integer pairs (Bezout identity and divisibility of both inputs through ghost inverse coefficients, recursion through its own contract, variant |r|); gcd through the callee contract. FFT/ifft/sym_fft (floating point, tolerance), polynomial arithmetic and division, lcm, find_factors, the integer quotient node and integer_power over Fractions/matrices are a bounded stand-in (lengths 1..64, integer box, ~200 sparse polynomials)",
     "note": "A-INT; common_traits on ints assumed to be IntegerTraits; z3 nonlinear integer arithmetic trusted; A-FLOAT: no deductive content for the FFT; polynomial merge loops and __divmod__ not under contract (bounded only)",
     "technique": "deductive: loop invariants + variants + ghost state + inductive lemma, VCs from the real AST, z3 (NIA); bounded exhaustive boxes / numeric comparison for the rest"})
_PENDING = "check not built yet in this session (planned per DESIGN.md section 5); not claimed until its check exists"
NOT_APPLICABLE = [{"property_id": f"C{i:02d}", "reason": _PENDING} for i in range(1, 21) if f"C{i:02d}" not in {c["id"] for c in CHECKS}]

ENGINES = [
    {"name": "pyvc", "path": "/verif/pyvc", "serves_properties": ["C02"],
     "kind_free_text": "own verification-condition generator: symbolic execution of the AST of the real functions (re-read from /repo on every run) against sidecar contracts, discharged with z3; bounded run-time contract checking of the real functions as labelled stand-in"},
]
NOTES = ("Contract-based deductive verification with an own VC generator (PyVC) over the real source; see DESIGN.md. "
         "Exit 0 = held (KNOWN-FINDING lines allowed), 1 = VIOLATION line printed, 3 = harness error.")
CHECKS = [
    {"id": "C02", "category": "proof",
     "text": "every EvaluationMapper.map_<K> reachable by dispatch is proved (z3, all field values, all child counts) to have the outcome of one unfolding of the reference denotation den, with self.rec replaced by the mapper contract; by structural induction evaluate = den on all trees; entry points evaluate/evaluate_kw proved as wrappers; the memoizing variant rests on the C05 cache contract; bounded run of the real evaluators against den as cross-check",
     "note": "assumes Python operators are strict functions of their operands (abstract encoding), generators consumed eagerly, pytools.product = left fold, structural induction (M-IND) and the dispatcher contract (C04); CSE cache method and numpy/multivector/polynomial branches are bounded only",
     "technique": "deductive: per-method VCs from the real AST vs. contract, z3; bounded run-time contract check as stand-in"},
]
_PENDING = "check not built yet in this session (planned per DESIGN.md section 5); not claimed until its check exists"
NOT_APPLICABLE = [{"property_id": f"C{i:02d}", "reason": _PENDING} for i in range(1, 21) if f"C{i:02d}" not in {c["id"] for c in CHECKS}]

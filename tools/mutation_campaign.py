#!/usr/bin/env python3
"""One-token mutation campaign against the checks (a tool for the maintainers of /verif, not a registered check).

For a seeded sample of AST-level mutants of the files the properties are anchored in:
  1. the mutant must still pass the pinned test suite (otherwise it is of no interest: the tests already notice it);
  2. the quick checks of every property anchored in the mutated file are run against a scratch copy;
  3. the outcome is recorded: caught (some check exits 1 with a VIOLATION line), survived (all exit 0), harness-error (exit 3).
Survivors are listed with their diff for triage: an equivalent mutant, a change outside every property, or a hole in a check.

usage: tools/mutation_campaign.py --per-file 25 --jobs 10 --out /dev/shm/mut [--files a.py,b.py] [--seed 1]
Scratch copies live under --out and are removed as each mutant finishes; nothing under /repo or /verif is written except the report
(--report, default /verif/mutation/report.json).
"""
import argparse
import ast
import copy
import json
import os
import random
import shutil
import subprocess
import sys
import time
from concurrent.futures import ProcessPoolExecutor, as_completed

REPO = "/repo"
VERIF = "/verif"

CMP_SWAP = {ast.Lt: ast.LtE, ast.LtE: ast.Lt, ast.Gt: ast.GtE, ast.GtE: ast.Gt, ast.Eq: ast.NotEq, ast.NotEq: ast.Eq, ast.Is: ast.IsNot, ast.IsNot: ast.Is,
            ast.In: ast.NotIn, ast.NotIn: ast.In}
BIN_SWAP = {ast.Add: ast.Sub, ast.Sub: ast.Add, ast.Mult: ast.FloorDiv, ast.FloorDiv: ast.Mult, ast.Div: ast.Mult, ast.Mod: ast.FloorDiv, ast.Pow: ast.Mult,
            ast.LShift: ast.RShift, ast.RShift: ast.LShift, ast.BitOr: ast.BitAnd, ast.BitAnd: ast.BitOr, ast.BitXor: ast.BitOr}


def file_properties():
    m = {}
    for line in open(os.path.join(VERIF, "properties.jsonl")):
        d = json.loads(line)
        for f in d["anchors"]["files"]:
            m.setdefault(f, []).append(d["id"])
    return m


class Collector(ast.NodeVisitor):
    """Collects mutation sites (node path ids) inside function bodies."""

    def __init__(self):
        self.sites = []
        self.depth = 0
        self.func = None

    def visit_FunctionDef(self, node):
        prev = self.func
        self.func = node.name if prev is None else f"{prev}.{node.name}"
        self.depth += 1
        # skip the docstring
        body = node.body[1:] if (node.body and isinstance(node.body[0], ast.Expr) and isinstance(getattr(node.body[0], "value", None), ast.Constant)
                                 and isinstance(node.body[0].value.value, str)) else node.body
        for st in body:
            self.visit(st)
        self.depth -= 1
        self.func = prev

    visit_AsyncFunctionDef = visit_FunctionDef

    def visit_ClassDef(self, node):
        prev = self.func
        self.func = node.name if prev is None else f"{prev}.{node.name}"
        for st in node.body:
            self.visit(st)
        self.func = prev

    def add(self, node, kind):
        if self.depth:
            self.sites.append((id(node), kind, self.func, getattr(node, "lineno", 0)))

    def visit_Compare(self, node):
        if len(node.ops) == 1 and type(node.ops[0]) in CMP_SWAP:
            self.add(node, "cmp")
        self.generic_visit(node)

    def visit_BinOp(self, node):
        if type(node.op) in BIN_SWAP and not (isinstance(node.op, ast.Mod) and isinstance(node.left, ast.Constant) and isinstance(node.left.value, str)):
            self.add(node, "binop")
            self.add(node, "swap-operands")
        self.generic_visit(node)

    def visit_BoolOp(self, node):
        self.add(node, "boolop")
        if len(node.values) >= 2:
            self.add(node, "drop-operand")
        self.generic_visit(node)

    def visit_UnaryOp(self, node):
        if isinstance(node.op, ast.Not):
            self.add(node, "drop-not")
        elif isinstance(node.op, ast.USub):
            self.add(node, "drop-neg")
        self.generic_visit(node)

    def visit_If(self, node):
        self.add(node, "negate-if")
        self.generic_visit(node)

    def visit_IfExp(self, node):
        self.add(node, "swap-ifexp")
        self.generic_visit(node)

    def visit_Constant(self, node):
        if isinstance(node.value, bool):
            self.add(node, "flip-bool")
        elif isinstance(node.value, int):
            self.add(node, "int+1")
        self.generic_visit(node)

    def visit_Subscript(self, node):
        if isinstance(node.slice, ast.Slice) and (node.slice.lower is not None or node.slice.upper is not None):
            self.add(node, "slice-shift")
        self.generic_visit(node)

    def visit_Call(self, node):
        if len(node.args) >= 2 and not any(isinstance(a, ast.Starred) for a in node.args):
            self.add(node, "swap-args")
        self.generic_visit(node)

    def visit_Return(self, node):
        if node.value is not None and not (isinstance(node.value, ast.Constant) and node.value.value is None):
            pass
        self.generic_visit(node)

    def visit_Break(self, node):
        self.add(node, "break-continue")

    def visit_Continue(self, node):
        self.add(node, "continue-break")


def apply_mutation(tree, target_id, kind, idmap):
    node = idmap[target_id]
    if kind == "cmp":
        node.ops = [CMP_SWAP[type(node.ops[0])]()]
    elif kind == "binop":
        node.op = BIN_SWAP[type(node.op)]()
    elif kind == "swap-operands":
        node.left, node.right = node.right, node.left
    elif kind == "boolop":
        node.op = ast.Or() if isinstance(node.op, ast.And) else ast.And()
    elif kind == "drop-operand":
        node.values = node.values[:-1] if len(node.values) > 2 else [node.values[0], node.values[0]]
    elif kind in ("drop-not", "drop-neg"):
        return replace_node(tree, node, node.operand)
    elif kind == "negate-if":
        node.test = ast.UnaryOp(ast.Not(), node.test)
    elif kind == "swap-ifexp":
        node.body, node.orelse = node.orelse, node.body
    elif kind == "flip-bool":
        node.value = not node.value
    elif kind == "int+1":
        node.value = node.value + 1
    elif kind == "slice-shift":
        sl = node.slice
        if sl.lower is not None:
            sl.lower = ast.BinOp(sl.lower, ast.Add(), ast.Constant(1))
        else:
            sl.upper = ast.BinOp(sl.upper, ast.Sub(), ast.Constant(1))
    elif kind == "swap-args":
        node.args[0], node.args[1] = node.args[1], node.args[0]
    elif kind == "break-continue":
        return replace_node(tree, node, ast.Continue())
    elif kind == "continue-break":
        return replace_node(tree, node, ast.Break())
    return tree


def replace_node(tree, old, new):
    class R(ast.NodeTransformer):
        def visit(self, n):
            if n is old:
                return new
            return super().visit(n)
    return R().visit(tree)


def make_mutants(relpath, per_file, rng):
    src = open(os.path.join(REPO, relpath)).read()
    tree = ast.parse(src)
    col = Collector()
    col.visit(tree)
    sites = col.sites
    rng.shuffle(sites)
    out = []
    for (nid, kind, func, lineno) in sites[:per_file * 3]:
        t2 = ast.parse(src)
        # re-find the node by walking in the same order
        nodes1 = list(ast.walk(tree))
        nodes2 = list(ast.walk(t2))
        idx = next(i for i, n in enumerate(nodes1) if id(n) == nid)
        idmap = {nid: nodes2[idx]}
        try:
            t3 = apply_mutation(t2, nid, kind, idmap)
            ast.fix_missing_locations(t3)
            text = ast.unparse(t3)
            compile(text, relpath, "exec")
        except Exception:   # noqa: BLE001
            continue
        if text == ast.unparse(ast.parse(src)):
            continue
        out.append(dict(file=relpath, kind=kind, function=func, line=lineno, text=text))
        if len(out) >= per_file:
            break
    return out


def run_mutant(args):
    idx, mut, props, outdir = args
    d = os.path.join(outdir, f"m{idx}")
    shutil.rmtree(d, ignore_errors=True)
    subprocess.run(["rsync", "-a", "--exclude", ".git", REPO + "/", d + "/"], check=True)
    orig = open(os.path.join(REPO, mut["file"])).read()
    with open(os.path.join(d, mut["file"]), "w") as f:
        f.write(mut["text"])
    res = dict(index=idx, file=mut["file"], kind=mut["kind"], function=mut["function"], line=mut["line"], original_line=orig.splitlines()[mut["line"] - 1].strip() if mut["line"] else "")
    t0 = time.time()
    try:
        r = subprocess.run(["/venv/bin/python", "-m", "pytest", "-q", "-x", "-p", "no:cacheprovider", "--timeout=300", "test"], cwd=d, capture_output=True, text=True, timeout=600)
        tests_ok = r.returncode == 0
    except subprocess.TimeoutExpired:
        tests_ok = False
    res["tests_pass"] = tests_ok
    if tests_ok:
        res["checks"] = {}
        for pid in props:
            env = dict(os.environ, VERIF_REPO=d, VERIF_OUT=os.path.join(d, "_out"), VERIF_PROCS="2", PYTHONDONTWRITEBYTECODE="1")
            try:
                c = subprocess.run([os.path.join(VERIF, "check"), pid, "--tier", "quick"], cwd=VERIF, env=env, capture_output=True, text=True, timeout=1500)
                viol = [ln for ln in c.stdout.splitlines() if ln.startswith("VIOLATION")]
                res["checks"][pid] = dict(exit=c.returncode, violations=len(viol), first=(viol[0].split("replays/")[-1][:120] if viol else ""),
                                          tail=c.stdout.strip().splitlines()[-1][:200] if c.stdout.strip() else c.stderr[-200:])
            except subprocess.TimeoutExpired:
                res["checks"][pid] = dict(exit="timeout", violations=0, first="", tail="")
            if res["checks"][pid]["exit"] == 1:
                break           # caught: no need to run the remaining checks
        exits = [v["exit"] for v in res["checks"].values()]
        res["outcome"] = "caught" if 1 in exits else ("harness-error" if any(e not in (0, 1) for e in exits) else "survived")
    else:
        res["outcome"] = "killed-by-tests"
    res["seconds"] = round(time.time() - t0, 1)
    shutil.rmtree(d, ignore_errors=True)
    return res


def main():
    ap = argparse.ArgumentParser()
    ap.add_argument("--per-file", type=int, default=20)
    ap.add_argument("--jobs", type=int, default=8)
    ap.add_argument("--out", default="/dev/shm/mut")
    ap.add_argument("--files", default="")
    ap.add_argument("--seed", type=int, default=1)
    ap.add_argument("--report", default=os.path.join(VERIF, "mutation", "report.json"))
    a = ap.parse_args()
    fp = file_properties()
    files = [f for f in (a.files.split(",") if a.files else sorted(fp)) if f]
    rng = random.Random(a.seed)
    muts = []
    for f in files:
        muts += make_mutants(f, a.per_file, rng)
    print(f"{len(muts)} mutants over {len(files)} files", flush=True)
    os.makedirs(a.out, exist_ok=True)
    os.makedirs(os.path.dirname(a.report), exist_ok=True)
    results = []
    with ProcessPoolExecutor(a.jobs) as ex:
        futs = [ex.submit(run_mutant, (i, m, fp.get(m["file"], []), a.out)) for i, m in enumerate(muts)]
        for k, fu in enumerate(as_completed(futs)):
            r = fu.result()
            results.append(r)
            print(f"[{k + 1}/{len(muts)}] {r['outcome']:16s} {r['file']}:{r['line']} {r['kind']} in {r['function']} ({r['seconds']} s)", flush=True)
    results.sort(key=lambda r: r["index"])
    summary = {}
    for r in results:
        summary[r["outcome"]] = summary.get(r["outcome"], 0) + 1
    json.dump(dict(seed=a.seed, per_file=a.per_file, files=files, summary=summary, results=results), open(a.report, "w"), indent=1)
    print(json.dumps(summary))
    shutil.rmtree(a.out, ignore_errors=True)


if __name__ == "__main__":
    sys.exit(main())

#!/bin/bash
# usage: tools/try_patch.sh <patch.diff> <PROPERTY> [extra check args]
# Applies the patch to a scratch copy of /repo (in /dev/shm), runs the check against the copy, removes the copy.
set -u
PATCH=$(readlink -f "$1"); PROP=$2; shift 2
D=$(mktemp -d /dev/shm/vr_XXXXXX)
rsync -a --exclude .git /repo/ "$D/"
( cd "$D" && patch -p1 -s < "$PATCH" ) || { echo "PATCH-FAILED"; rm -rf "$D"; exit 9; }
cd /verif
VERIF_REPO="$D" VERIF_OUT="$D/_out" ./check "$PROP" "$@"
rc=$?
rm -rf "$D"
echo "exit=$rc"

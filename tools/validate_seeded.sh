#!/bin/bash
# usage: tools/validate_seeded.sh <PROP> <n> <patch> <demo>
# Validates one seeded change in a scratch copy of /repo (HEAD + working tree) under /dev/shm:
#   1. the patch applies; 2. the pinned test suite still passes with it; 3. the demonstration passes without and fails with it;
#   4. the property's quick check reports a VIOLATION with it.  Prints one summary line; removes the scratch copy.
set -u
PROP=$1; N=$2; PATCH=$(readlink -f "$3"); DEMO=$(readlink -f "$4")
D=$(mktemp -d /dev/shm/vs_XXXXXX)
rsync -a --exclude .git /repo/ "$D/"
cd "$D"
PYTHONPATH="$D" /venv/bin/python "$DEMO" > "$D/_demo0.log" 2>&1; d0=$?
if ! patch -p1 -s --dry-run < "$PATCH" > /dev/null 2>&1; then echo "$PROP $N APPLY-FAILED"; rm -rf "$D"; exit 0; fi
patch -p1 -s < "$PATCH"
t=$(/venv/bin/python -m pytest -q -p no:cacheprovider --timeout=900 test 2>&1 | tail -1)
PYTHONPATH="$D" /venv/bin/python "$DEMO" > "$D/_demo1.log" 2>&1; d1=$?
cd /verif
out=$(VERIF_REPO="$D" VERIF_OUT="$D/_out" VERIF_PROCS=4 ./check "$PROP" --tier quick 2>&1)
rc=$?
nv=$(echo "$out" | grep -c '^VIOLATION')
first=$(echo "$out" | grep '^VIOLATION' | head -1 | sed 's#.*/replays/##')
echo "$PROP $N demo_without=$d0 demo_with=$d1 tests=[$t] check_exit=$rc violations=$nv first=$first"
rm -rf "$D"

#!/usr/bin/env python3
"""Regenerates the two tables of DESIGN.md section 10.4 (fix: commits of /repo; known findings) from git and known_findings.jsonl."""
import json
import re
import subprocess

D = "/verif/DESIGN.md"
s = open(D).read()

log = subprocess.run(["git", "-C", "/repo", "log", "--reverse", "--format=%h %s"], capture_output=True, text=True).stdout.splitlines()
fixes = [line.split(" ", 1) for line in log if line.split(" ", 1)[1].startswith("fix:")]


def replace_table(s, start_marker, header, rows):
    i = s.index(start_marker)
    j = s.index(header, i)
    lines = s[j:].split("\n")
    n = 0
    for ln in lines:
        if ln.startswith("|"):
            n += 1
        else:
            break
    end = j + len("\n".join(lines[:n]))
    return s[:j] + header + "\n|---|" + "---|" * (header.count("|") - 2) + "\n" + "\n".join(rows) + s[end:]


i = s.index("Repaired in /repo with one minimal `fix:` commit each (")
j = s.index("| commit | repair |", i)
s = s[:i] + re.sub(r"\(\d+ commits", f"({len(fixes)} commits", s[i:j]) + s[j:]
s = replace_table(s, "Repaired in /repo with one minimal", "| commit | repair |", [f"| `{h}` | {m.replace('|', '/')} |" for h, m in fixes])

known = []
for line in open("/verif/known_findings.jsonl"):
    line = line.strip()
    if line.startswith("{"):
        d = json.loads(line)
        if d.get("status") == "known":
            known.append(d)
i = s.index("Recorded, not repaired (")
j = s.index("| id | region | witness |", i)
s = s[:i] + re.sub(r"\(\d+ entries", f"({len(known)} entries", s[i:j]) + s[j:]
s = replace_table(s, "Recorded, not repaired (", "| id | region | witness |",
                  [f"| {d['id']} | {d['region'].replace('|', '/')} | {d['witness'].replace('|', '/')} |" for d in known])
# 10.1: numeric columns from the evidence files of the last run
import os
i = s.index("| id | level | functions under contract | obligations (all discharged) |")
lines = s[i:].split("\n")
n = 0
for ln in lines:
    if ln.startswith("|"):
        n += 1
    else:
        break
rows = lines[:n]
new = rows[:2]
for r in rows[2:]:
    cells = [c.strip() for c in r.strip("|").split("|")]
    ev = f"/verif/evidence/{cells[0]}.json"
    if os.path.exists(ev):
        e = json.load(open(ev))
        c = e["coverage"]
        ob = c.get("obligations")
        ob = ob if isinstance(ob, int) else len(ob)
        suffix = " (table)" if "(table)" in cells[3] else ""
        cells[1] = e["level"]
        cells[2] = str(len(c.get("functions_under_contract", [])))
        cells[3] = f"{ob}{suffix}"
        cells[4] = f"{c.get('evaluations'):,}".replace(",", " ")
    new.append("| " + " | ".join(cells) + " |")
s = s[:i] + "\n".join(new) + s[i + len("\n".join(rows)):]
open(D, "w").write(s)
print(f"{len(fixes)} fixes, {len(known)} known findings")

#!/bin/bash
# usage: tools/refactor_canary.sh [refactor-1|refactor-2|refactor-3]
# Applies canaries/<name>.diff (meaning-preserving edits) to a scratch copy of /repo and runs every registered quick check
# against it.  Expected: every check exits 0 and prints no VIOLATION line.
set -u
cd /verif
NAME=${1:-refactor-1}
D=$(mktemp -d /dev/shm/rc_XXXXXX)
rsync -a --exclude .git /repo/ "$D/"
( cd "$D" && patch -p1 -s < /verif/canaries/$NAME.diff ) || { echo "PATCH-FAILED"; rm -rf "$D"; exit 9; }
ids=$(python3 -c "import json; print(' '.join(c['property_id'] for c in json.load(open('MANIFEST.json'))['checks']))")
echo $ids | tr ' ' '\n' | xargs -P 4 -I{} sh -c "VERIF_REPO=$D VERIF_OUT=$D/_out VERIF_PROCS=4 ./check {} --tier quick > $D/{}.log 2>&1; echo {} exit=\$? violations=\$(grep -c '^VIOLATION' $D/{}.log) \$(grep '^\[' $D/{}.log | cut -c1-150)"
rm -rf "$D"

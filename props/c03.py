"""C03  Operator overloading builds trees that mean what the operators mean."""
from __future__ import annotations

import itertools
import operator
from fractions import Fraction

from contracts import c03 as K
from harness import outcome, trees
from harness.runner import BoundedRun, Failure

LEVEL = "proof"
SPECS = []
EXPLANATION = (
    "Every arithmetic/shift/bitwise operator method of Expression (direct and reflected; operand an int, a float-like "
    "real, or an arbitrary expression) and the splicing overrides of Sum and Product are symbolically executed from the "
    "working tree and the tree they build is proved to denote (ring encoding: + and * uninterpreted with units, "
    "absorbing zero, numerals that compute and associative n-ary folds; * NOT commutative) the operator applied to the "
    "denotations, wherever the plain computation is defined; unary -, +; ordering comparisons proved to raise TypeError. "
    "Shortcuts that are wrong for some numbers (0**x, x%1, x//1) are excluded as named known-finding regions. Bounded: "
    "operator programs over every (operator, left kind, right kind) on exact numbers and on non-commuting matrices.")
ASSUMPTIONS = [
    "A-RING: the denotation domain is a ring-like structure: x+0=0+x=x, x*1=1*x=x, x*0=0*x=0, numerals compute, n-ary sums/products fold associatively; "
    "x/1=x, 0/x=0 (x!=0), x**0=1, x**1=x, 1**x=1; no law for // and %",
    "helper contract: an expression (or number) that is falsy denotes 0 (Sum/Product/QuotientBase.__bool__; bounded-validated)",
    "operands of unknown expression class use Expression's own operator methods (Sum/Product overrides verified separately)",
]
TRUSTED_BASE = ["z3 (uninterpreted functions + linear real arithmetic)"]


def proof_jobs(tier):
    return [("function", fc, None, K.hooks) for fc in K.contracts() + K.constructor_contracts()]


# ----------------------------------------------------------------------------- bounded
BIN = {
    "+": operator.add, "-": operator.sub, "*": operator.mul, "/": operator.truediv, "//": operator.floordiv, "%": operator.mod,
    "**": operator.pow, "<<": operator.lshift, ">>": operator.rshift, "&": operator.and_, "|": operator.or_, "^": operator.xor,
}
UN = {"neg": operator.neg, "pos": operator.pos, "inv": operator.invert}


class Mat:
    """2x2 integer matrices: a ring whose multiplication does not commute."""

    def __init__(self, a):
        self.a = tuple(tuple(r) for r in a)

    def __add__(self, o):
        o = o if isinstance(o, Mat) else Mat(((o, 0), (0, o)))
        return Mat(tuple(tuple(x + y for x, y in zip(r, s)) for r, s in zip(self.a, o.a)))
    __radd__ = __add__

    def __mul__(self, o):
        if not isinstance(o, Mat):
            return Mat(tuple(tuple(x * o for x in r) for r in self.a))
        (p, q), (r, s) = self.a
        (t, u), (v, w) = o.a
        return Mat(((p * t + q * v, p * u + q * w), (r * t + s * v, r * u + s * w)))

    def __rmul__(self, o):
        return Mat(tuple(tuple(o * x for x in r) for r in self.a))

    def __neg__(self):
        return self * -1

    def __sub__(self, o):
        return self + (-o if isinstance(o, Mat) else -o)

    def __eq__(self, o):
        return isinstance(o, Mat) and self.a == o.a

    def __hash__(self):
        return hash(self.a)

    def __repr__(self):
        return f"Mat({self.a})"


def bounded(tier, seed, procs):
    import pymbolic.primitives as p
    from pymbolic.mapper.evaluator import EvaluationMapper
    x, y = trees.X, trees.Y
    b = BoundedRun("operator-programs", rule="every (operator, left kind, right kind) with kinds {variable, sum, product, quotient, power, constant 0, 1, -1, 2, 0.0, 1.0, True, "
                   "Fraction-valued variable}: the tree built by Python's operator syntax, evaluated in every environment of the box, equals the same lambda on plain numbers "
                   "wherever that is defined (exceptions of the plain computation are skipped); depth-2 programs over a reduced set; unary -, +, ~; "
                   "ordering comparisons raise TypeError; non-trivial = a case with at least one expression operand",
                   bound="13 kinds^2 x 12 operators x 12 environments; 400 depth-2 programs", functions=["Expression.__add__ ... __rand__", "Sum/Product overrides", "quotient"])
    kinds = {
        "var": lambda: x, "sum": lambda: p.Sum((x, y)), "prod": lambda: p.Product((x, y)), "quot": lambda: p.Quotient(x, y), "pow": lambda: p.Power(x, 2),
        "sum1": lambda: p.Sum((y,)), "c0": lambda: 0, "c1": lambda: 1, "cm1": lambda: -1, "c2": lambda: 2, "f0": lambda: 0.0, "f1": lambda: 1.0, "t": lambda: True,
        "fh": lambda: 0.5, "f15": lambda: 1.5, "pow4": lambda: p.Power(x, 4),
    }
    envs = []
    for vx, vy in itertools.product([-3, -1, 0, 1, 2, Fraction(5, 2), Fraction(-1, 2)], [-2, 1, 3, Fraction(3, 2)]):
        envs.append({"x": vx, "y": vy})
    if tier == "quick":
        envs = envs[::2]

    def plain(kind, env):
        vx, vy = env["x"], env["y"]
        return {"var": vx, "sum": vx + vy, "prod": vx * vy, "quot": None if vy == 0 else vx / vy, "pow": vx ** 2, "sum1": 0 + vy, "c0": 0, "c1": 1, "cm1": -1, "c2": 2,
                "f0": 0.0, "f1": 1.0, "t": True, "fh": 0.5, "f15": 1.5, "pow4": vx ** 4}[kind]
    for opn, op in BIN.items():
        for lk, rk in itertools.product(kinds, repeat=2):
            if not (lk in ("var", "sum", "prod", "quot", "pow", "sum1", "pow4") or rk in ("var", "sum", "prod", "quot", "pow", "sum1", "pow4")):
                continue
            built = outcome.run(lambda: op(kinds[lk](), kinds[rk]()))
            for env in envs:
                a, c = plain(lk, env), plain(rk, env)
                if a is None or c is None:
                    continue
                if opn in ("<<", ">>", "&", "|", "^") and not (isinstance(a, int) and isinstance(c, int)):
                    continue
                if opn in ("<<", ">>") and not (0 <= c <= 8):
                    continue
                if opn == "**" and (abs(c) > 6 or not isinstance(c, int) and a < 0):
                    continue
                want = outcome.run(lambda: op(a, c))
                if want[0] == "exc":
                    continue          # the plain computation is not defined here
                b.case((opn, lk, rk, repr(env)), nontrivial=True, sample=dict(op=opn, left=lk, right=rk, env={k: repr(v) for k, v in env.items()}))
                if built[0] == "exc":
                    ok = False
                    got = built
                else:
                    got = outcome.run(lambda: EvaluationMapper(env)(built[1]))
                    ok = got[0] == "val" and outcome.same_value(got[1], want[1], typed=False)
                if not ok:
                    b.fail(Failure("operator-programs", f"op={opn} left={lk} right={rk} x={env['x']} y={env['y']} tree={built[1] if built[0] == 'val' else None!r}",
                                   dict(kind="op", op=opn, left=lk, right=rk, env={k: repr(v) for k, v in env.items()}),
                                   expected=outcome.describe(want), actual=outcome.describe(got), functions=[f"Expression operator {opn}"]))
    for un, f in UN.items():
        for lk in ("var", "sum", "prod", "quot", "pow"):
            built = outcome.run(lambda: f(kinds[lk]()))
            for env in envs:
                a = plain(lk, env)
                if a is None or (un == "inv" and not isinstance(a, int)):
                    continue
                want = outcome.run(lambda: f(a))
                b.case((un, lk, repr(env)), nontrivial=True)
                got = outcome.run(lambda: EvaluationMapper(env)(built[1])) if built[0] == "val" else built
                if want[0] == "val" and not (got[0] == "val" and outcome.same_value(got[1], want[1], typed=False)):
                    b.fail(Failure("operator-programs", f"op={un} left={lk} x={env['x']} y={env['y']}", dict(kind="unop", op=un, left=lk, env={k: repr(v) for k, v in env.items()}),
                                   expected=outcome.describe(want), actual=outcome.describe(got), functions=[f"Expression.__{un}__"]))
    # depth-2 programs
    import random
    rnd = random.Random(seed)
    atoms = [("x", lambda e: e["x"], lambda: x), ("y", lambda e: e["y"], lambda: y), ("1", lambda e: 1, lambda: 1), ("0", lambda e: 0, lambda: 0), ("2", lambda e: 2, lambda: 2), ("-1", lambda e: -1, lambda: -1)]
    ops = ["+", "-", "*", "/"]
    for _ in range(400 if tier == "quick" else 3000):
        o1, o2, o3 = rnd.choice(ops), rnd.choice(ops), rnd.choice(ops)
        a1, a2, a3, a4 = (rnd.choice(atoms) for _ in range(4))
        if all(a[0] not in "xy" for a in (a1, a2, a3, a4)):
            continue

        def prog(g):
            return BIN[o3](BIN[o1](g(a1), g(a2)), BIN[o2](g(a3), g(a4)))
        built = outcome.run(lambda: prog(lambda a: a[2]()))
        for env in envs[::3]:
            want = outcome.run(lambda: prog(lambda a: a[1](env)))
            if want[0] == "exc":
                continue
            b.case(("prog", o1, o2, o3, a1[0], a2[0], a3[0], a4[0], repr(env)), nontrivial=True)
            got = outcome.run(lambda: EvaluationMapper(env)(built[1])) if built[0] == "val" else built
            if not (got[0] == "val" and outcome.same_value(got[1], want[1], typed=False)):
                b.fail(Failure("operator-programs", f"op=program ({a1[0]}{o1}{a2[0]}){o3}({a3[0]}{o2}{a4[0]}) x={env['x']} y={env['y']}",
                               dict(kind="prog", prog=f"({a1[0]}{o1}{a2[0]}){o3}({a3[0]}{o2}{a4[0]})", env={k: repr(v) for k, v in env.items()}),
                               expected=outcome.describe(want), actual=outcome.describe(got), functions=["Expression operators"]))
    # ordering comparisons
    for opn, f in (("<", operator.lt), ("<=", operator.le), (">", operator.gt), (">=", operator.ge)):
        for other in (x, 1, p.Sum((x, 1))):
            for lhs in (x, p.Sum((x, y)), p.Product((x, 2))):
                r = outcome.run(lambda: f(lhs, other))
                b.case(("order", opn, repr(lhs), repr(other)))
                if not (r[0] == "exc" and issubclass(r[1], TypeError)):
                    b.fail(Failure("operator-programs", f"op=ordering {opn} lhs={lhs!r} rhs={other!r}", dict(kind="order", op=opn), expected="TypeError", actual=outcome.describe(r),
                                   functions=["Expression.__lt__ etc."]))
    # zeros and ones of the small number types, and what is computed with the result afterwards (the folded value must behave like the plain product / sum)
    import numpy as np
    zoo = [("False", False), ("int8-0", np.int8(0)), ("uint8-0", np.uint8(0)), ("float-0", 0.0), ("True", True), ("int8-1", np.int8(1)), ("uint8-1", np.uint8(1)),
           ("float32-0", np.float32(0)), ("bool_-False", np.False_)]
    follow = [("z*x+100+100", lambda v, z: z * v + 100 + 100), ("x*z+100+100", lambda v, z: v * z + 100 + 100), ("x*z-1", lambda v, z: v * z - 1), ("(x*z)*300", lambda v, z: (v * z) * 300),
              ("(x+z)*200+100", lambda v, z: (v + z) * 200 + 100), ("(x**z)*200+100", lambda v, z: (v ** z) * 200 + 100), ("x*z+x", lambda v, z: v * z + v), ("-(z*x)-1", lambda v, z: -(z * v) - 1),
              ("x-z", lambda v, z: v - z), ("(x+1)-z", lambda v, z: (v + 1) - z), ("x/(-z-1)", lambda v, z: v / (-z - 1))]
    for (zn, z), (fn_, f_) in itertools.product(zoo, follow):
        if isinstance(z, (bool, np.bool_)) and "x+z" in fn_:
            continue        # bool operands of + are the known finding C03-add-bool-operand
        built = outcome.run(lambda: f_(x, z))
        # small numpy integers: only next to values that promote the plain computation (an int8 next to a Python int stays int8 and overflows by itself)
        xs_ = (np.int64(7), 2.5, np.int64(-3)) if isinstance(z, np.integer) else (3, 7, Fraction(5, 2), -2) if not isinstance(z, np.floating) else (3, 2.5, -2)
        for vx in xs_:
            want = outcome.run(lambda: f_(vx, z))
            if want[0] != "val":
                continue
            b.case(("zoo", zn, fn_, repr(vx)), nontrivial=True, sample=dict(constant=zn, program=fn_, x=repr(vx)))
            got = outcome.run(lambda: EvaluationMapper({"x": vx})(built[1])) if built[0] == "val" else built
            if not (got[0] == "val" and outcome.same_value(got[1], want[1], typed=False)):
                un = "cause=unsigned-operand-negated " if isinstance(z, np.unsignedinteger) and "-z" in fn_ else ""
                b.fail(Failure("operator-programs", f"{un}op=number-zoo constant={zn} program={fn_} x={vx!r} tree={built[1] if built[0] == 'val' else None!r}",
                               dict(kind="zoo", constant=zn, program=fn_, x=repr(vx)), expected=outcome.describe(want), actual=outcome.describe(got)[:150], functions=["Expression.__mul__", "Expression.__rmul__", "Product.__mul__"]))
    # non-commuting operands: splicing keeps operand order
    b2 = BoundedRun("non-commuting", rule="operator programs over variables a, b, c, d bound to 2x2 integer matrices (non-commuting *): products of products, "
                    "negations, scalar factors on either side; tree value == plain value; non-trivial = all",
                    bound="24 programs x 3 matrix environments", functions=["Product.__mul__", "Product.__rmul__", "Expression.__mul__", "flattened_product"])
    va, vb, vc, vd = (p.Variable(n) for n in "abcd")
    menvs = [dict(a=Mat(((1, 1), (0, 1))), b=Mat(((1, 0), (1, 1))), c=Mat(((0, 1), (-1, 0))), d=Mat(((2, 1), (1, 1)))),
             dict(a=Mat(((0, 1), (1, 0))), b=Mat(((1, 2), (3, 4))), c=Mat(((1, 0), (0, -1))), d=Mat(((1, 1), (1, 0)))),
             dict(a=Mat(((2, 0), (1, 1))), b=Mat(((1, 3), (0, 1))), c=Mat(((1, 1), (1, 2))), d=Mat(((0, -1), (1, 0))))]
    progs = [lambda a, b_, c, d: (a * b_) * (c * d), lambda a, b_, c, d: a * (b_ * c), lambda a, b_, c, d: (a * b_) * c, lambda a, b_, c, d: (-a) * (b_ * c),
             lambda a, b_, c, d: (a * b_) * (-c), lambda a, b_, c, d: 2 * (a * b_), lambda a, b_, c, d: (a * b_) * 2, lambda a, b_, c, d: a * b_ + c * d,
             lambda a, b_, c, d: (a + b_) * (c + d), lambda a, b_, c, d: (a * b_ * c) * (d * a), lambda a, b_, c, d: a * b_ - b_ * a, lambda a, b_, c, d: (a * 1) * (b_ * c),
             lambda a, b_, c, d: (a * b_) * (c * d) * (a * c)]
    for i, pr in enumerate(progs):
        built = outcome.run(lambda: pr(va, vb, vc, vd))
        for env in menvs:
            want = outcome.run(lambda: pr(env["a"], env["b"], env["c"], env["d"]))
            b2.case((i, repr(env["a"].a)), nontrivial=True, sample=dict(program=i, tree=repr(built[1])[:120] if built[0] == "val" else None))
            got = outcome.run(lambda: EvaluationMapper(env)(built[1])) if built[0] == "val" else built
            if want[0] == "val" and not (got[0] == "val" and got[1] == want[1]):
                b2.fail(Failure("non-commuting", f"program={i} tree={built[1] if built[0] == 'val' else None!r}", dict(kind="mat", program=i),
                                expected=outcome.describe(want), actual=outcome.describe(got), functions=["Product.__mul__", "Expression.__mul__"]))
    # the smart constructors called directly: nested products (sums) in every position, operands in the order given (the documented contract of flattened_product)
    import functools
    shapes_ = [lambda a, b_, c, d: [mk((a, b_)), c], lambda a, b_, c, d: [a, mk((b_, c))], lambda a, b_, c, d: [a, mk((b_, c)), d], lambda a, b_, c, d: [mk((a, b_)), mk((c, d))],
               lambda a, b_, c, d: [mk((a, mk((b_, c)))), d], lambda a, b_, c, d: [mk((mk((a, b_)), c)), d, a], lambda a, b_, c, d: [a, 1, mk((b_, 1, c)), d],
               lambda a, b_, c, d: [mk((a, b_)), c, mk((d, a)), b_], lambda a, b_, c, d: [a, b_, c, d], lambda a, b_, c, d: [mk((a, b_, c, d))]]
    for cname, ctor, node, fold in (("flattened_product", p.flattened_product, p.Product, operator.mul), ("flattened_sum", p.flattened_sum, p.Sum, operator.add)):
        mk = node
        for i, sh in enumerate(shapes_):
            terms = sh(va, vb, vc, vd)
            built = outcome.run(lambda: ctor(terms))
            for env in menvs if cname == "flattened_product" else [dict(a=NC("a"), b=NC("b"), c=NC("c"), d=NC("d"))]:
                from pymbolic.mapper.evaluator import EvaluationMapper as _EM
                want = outcome.run(lambda: functools.reduce(fold, [_EM(env)(t) for t in terms if not (isinstance(t, int) and t == 1)]))
                b2.case((cname, i, repr(env["a"])), nontrivial=True, sample=dict(constructor=cname, terms=repr(terms)[:120]))
                got = outcome.run(lambda: _EM(env)(built[1])) if built[0] == "val" else built
                if want[0] == "val" and not (got[0] == "val" and got[1] == want[1]):
                    b2.fail(Failure("non-commuting", f"constructor={cname} terms={terms!r} tree={built[1] if built[0] == 'val' else None!r}", dict(kind="mat-ctor", constructor=cname, shape=i),
                                    expected=outcome.describe(want)[:150], actual=outcome.describe(got)[:150], functions=[cname]))
    return [b, b2, b_constructors(tier), b_linear_combination(tier), b_registered_constants(tier), b_rational(tier)]


class NC:
    """Values with a non-commutative, associative + (concatenation of words) for the order of spliced sums."""

    def __init__(self, w):
        self.w = w if isinstance(w, tuple) else (w,)

    def __add__(self, o):
        if isinstance(o, int) and o == 0:
            return self
        return NC(self.w + o.w)

    def __radd__(self, o):
        if isinstance(o, int) and o == 0:
            return self
        return NC(o.w + self.w)

    def __eq__(self, o):
        return isinstance(o, NC) and self.w == o.w

    def __hash__(self):
        return hash(self.w)

    def __repr__(self):
        return "NC" + repr(self.w)


def b_registered_constants(tier):
    """A number class registered with register_constant_class after import is a constant for every operator, on either side."""
    import pymbolic.primitives as p
    from pymbolic.mapper.evaluator import EvaluationMapper
    b = BoundedRun("registered-constant-class", rule="after primitives.register_constant_class(Fraction) (undone afterwards): every binary operator with a Fraction on the left / on the "
                   "right of a variable, a sum, a product and a quotient builds a tree that evaluates to the plain result in 3 environments; after unregister_constant_class the "
                   "Fraction is rejected again (TypeError) or still computed correctly, never computed wrongly", bound="12 operators x 4 operand shapes x 2 sides x 3 environments",
                   functions=["register_constant_class", "unregister_constant_class", "is_constant", "is_valid_operand", "is_arithmetic_expression", "Expression.__add__..__rpow__"])
    x, y = trees.X, trees.Y
    shapes = {"var": lambda x, y: x, "sum": lambda x, y: x + y, "prod": lambda x, y: x * y, "quot": lambda x, y: x / (y + 7)}
    F = Fraction(3, 2)
    envs = [dict(x=Fraction(2), y=Fraction(5)), dict(x=Fraction(-1, 3), y=Fraction(4)), dict(x=Fraction(7, 2), y=Fraction(-2))]
    arith = {k: v for k, v in BIN.items() if k in ("+", "-", "*", "/", "//", "%", "**")}
    p.register_constant_class(Fraction)
    try:
        for opn, op in arith.items():
            for sn, sh in shapes.items():
                for side in ("right", "left"):
                    prog = (lambda a, c: op(sh(a, c), F)) if side == "right" else (lambda a, c: op(F, sh(a, c)))
                    built = outcome.run(lambda: prog(x, y))
                    for env in envs:
                        want = outcome.run(lambda: prog(env["x"], env["y"]))
                        if want[0] != "val" or isinstance(want[1], complex):
                            continue
                        b.case((opn, sn, side, repr(env["x"])), sample=dict(op=opn, operand=sn, side=side))
                        got = outcome.run(lambda: EvaluationMapper(env)(built[1])) if built[0] == "val" else built
                        if not (got[0] == "val" and outcome.same_value(got[1], want[1], typed=False)):
                            b.fail(Failure("registered-constant-class", f"op={opn} operand={sn} fraction-on={side} x={env['x']}", dict(kind="regconst", op=opn, operand=sn, side=side),
                                           expected=outcome.describe(want), actual=outcome.describe(got)[:150], functions=["is_valid_operand", f"Expression operator {opn}"]))
                            break
    finally:
        p.unregister_constant_class(Fraction)
    for opn, op in arith.items():
        r = outcome.run(lambda: op(x, F))
        b.case(("after-unregister", opn))
        if r[0] == "val":
            got = outcome.run(lambda: EvaluationMapper(envs[0])(r[1]))
            want = op(envs[0]["x"], F)
            if not (got[0] == "val" and outcome.same_value(got[1], want, typed=False)):
                b.fail(Failure("registered-constant-class", f"op={opn} after-unregister", dict(kind="regconst", op=opn), expected="TypeError or the right value", actual=outcome.describe(got)[:150],
                               functions=["unregister_constant_class"]))
    return b


def b_linear_combination(tier):
    import pymbolic.primitives as p
    from pymbolic.mapper.evaluator import EvaluationMapper
    b = BoundedRun("linear-combination", rule="linear_combination(coefficients, expressions) for all coefficient / expression lists of length 0..3 over {0, 1, -2, x, x+y} x {0, 1, y, "
                   "x*y, 3}: the tree evaluates to sum(c*e) in every environment of the box (zero coefficients and zero expressions may be dropped, nothing else)",
                   bound="lengths 0..3, 5x5 alphabet, 4 environments", functions=["linear_combination"])
    x, y = trees.X, trees.Y
    cs = [0, 1, -2, x, p.Sum((x, y))]
    es = [0, 1, y, p.Product((x, y)), 3]
    envs = [dict(x=2, y=5), dict(x=-1, y=Fraction(1, 2)), dict(x=0, y=3), dict(x=Fraction(-3, 2), y=-4)]
    for n in range(0, 4):
        for cc in itertools.product(cs, repeat=n):
            for ee in itertools.product(es, repeat=n):
                if n == 3 and tier != "thorough" and (hash((repr(cc), repr(ee))) % 7):
                    continue
                built = outcome.run(lambda: p.linear_combination(cc, ee))
                b.case(("lc", repr(cc), repr(ee)), sample=dict(coefficients=[repr(c) for c in cc], expressions=[repr(e) for e in ee]))
                for env in envs:
                    want = sum((EvaluationMapper(env)(c) * EvaluationMapper(env)(e) for c, e in zip(cc, ee)), 0)
                    got = outcome.run(lambda: EvaluationMapper(env)(built[1])) if built[0] == "val" else built
                    if not (got[0] == "val" and outcome.same_value(got[1], want, typed=False)):
                        b.fail(Failure("linear-combination", f"coefficients={cc!r} expressions={ee!r} x={env['x']} y={env['y']}", dict(kind="lc", c=repr(cc), e=repr(ee)),
                                       expected=repr(want), actual=outcome.describe(got)[:150], functions=["linear_combination"]))
                        break
    return b


class _Obj:
    """Plain object with attributes and a method, the counterpart of attribute / call syntax."""

    def __init__(self, v):
        self.re = v
        self.im = v + 100
        self._count = v + 7
        self._scale = 3 - v
        self.aggregate = v + 9

    def _twice(self, t):
        return 2 * t + self._count

    def method(self, t, k=0):
        return 3 * t + 7 * k + self.re


def b_constructors(tier):
    """Call, subscript and attribute syntax and the comparison / logical constructor methods."""
    import pymbolic.primitives as p
    from pymbolic.mapper.evaluator import EvaluationMapper
    b = BoundedRun("constructor-syntax", rule="programs written with subscript syntax (every index kind: 0, 1, -1, 0.0, False, True, a variable, a sum that is zero, tuples of "
                   "length 1..2, EmptyOK), call syntax (0..3 positional and keyword arguments, nested), attribute syntax (.attr(name), .a.name) and the constructor methods "
                   "eq/ne/lt/le/gt/ge/not_/and_/or_, alone and inside arithmetic: the tree built on Variables, evaluated, equals the same program on plain Python objects",
                   bound="~120 programs x 3 environments", functions=["Expression.__getitem__", "Expression.__call__", "Expression.attr", "Expression.a",
                                                                     "Expression.eq/ne/lt/le/gt/ge", "Expression.not_/and_/or_"])
    a, f, o, i, j = (p.Variable(n) for n in ("a", "f", "o", "i", "j"))
    envs = [dict(a=[10, 20, 30, 40], f=lambda *t, **k: sum(t) * 2 + sum(v * 5 for v in k.values()) + 1, o=_Obj(4), i=0, j=1, m={(0,): 7, (0, 1): 8, (1, 0): 9, (1,): 6, (): 11}),
            dict(a=[-1, 0, 5, 2], f=lambda *t, **k: len(t) + 10 * len(k), o=_Obj(-2), i=2, j=0, m={(2,): 1, (2, 0): 2, (0, 2): 3, (0,): 4, (): -5}),
            dict(a=(3, 1, 4, 1), f=lambda *t, **k: 42, o=_Obj(0), i=1, j=1, m={(1,): 5, (1, 1): 0, (): 0}),]
    m = p.Variable("m")
    progs = {
        "a[0]": lambda a, f, o, i, j, m: a[0], "a[1]": lambda a, f, o, i, j, m: a[1], "a[-1]": lambda a, f, o, i, j, m: a[-1], "a[False]": lambda a, f, o, i, j, m: a[False],
        "a[True]": lambda a, f, o, i, j, m: a[True], "a[i]": lambda a, f, o, i, j, m: a[i], "a[i-i]": lambda a, f, o, i, j, m: a[i - i], "a[i+j]": lambda a, f, o, i, j, m: a[i + j],
        "a[0]+a[1]+a[2]": lambda a, f, o, i, j, m: a[0] + a[1] + a[2], "a[0]*a[1]": lambda a, f, o, i, j, m: a[0] * a[1], "a[a[0]*0]": lambda a, f, o, i, j, m: a[a[0] * 0],
        "m[i,]": lambda a, f, o, i, j, m: m[i,], "m[i,j]": lambda a, f, o, i, j, m: m[i, j], "m[(i,j)]": lambda a, f, o, i, j, m: m[(i, j)],
        "f()": lambda a, f, o, i, j, m: f(), "f(i)": lambda a, f, o, i, j, m: f(i), "f(i,j)": lambda a, f, o, i, j, m: f(i, j), "f(i,j,3)": lambda a, f, o, i, j, m: f(i, j, 3),
        "f(k=i)": lambda a, f, o, i, j, m: f(k=i), "f(i,k=j,l=2)": lambda a, f, o, i, j, m: f(i, k=j, l=2), "f(f(i),f(j))": lambda a, f, o, i, j, m: f(f(i), f(j)),
        "f(a[0])+1": lambda a, f, o, i, j, m: f(a[0]) + 1, "f(0)": lambda a, f, o, i, j, m: f(0), "f(0,0)": lambda a, f, o, i, j, m: f(0, 0),
        "o.attr(re)": (lambda a, f, o, i, j, m: o.attr("re"), lambda a, f, o, i, j, m: o.re), "o.a.im": (lambda a, f, o, i, j, m: o.a.im, lambda a, f, o, i, j, m: o.im),
        "o.a.re+a[0]": (lambda a, f, o, i, j, m: o.a.re + a[0], lambda a, f, o, i, j, m: o.re + a[0]),
        "o.attr(method)(i,k=j)": (lambda a, f, o, i, j, m: o.attr("method")(i, k=j), lambda a, f, o, i, j, m: o.method(i, k=j)),
        # attribute names of every spelling: a leading underscore, the name of the helper's own field
        "o.a._count": (lambda a, f, o, i, j, m: o.a._count, lambda a, f, o, i, j, m: o._count),
        "j-o.a._scale": (lambda a, f, o, i, j, m: j - o.a._scale, lambda a, f, o, i, j, m: j - o._scale),
        "o.a._twice(i)": (lambda a, f, o, i, j, m: o.a._twice(i), lambda a, f, o, i, j, m: o._twice(i)),
        "(o.a._count<<2)|o.a._scale": (lambda a, f, o, i, j, m: (o.a._count << 2) | o.a._scale, lambda a, f, o, i, j, m: (o._count << 2) | o._scale),
        "o.attr(_count)": (lambda a, f, o, i, j, m: o.attr("_count"), lambda a, f, o, i, j, m: o._count),
        "o.a.aggregate": (lambda a, f, o, i, j, m: o.a.aggregate, lambda a, f, o, i, j, m: o.aggregate),
        "o.attr(aggregate)": (lambda a, f, o, i, j, m: o.attr("aggregate"), lambda a, f, o, i, j, m: o.aggregate),
        # the empty tuple as an index
        "m[()]": lambda a, f, o, i, j, m: m[()], "m[EmptyOK(())]": (lambda a, f, o, i, j, m: m[p.EmptyOK(())], lambda a, f, o, i, j, m: m[()]),
        "m[()]+i": lambda a, f, o, i, j, m: m[()] + i,
        "i.eq(j)": (lambda a, f, o, i, j, m: i.eq(j), lambda a, f, o, i, j, m: i == j), "i.ne(j)": (lambda a, f, o, i, j, m: i.ne(j), lambda a, f, o, i, j, m: i != j),
        "i.lt(j)": (lambda a, f, o, i, j, m: i.lt(j), lambda a, f, o, i, j, m: i < j), "i.le(j)": (lambda a, f, o, i, j, m: i.le(j), lambda a, f, o, i, j, m: i <= j),
        "i.gt(j)": (lambda a, f, o, i, j, m: i.gt(j), lambda a, f, o, i, j, m: i > j), "i.ge(j)": (lambda a, f, o, i, j, m: i.ge(j), lambda a, f, o, i, j, m: i >= j),
        "i.lt(0)": (lambda a, f, o, i, j, m: i.lt(0), lambda a, f, o, i, j, m: i < 0), "(i+j).ge(a[0])": (lambda a, f, o, i, j, m: (i + j).ge(a[0]), lambda a, f, o, i, j, m: (i + j) >= a[0]),
        "i.eq(j).not_()": (lambda a, f, o, i, j, m: i.eq(j).not_(), lambda a, f, o, i, j, m: not (i == j)),
        "i.lt(j).and_(j.lt(2))": (lambda a, f, o, i, j, m: i.lt(j).and_(j.lt(2)), lambda a, f, o, i, j, m: bool((i < j) and (j < 2))),
        "i.lt(j).or_(j.eq(0))": (lambda a, f, o, i, j, m: i.lt(j).or_(j.eq(0)), lambda a, f, o, i, j, m: bool((i < j) or (j == 0))),
    }
    for name, pr in progs.items():
        build, plain = pr if isinstance(pr, tuple) else (pr, pr)
        built = outcome.run(lambda: build(a, f, o, i, j, m))
        for env in envs:
            want = outcome.run(lambda: plain(env["a"], env["f"], env["o"], env["i"], env["j"], env.get("m")))
            if want[0] != "val":
                continue
            b.case((name, repr(env["i"]), repr(env["j"])), sample=dict(program=name, tree=repr(built[1])[:120] if built[0] == "val" else None))
            got = outcome.run(lambda: EvaluationMapper(env)(built[1])) if built[0] == "val" else built
            if not (got[0] == "val" and outcome.same_value(got[1], want[1], typed=False)):
                cause = ("cause=attribute-named-like-helper-field " if name == "o.a.aggregate" else
                         "cause=empty-tuple-index-returns-aggregate " if name in ("m[()]", "m[()]+i") else "")
                b.fail(Failure("constructor-syntax", f"{cause}program={name} i={env['i']} j={env['j']} tree={built[1] if built[0] == 'val' else None!r}", dict(kind="ctor", program=name),
                               expected=outcome.describe(want), actual=outcome.describe(got)[:200], functions=["Expression.__getitem__", "Expression.__call__", "Expression.attr"]))
    return b


def b_rational(tier):
    """The quotient helper on two integers builds a Rational node; operator programs over such nodes mean what they mean on exact fractions."""
    import pymbolic.primitives as p
    from fractions import Fraction as Fr
    from pymbolic.mapper.evaluator import EvaluationMapper
    b = BoundedRun("rational-programs", rule="q = quotient(a, b), r = quotient(c, d) for integer pairs (signs, non-reduced pairs, zero numerator, integral value), x a variable: the programs "
                   "q, -q, q**k (k = 0..3), q+1, 1+q, q-1, 1-q, q*2, 2*q, q*r, q+r, q-r, q/r, q/2, 2/q, q+x, x+q, x-q, q-x, x*q, q*x, x/q, q/x, x**q, q*0, q+0, q*1, q-q, q*(1/q), q+r+q and "
                   "(q+r)*(q-r), evaluated, equal the same lambda on fractions.Fraction (values compared to 1e-12: an evaluated Rational is a float); powers with a negative or symbolic "
                   "exponent are a known finding", bound="9 operand pairs x 36 programs x 3 values of x", functions=["quotient", "Rational.__add__/__mul__/__pow__/__neg__", "EuclideanRingTraits.lcm"])
    x = trees.X
    progs = {"q": lambda q, r, x: q, "-q": lambda q, r, x: -q, "q**0": lambda q, r, x: q**0, "q**1": lambda q, r, x: q**1, "q**2": lambda q, r, x: q**2, "q**3": lambda q, r, x: q**3,
             "q**-1": lambda q, r, x: q**-1, "q**-2": lambda q, r, x: q**-2, "q**x": lambda q, r, x: q**x,
             "q+1": lambda q, r, x: q + 1, "1+q": lambda q, r, x: 1 + q, "q-1": lambda q, r, x: q - 1, "1-q": lambda q, r, x: 1 - q, "q*2": lambda q, r, x: q * 2, "2*q": lambda q, r, x: 2 * q,
             "q*r": lambda q, r, x: q * r, "q+r": lambda q, r, x: q + r, "q-r": lambda q, r, x: q - r, "q/r": lambda q, r, x: q / r, "q/2": lambda q, r, x: q / 2, "2/q": lambda q, r, x: 2 / q,
             "q+x": lambda q, r, x: q + x, "x+q": lambda q, r, x: x + q, "x-q": lambda q, r, x: x - q, "q-x": lambda q, r, x: q - x, "x*q": lambda q, r, x: x * q, "q*x": lambda q, r, x: q * x,
             "x/q": lambda q, r, x: x / q, "q/x": lambda q, r, x: q / x, "x**q": lambda q, r, x: x**q, "q*0": lambda q, r, x: q * 0, "q+0": lambda q, r, x: q + 0, "q*1": lambda q, r, x: q * 1,
             "q-q": lambda q, r, x: q - q, "q*(1/q)": lambda q, r, x: q * (1 / q), "q+r+q": lambda q, r, x: q + r + q, "(q+r)*(q-r)": lambda q, r, x: (q + r) * (q - r)}
    pairs = [((1, 2), (2, 3)), ((-3, 4), (5, -6)), ((2, 4), (3, 9)), ((4, 2), (1, 3)), ((0, 3), (7, 5)), ((7, -3), (-7, 3)), ((5, 6), (1, 6)), ((9, 10), (1, 10)), ((1, 3), (1, 3))]
    for (a_, b_), (c_, d_) in pairs:
        q, r = outcome.run(lambda: p.quotient(a_, b_)), outcome.run(lambda: p.quotient(c_, d_))
        for name, prog in progs.items():
            built = outcome.run(lambda: prog(q[1], r[1], x)) if q[0] == r[0] == "val" else (q if q[0] != "val" else r)
            for xv in (Fr(5), Fr(-2), Fr(4, 1)):
                want = outcome.run(lambda: prog(Fr(a_, b_), Fr(c_, d_), xv))
                if want[0] != "val" or isinstance(want[1], complex):
                    continue
                b.case((name, a_, b_, c_, d_, str(xv)), sample=dict(program=name, q=f"quotient({a_}, {b_})", r=f"quotient({c_}, {d_})", tree=repr(built[1])[:100] if built[0] == "val" else None))
                got = outcome.run(lambda: EvaluationMapper({"x": int(xv)})(built[1])) if built[0] == "val" else built
                ok = got[0] == "val" and outcome.run(lambda: abs(got[1] - want[1]) <= 1e-12 * max(1, abs(want[1]))) == ("val", True)
                if not ok:
                    cause = "cause=rational-power-negative-or-symbolic-exponent " if name in ("q**-1", "q**-2", "q**x") and got[0] == "exc" else ""
                    b.fail(Failure("rational-programs", f"{cause}program={name} q=quotient({a_}, {b_}) r=quotient({c_}, {d_}) x={xv} tree={built[1] if built[0] == 'val' else None!r}",
                                   dict(kind="rational", program=name, q=[a_, b_], r=[c_, d_]), expected=outcome.describe(want), actual=outcome.describe(got)[:200],
                                   functions=["Rational.__add__", "Rational.__mul__", "Rational.__pow__", "quotient"]))
    return b


def replay(case):
    runs = bounded("quick", 0, 1)
    return any(f.case == case for b in runs for f in b.failures)

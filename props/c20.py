"""C20  Statement-stream utilities keep programs well-formed."""
from __future__ import annotations

import itertools
import random
import re

from contracts import c20 as K
from harness import outcome, trees
from harness.runner import BoundedRun, Failure
from pyvc import api

LEVEL = "exploration"
SPECS = []
EXPLANATION = (
    "Bounded: all pairs of statement streams of <= 3 statements (assignments to variables and subscripts, conditional "
    "assignments, no-ops) over 3 ids and 4 identifiers with arbitrary clashes and acyclic dependencies, all filters, fusion "
    "repeated on already fused streams, exhaustively checked against independent reference implementations; dependency graph "
    "export on all acyclic graphs of <= 5 nodes (+ long chains) against an independent transitive reduction.  Proved kernel: "
    "Assignment.get_written_variables for variable / subscript / other left-hand sides.")
ASSUMPTIONS = ["pytools.UniqueNameGenerator returns a name not yet in its set and adds it (trusted)", "pytools.Record.copy replaces exactly the given fields (trusted)"]
TRUSTED_BASE = ["pytools.Record", "pytools.UniqueNameGenerator"]


def proof_jobs(tier):
    return [("function", fc, None, None) for fc in K.FUNCTIONS]


# ----------------------------------------------------------------------------- independent scans
def scan_names(e, acc):
    """All variable names occurring in e (calls: arguments only, as the statement's dependency mapper descends into arguments)."""
    import pymbolic.primitives as p
    if isinstance(e, p.Variable):
        acc.add(e.name)
    elif isinstance(e, (p.Call, p.CallWithKwargs)):
        for c in e.parameters:
            scan_names(c, acc)
        if isinstance(e, p.CallWithKwargs):
            for c in e.kw_parameters.values():
                scan_names(c, acc)
    elif isinstance(e, p.Expression):
        for c in api.children(e):
            if c is not None:
                scan_names(c, acc)
    elif isinstance(e, (tuple, list)):
        for c in e:
            scan_names(c, acc)
    return acc


def every_name(st, acc):
    """Every Variable name written anywhere in the statement, function positions of calls included (what a fresh name must differ from)."""
    import pymbolic.primitives as p

    def walk(e):
        if isinstance(e, p.Variable):
            acc.add(e.name)
        elif isinstance(e, p.Expression):
            for c in api.children(e):
                walk(c)
        elif isinstance(e, (tuple, list)):
            for c in e:
                walk(c)
        elif hasattr(e, "values"):
            for c in e.values():
                walk(c)
    for part in ("lhs", "rhs", "condition"):
        if hasattr(st, part):
            walk(getattr(st, part))
    return acc


def ref_reads(st):
    import pymbolic.primitives as p
    from pymbolic.imperative.statement import Assignment, ConditionalStatement
    acc = set()
    if isinstance(st, Assignment):
        scan_names(st.rhs, acc)
        if isinstance(st.lhs, p.Subscript):
            scan_names(st.lhs.index, acc)
    if isinstance(st, ConditionalStatement):
        scan_names(st.condition, acc)
    return frozenset(acc)


def ref_writes(st):
    import pymbolic.primitives as p
    from pymbolic.imperative.statement import Assignment
    if isinstance(st, Assignment):
        return frozenset([st.lhs.name if isinstance(st.lhs, p.Variable) else st.lhs.aggregate.name])
    return frozenset()


def statements_pool():
    import pymbolic.primitives as p
    from pymbolic.imperative.statement import Assignment, ConditionalAssignment, Nop
    a, b_, c, i = p.Variable("a"), p.Variable("b"), p.Variable("c"), p.Variable("i")
    return [
        lambda id, dep: Assignment(a, p.Sum((b_, 1)), id=id, depends_on=dep),
        lambda id, dep: Assignment(p.Subscript(a, i), p.Product((b_, c)), id=id, depends_on=dep),
        lambda id, dep: Assignment(p.Subscript(b_, p.Sum((i, c))), 0, id=id, depends_on=dep),
        lambda id, dep: ConditionalAssignment(lhs=c, rhs=p.Call(p.Variable("f"), (a, i)), condition=p.Comparison(b_, "<", i), id=id, depends_on=dep),
        lambda id, dep: ConditionalAssignment(lhs=p.Subscript(c, a), rhs=b_, condition=p.LogicalAnd((p.Comparison(i, ">", 0), a)), id=id, depends_on=dep),
        lambda id, dep: Nop(id=id, depends_on=dep),
        lambda id, dep: Assignment(b_, a, id=id, depends_on=dep),
        # subscripts and attribute look-ups on the right-hand side and in the condition; identifiers that look like generated fresh names
        lambda id, dep: Assignment(a, p.Sum((p.Subscript(b_, i), p.Lookup(c, "re"))), id=id, depends_on=dep),
        lambda id, dep: ConditionalAssignment(lhs=b_, rhs=p.Subscript(a, (i, p.Variable("a_0"))), condition=p.Comparison(p.Subscript(c, i), ">", p.Lookup(p.Variable("i_0"), "lo")), id=id, depends_on=dep),
        lambda id, dep: Assignment(p.Variable("a_0"), p.Product((a, p.Variable("c_0"))), id=id, depends_on=dep),
        # attribute names that are spelled like identifiers of the streams: an attribute name is not an identifier
        lambda id, dep: Assignment(b_, p.Sum((p.Lookup(c, "a"), a, p.Lookup(p.Variable("f"), "i"))), id=id, depends_on=dep),
        lambda id, dep: ConditionalAssignment(lhs=i, rhs=p.Lookup(a, "b"), condition=p.Comparison(p.Lookup(b_, "a"), "<", a), id=id, depends_on=dep),
        # a called function whose name is spelled like a generated fresh name
        lambda id, dep: Assignment(c, p.Call(p.Variable("b_0"), (b_, 1)), id=id, depends_on=dep),
    ]


def rename_tree(e, ren):
    """Independent renaming of the variables of e (attribute names, function names of calls included as variables, constants untouched)."""
    import dataclasses
    import pymbolic.primitives as p
    if isinstance(e, p.Variable):
        return p.Variable(ren.get(e.name, e.name))
    if isinstance(e, p.Expression) and dataclasses.is_dataclass(e):
        return type(e)(*[rename_tree(getattr(e, f.name), ren) if f.name not in ("name", "operator") else getattr(e, f.name) for f in dataclasses.fields(e)])
    if isinstance(e, tuple):
        return tuple(rename_tree(c, ren) for c in e)
    return e


def streams(max_len, ids):
    """All streams of <= max_len statements with distinct ids from ids and acyclic (backward) dependencies."""
    pool = statements_pool()
    out = [[]]
    for n in range(1, max_len + 1):
        for idsel in itertools.permutations(ids, n):
            for kinds in itertools.product(range(len(pool)), repeat=n):
                if n == 3 and (kinds[0] + kinds[1] * 2 + kinds[2]) % 5:
                    continue     # thinning of the length-3 streams
                for depmask in range(2 ** (n * (n - 1) // 2)) if n <= 2 else (0, 3, 5, 7):
                    st = []
                    k = 0
                    for j in range(n):
                        deps = set()
                        for q in range(j):
                            if depmask >> k & 1:
                                deps.add(idsel[q])
                            k += 1
                        st.append(pool[kinds[j]](idsel[j], frozenset(deps)))
                    out.append(st)
    return out


def bounded(tier, seed, procs):
    import pymbolic.primitives as p
    from pymbolic.imperative.analysis import get_all_used_identifiers, get_all_used_insn_ids
    from pymbolic.imperative.transform import disambiguate_and_fuse, disambiguate_identifiers, fuse_statement_streams_with_unique_ids
    from pymbolic.imperative.utils import get_dot_dependency_graph
    b1 = BoundedRun("reads-writes", rule="every statement form of the pool (assignment to a variable / to a subscript with variables in the index, conditional assignment, "
                    "no-op) with the expressions of the pool: get_read_variables / get_written_variables vs an independent scan of lhs index, rhs and condition; "
                    "map_expressions replaces lhs (when included), rhs and condition and nothing else; non-trivial = statement with a subscripted lhs or a condition",
                    bound="7 statement forms x include_lhs", functions=["Assignment.get_read_variables", "get_written_variables", "ConditionalStatement.get_read_variables", "map_expressions"])
    for mk in statements_pool():
        st = mk("s", frozenset())
        r = outcome.run(lambda: (st.get_read_variables(), st.get_written_variables()))
        b1.case(repr(str(st)), nontrivial=True, sample=str(st))
        want = (ref_reads(st), ref_writes(st))
        if r != ("val", want):
            import pymbolic.primitives as pp
            sub = hasattr(st, "lhs") and isinstance(st.lhs, pp.Subscript)
            b1.fail(Failure("reads-writes", f"what=reads{'-subscripted-lhs' if sub else ''} stmt={st}", dict(kind="rw", stmt=str(st)),
                            expected=repr(want), actual=outcome.describe(r), functions=["Assignment.get_read_variables"]))
        from pymbolic.mapper.substitutor import SubstitutionMapper, make_subst_func
        ren = SubstitutionMapper(make_subst_func({n: p.Variable(n + "_r") for n in "abci"}))
        for inc in (True, False):
            m = outcome.run(lambda: st.map_expressions(ren, include_lhs=inc))
            b1.case(("map", str(st), inc))
            ok = m[0] == "val" and m[1].id == st.id and m[1].depends_on == st.depends_on
            if ok and hasattr(st, "rhs"):
                ok = m[1].rhs == ren(st.rhs) and m[1].lhs == (ren(st.lhs) if inc else st.lhs)
            if ok and hasattr(st, "condition"):
                ok = m[1].condition == ren(st.condition)
            if not ok:
                b1.fail(Failure("reads-writes", f"what=map_expressions include_lhs={inc} stmt={st}", dict(kind="map", stmt=str(st), inc=inc),
                                expected="lhs/rhs/condition mapped, rest unchanged", actual=outcome.describe(m)[:200], functions=["map_expressions"]))
    b2 = BoundedRun("fuse", rule="all pairs of streams (<= 2 statements quick / 3 thorough; ids from {s, t, s_0}; all acyclic dependency sets, the second stream in every listing order): ids of the fused stream all distinct, "
                    "first stream unchanged (same objects), second stream in order with id = mapping[id] and depends_on = {mapping[d]}; fusing the result again with a stream; "
                    "non-trivial = pair with an id clash", bound="~10000 stream pairs (seeded sample of the enumeration)", functions=["fuse_statement_streams_with_unique_ids"])
    L = 3 if tier == "thorough" else 2
    sts_all = streams(L, ["s", "t", "s_0"])
    # thinning by a seeded sample (a fixed stride once aliased with the enumeration order and dropped every stream with a dependency)
    rnd = random.Random(20)
    with_deps = [s for s in sts_all if any(x.depends_on for x in s)]
    without = [s for s in sts_all if not any(x.depends_on for x in s)]
    first = rnd.sample(sts_all, min(len(sts_all), 60 if tier == "thorough" else 36)) + [[]]
    second = rnd.sample(with_deps, min(len(with_deps), 400 if tier == "thorough" else 150)) + rnd.sample(without, min(len(without), 40)) + [[]]
    pairs = []
    for A, B0 in itertools.product(first, second):
        # the second stream in every listing order: a statement may depend on one that is listed after it (the graph stays acyclic)
        orders = list(itertools.permutations(B0)) if (len(B0) > 1 and any(s.depends_on for s in B0)) else [tuple(B0)]
        for B in orders:
            pairs.append((A, list(B)))
    for A, B in pairs:
        r = outcome.run(lambda: fuse_statement_streams_with_unique_ids(A, B))
        clash = bool({s.id for s in A} & {s.id for s in B})
        b2.case((tuple((s.id, str(s)) for s in A), tuple((s.id, str(s), tuple(sorted(s.depends_on))) for s in B)), nontrivial=clash,
                sample=dict(a=[s.id for s in A], b=[s.id for s in B]))
        why = check_fused(A, B, r)
        if why is None and r[0] == "val":
            # repeated fusion: fuse the fused stream with B again
            r2 = outcome.run(lambda: fuse_statement_streams_with_unique_ids(r[1][0], B))
            why = check_fused(r[1][0], B, r2)
            if why:
                why = "repeated fusion: " + why
        if why:
            b2.fail(Failure("fuse", f"a_ids={[s.id for s in A]} b_ids={[s.id for s in B]} b_deps={[sorted(s.depends_on) for s in B]} why={why}",
                            dict(kind="fuse", a=[s.id for s in A], b=[s.id for s in B], deps=[sorted(s.depends_on) for s in B]), expected="well-formed fused stream", actual=why,
                            functions=["fuse_statement_streams_with_unique_ids"]))
    b3 = BoundedRun("disambiguate", rule="pairs of streams over identifiers {a, b, c, i, f}: renamed = (identifiers of first) & (identifiers of second) & filter, to fresh names, "
                    "consistently in lhs / rhs / condition (the renamed second stream equals an independent renaming), afterwards the streams share no renamed identifier; "
                    "filters: all, none, only 'a'; disambiguate_and_fuse = both steps; identifiers by the independent scan; non-trivial = pair with a clash",
                    bound="~900 pairs x 3 filters", functions=["disambiguate_identifiers", "disambiguate_and_fuse", "get_all_used_identifiers"])
    filters = {"all": None, "none": lambda n: False, "only-a": lambda n: n == "a"}
    small = streams(2, ["s", "t"])
    small = trees.thin(small, 60, seed=3)
    for A, B in itertools.product(small, trees.thin(small, 30, seed=4)):
        for fname, flt in filters.items():
            idsA = set().union(*[ref_reads(s) | ref_writes(s) for s in A]) if A else set()
            idsB = set().union(*[ref_reads(s) | ref_writes(s) for s in B]) if B else set()
            r = outcome.run(lambda: disambiguate_identifiers(A, B, flt))
            b3.case((tuple(str(s) for s in A), tuple(str(s) for s in B), fname), nontrivial=bool(idsA & idsB), sample=dict(a=[str(s) for s in A], b=[str(s) for s in B], filter=fname))
            why = None
            cause = "other"
            if r[0] != "val":
                why = outcome.describe(r)
            else:
                newB, subst = r[1]
                want_keys = {n for n in idsA & idsB if flt is None or flt(n)}
                if set(subst) != want_keys:
                    why = f"renamed {sorted(subst)} but the clashing identifiers are {sorted(want_keys)}"
                    lib = outcome.run(lambda: (get_all_used_identifiers(A) & get_all_used_identifiers(B)))
                    if lib[0] == "val" and {n for n in lib[1] if flt is None or flt(n)} == set(subst):
                        cause = "reads-ignore-subscripted-lhs"
                else:
                    fresh = {v.name for v in subst.values()}
                    names_all = set()
                    for s_ in list(A) + list(B):
                        every_name(s_, names_all)
                    if fresh & (idsA | idsB) or len(fresh) != len(subst):
                        why = f"replacement names {sorted(fresh)} are not fresh"
                    fn_clash = sorted(fresh & names_all) if why is None else None
                    ren = {k: v.name for k, v in subst.items()}
                    for s_old, s_new in zip(B, newB):
                        if (ref_reads(s_new) | ref_writes(s_new)) != {ren.get(n, n) for n in ref_reads(s_old) | ref_writes(s_old)}:
                            why = f"inconsistent renaming in {s_old} -> {s_new}"
                        for part in ("lhs", "rhs", "condition"):
                            if hasattr(s_old, part) and rename_tree(getattr(s_old, part), ren) != getattr(s_new, part, None):
                                why = f"{part} of {s_old} became {getattr(s_new, part, None)!r}, the independent renaming gives {rename_tree(getattr(s_old, part), ren)!r}"
                    idsNew = set().union(*[ref_reads(s) | ref_writes(s) for s in newB]) if newB else set()
                    if idsA & idsNew & want_keys:
                        why = f"streams still share {sorted(idsA & idsNew & want_keys)}"
                    if why is None and fn_clash:          # attributed to the known finding only when nothing else is wrong with the case
                        why = f"replacement names {fn_clash} are already the names of called functions"
                        cause = "fresh-name-is-a-function-symbol"
            if why:
                b3.fail(Failure("disambiguate", f"cause={cause} filter={fname} a={[str(s) for s in A]} b={[str(s) for s in B]} why={why}",
                                dict(kind="disamb", a=[str(s) for s in A], b=[str(s) for s in B], filter=fname), expected="exactly the clashing identifiers renamed consistently", actual=why,
                                functions=["disambiguate_identifiers", "get_all_used_identifiers"]))
    # disambiguate_and_fuse = disambiguation of the second stream against the first, then fusion: checked structurally
    for A, B in trees.thin(list(itertools.product(small, small)), 400 if tier == "thorough" else 150, seed=6):
        for fname, flt in filters.items():
            r = outcome.run(lambda: disambiguate_and_fuse(A, B, flt))
            b3.case(("daf", tuple(str(q) for q in A), tuple(str(q) for q in B), fname), sample=dict(a=[str(q) for q in A], b=[str(q) for q in B], filter=fname, function="disambiguate_and_fuse"))
            why = None
            if r[0] != "val" or len(r[1]) != 3:
                why = outcome.describe(r)[:150]
            else:
                fused, subst, idmap = r[1]
                refB = outcome.run(lambda: disambiguate_identifiers(A, B, flt))
                if refB[0] != "val":
                    continue
                newB, subst_ref = refB[1]
                if {k: str(v) for k, v in subst.items()} != {k: str(v) for k, v in subst_ref.items()}:
                    why = f"substitution {subst} differs from disambiguate_identifiers' {subst_ref}"
                else:
                    why = check_fused(A, newB, ("val", (fused, idmap)))
                    if why is None:
                        idsA = set().union(*[ref_reads(q) | ref_writes(q) for q in A]) if A else set()
                        idsB2 = set().union(*[ref_reads(q) | ref_writes(q) for q in fused[len(A):]]) if B else set()
                        left = {n_ for n_ in idsA & idsB2 if (flt is None or flt(n_)) and n_ in set().union(*[ref_reads(q) | ref_writes(q) for q in B])}
                        lib = outcome.run(lambda: get_all_used_identifiers(A) & get_all_used_identifiers(B))
                        if left and not (lib[0] == "val" and not (left & {n_ for n_ in lib[1]})):
                            why = f"fused stream: the second part still shares {sorted(left)} with the first"
            if why:
                b3.fail(Failure("disambiguate", f"cause=other function=disambiguate_and_fuse filter={fname} a={[str(q) for q in A]} b={[str(q) for q in B]} why={why[:150]}",
                                dict(kind="daf", a=[str(q) for q in A], b=[str(q) for q in B], filter=fname), expected="fuse(A, disambiguate(A, B))", actual=why[:200],
                                functions=["disambiguate_and_fuse"]))
    # argument forms: the streams given as tuples, iterators and generators give what the lists give
    for A, B in trees.thin(list(itertools.product(small, small)), 80, seed=5):
        for fn_name, fn in (("fuse", fuse_statement_streams_with_unique_ids), ("disambiguate", disambiguate_identifiers), ("disambiguate_and_fuse", disambiguate_and_fuse)):
            ref = outcome.run(lambda: fn(list(A), list(B)))
            for form, mk in (("tuple", tuple), ("iterator", iter), ("generator", lambda st: (q for q in st))):
                for which in ("second", "both"):
                    r = outcome.run(lambda: fn(mk(A) if which == "both" else list(A), mk(B)))
                    b3.case(("form", fn_name, form, which, tuple(str(q) for q in A), tuple(str(q) for q in B)), nontrivial=False)
                    same = r[0] == ref[0] and (r[0] != "val" or ([str(q) + q.id + repr(sorted(q.depends_on)) for q in r[1][0]] == [str(q) + q.id + repr(sorted(q.depends_on)) for q in ref[1][0]]
                                                                 and {k: str(v) for k, v in r[1][1].items()} == {k: str(v) for k, v in ref[1][1].items()}))
                    if not same:
                        b3.fail(Failure("disambiguate", f"cause=argument-form function={fn_name} form={form} streams={which} a={[str(q) for q in A]} b={[str(q) for q in B]}",
                                        dict(kind="disamb-form", function=fn_name, form=form, which=which, a=[str(q) for q in A], b=[str(q) for q in B]),
                                        expected=outcome.describe(ref)[:150], actual=outcome.describe(r)[:150], functions=[fn_name]))
    b4 = BoundedRun("dot-graph", rule="all acyclic dependency graphs on <= 4 statements (edges i -> j for j < i), in every listing order of the statements, plus chains "
                    "of length 6-8 with every single shortcut edge: the drawn edges are exactly the transitive reduction (independent DFS-based reduction); non-trivial = graph with a redundant edge",
                    bound="2^6 graphs x 24 orders + 60 long chains", functions=["get_dot_dependency_graph"])
    from pymbolic.imperative.statement import Nop

    def reduction(n, edges):
        adj = {i: {j for (a_, j) in edges if a_ == i} for i in range(n)}

        def reach(src, skip):
            seen, stack = set(), [x for x in adj[src] if (src, x) != skip]
            while stack:
                v = stack.pop()
                if v in seen:
                    continue
                seen.add(v)
                stack.extend(adj[v])
            return seen
        return {(i, j) for (i, j) in edges if j not in reach(i, (i, j))}

    def drawn(stmts):
        dot = get_dot_dependency_graph(stmts, use_stmt_ids=True)
        declared = {m.group(1) for m in re.finditer(r'^"(\w+)" \[label="(\w+)"', dot, re.M) if m.group(1) == m.group(2)}
        if declared != {s_.id for s_ in stmts}:
            raise AssertionError(f"declared nodes {sorted(declared)} are not the statement ids {sorted(s_.id for s_ in stmts)}")
        return {(m.group(1), m.group(2)) for m in re.finditer(r"^(\w+) -> (\w+)$", dot, re.M)}
    graphs = []
    for n in range(1, 5):
        pairs = [(i, j) for i in range(n) for j in range(i)]
        for mask in range(2 ** len(pairs)):
            graphs.append((n, {pr for k, pr in enumerate(pairs) if mask >> k & 1}))
    for n, edges in graphs:
        orders = list(itertools.permutations(range(n))) if tier == "thorough" or n <= 3 else list(itertools.permutations(range(n)))[::5]
        want = {(f"n{i}", f"n{j}") for (i, j) in reduction(n, edges)}
        for order in orders:
            stmts = [Nop(id=f"n{i}", depends_on=frozenset(f"n{j}" for (a_, j) in edges if a_ == i)) for i in order]
            r = outcome.run(lambda: drawn(stmts))
            b4.case((n, tuple(sorted(edges)), order), nontrivial=len(want) < len(edges), sample=dict(n=n, edges=sorted(edges), order=order))
            if r != ("val", want):
                b4.fail(Failure("dot-graph", f"n={n} edges={sorted(edges)} order={order}", dict(kind="dot", n=n, edges=sorted(edges), order=list(order)), expected=repr(sorted(want)),
                                actual=outcome.describe(r)[:200], functions=["get_dot_dependency_graph"]))
    for n in (6, 7, 8):
        chain = {(i, i - 1) for i in range(1, n)}
        for i in range(2, n):
            for j in range(0, i - 1):
                edges = chain | {(i, j)}
                for order in (tuple(range(n)), tuple(reversed(range(n)))):
                    stmts = [Nop(id=f"n{k}", depends_on=frozenset(f"n{j2}" for (a_, j2) in edges if a_ == k)) for k in order]
                    want = {(f"n{a_}", f"n{c}") for (a_, c) in reduction(n, edges)}
                    r = outcome.run(lambda: drawn(stmts))
                    b4.case((n, i, j, order), nontrivial=True)
                    if r != ("val", want):
                        b4.fail(Failure("dot-graph", f"n={n} chain+shortcut=({i},{j}) order={'forward' if order[0] == 0 else 'reverse'}", dict(kind="dot", n=n, shortcut=[i, j]),
                                        expected=repr(sorted(want)), actual=outcome.describe(r)[:200], functions=["get_dot_dependency_graph"]))
    # a long sequential program (every statement depends on the previous one, plus a few shortcuts), listed forwards and backwards
    n = 560
    edges = {(i, i - 1) for i in range(1, n)} | {(n - 1, 0), (300, 10), (n // 2, n // 2 - 2)}
    want = {(f"n{a_}", f"n{c}") for (a_, c) in edges if c == a_ - 1}
    for oname, order in (("reverse", range(n - 1, -1, -1)), ("forward", range(n))):
        stmts = [Nop(id=f"n{k}", depends_on=frozenset(f"n{j2}" for (a_, j2) in edges if a_ == k)) for k in order]
        r = outcome.with_alarm(120, lambda: outcome.run_rec(lambda: drawn(stmts)), default=("exc", outcome.DidNotTerminate, ("no result within 120 s",)))
        b4.case(("long-chain", n, oname), nontrivial=True, sample=dict(n=n, order=oname))
        if r != ("val", want):
            b4.fail(Failure("dot-graph", f"what=long-chain n={n} order={oname}", dict(kind="dot-long", n=n, order=oname), expected=f"the {n - 1} chain edges", actual=outcome.describe(r)[:200],
                            functions=["get_dot_dependency_graph"]))
    return [b1, b2, b3, b4]


def check_fused(A, B, r):
    if r[0] != "val":
        return outcome.describe(r)
    fused, mapping = r[1]
    ids = [s.id for s in fused]
    if len(set(ids)) != len(ids):
        return f"duplicate ids {ids}"
    if len(fused) != len(A) + len(B):
        return "wrong length"
    if any(x is not y for x, y in zip(fused, A)):
        return "first stream changed"
    if set(mapping) != {s.id for s in B}:
        return f"mapping keys {sorted(mapping)}"
    for s_old, s_new in zip(B, fused[len(A):]):
        if s_new.id != mapping[s_old.id]:
            return f"id of {s_old.id} is {s_new.id}, mapping says {mapping[s_old.id]}"
        if s_new.depends_on != frozenset(mapping[d] for d in s_old.depends_on):
            return f"dependencies of {s_old.id}: {sorted(s_new.depends_on)}"
        if str(s_new) != str(s_old):
            return "statement body changed"
    return None


def replay(case):
    runs = bounded("quick", 0, 1)
    return any(f.case == case for b in runs for f in b.failures)

"""C12  Common-subexpression handling keeps meaning and shares work."""
from __future__ import annotations

import itertools
from collections import Counter
from fractions import Fraction

from contracts import c02 as K2
from contracts import c04
from contracts import c12 as K
from contracts.specs import den
from harness import outcome, trees
from harness.runner import BoundedRun, Failure
from pyvc import api

LEVEL = "exploration"
SPECS = [c04.Rid, den]
EXPLANATION = (
    "Bounded: tag_common_subexpressions on all lists of <= 2 (thorough 3) expressions from a pool with repeated, commuted and nested "
    "repeated subterms and pre-existing wrappers (prefixes, scopes): values preserved on an environment box; with ONE instrumented "
    "evaluator every operation that occurs more than once in the input (sums/products compared up to operand order) is performed at "
    "most once; no wrapper directly around a wrapper; evaluator computes each distinct wrapper's child once over sequences of calls. "
    "Proved kernel (z3): wrap_in_cse and make_common_subexpression (scalar paths) for every argument kind; the CSE-cache contract of the "
    "evaluation mapper (object invariant, C02).")
ASSUMPTIONS = ["operation identity = normalised subexpression (type + operand multiset for Sum/Product, wrappers transparent)"]
TRUSTED_BASE = []


def proof_jobs(tier):
    import pymbolic.primitives as p
    jobs = [("function", fc, None, None) for fc in K.FUNCTIONS]
    jobs += [("mapper", K.TAGGER, getattr(p, k), None) for k in K.TAGGER_CLASSES]
    jobs += [("mapper", K.CSEMAPPER, getattr(p, k), None) for k in K.CSEMAPPER_CLASSES]
    for vn, v in K2.EVAL.variants:
        jobs.append(("mapperv", K2.EVAL, (p.CommonSubexpression, vn, v), None))
    return jobs


# ----------------------------------------------------------------------------- bounded
def nkey(e):
    """Independent normalised identity of an operation: wrappers transparent, sums/products up to operand order."""
    import pymbolic.primitives as p
    if isinstance(e, p.CommonSubexpression):
        return nkey(e.child)
    if isinstance(e, (p.Sum, p.Product)):
        # "two sums or two products with the same operands in another order count as the same": operands compared as they are
        return (type(e).__name__, tuple(sorted((repr(c), n) for c, n in Counter(skey(c) for c in e.children).items())))
    return skey(e)


def dkey(e):
    """Fully normalised identity (sums/products up to operand order at every level, wrappers transparent)."""
    import pymbolic.primitives as p
    if isinstance(e, p.CommonSubexpression):
        return dkey(e.child)
    if isinstance(e, (p.Sum, p.Product)):
        return (type(e).__name__, tuple(sorted((repr(c), n) for c, n in Counter(dkey(c) for c in e.children).items())))
    if isinstance(e, p.Expression):
        import dataclasses
        return (type(e).__name__,) + tuple(dkey(getattr(e, f.name)) for f in dataclasses.fields(e))
    if isinstance(e, tuple):
        return tuple(dkey(c) for c in e)
    return ("const", type(e).__name__, repr(e))


def skey(e):
    """Structural identity with wrappers transparent."""
    import pymbolic.primitives as p
    if isinstance(e, p.CommonSubexpression):
        return skey(e.child)
    if isinstance(e, p.Expression):
        import dataclasses
        return (type(e).__name__,) + tuple(skey(getattr(e, f.name)) for f in dataclasses.fields(e))
    if isinstance(e, tuple):
        return tuple(skey(c) for c in e)
    return ("const", type(e).__name__, repr(e))


def prefixed_wrapper_keys(e, acc):
    """Operations sitting directly inside a pre-existing wrapper that carries a prefix or a non-default scope, or is of a derived wrapper type (none of
    which can be replaced by the canonical prefix-free wrapper without losing what the caller attached to it)."""
    import pymbolic.primitives as p
    if isinstance(e, p.CommonSubexpression):
        if e.prefix is not None or e.scope != p.cse_scope.EVALUATION or type(e) is not p.CommonSubexpression:
            acc.add(dkey(e.child))
        prefixed_wrapper_keys(e.child, acc)
    elif isinstance(e, p.Expression):
        for c in api.children(e):
            prefixed_wrapper_keys(c, acc)
    return acc


OPS = None


def op_classes():
    import pymbolic.primitives as p
    return (p.Sum, p.Product, p.Quotient, p.FloorDiv, p.Remainder, p.Power, p.Call)


def occurrences(e, acc, seen_wrappers=None, shallow=None):
    """Tree occurrences of every operation in the input (a wrapper's child counted once per distinct wrapper, as
    an evaluator computes it once)."""
    import pymbolic.primitives as p
    if isinstance(e, p.CommonSubexpression):
        occurrences(e.child, acc, shallow=shallow)
        return
    if isinstance(e, op_classes()):
        acc[nkey(e)] += 1
        if shallow is not None:
            shallow.setdefault(dkey(e), set()).add(repr(nkey(e)))
    if isinstance(e, p.Expression):
        for c in api.children(e):
            occurrences(c, acc, shallow=shallow)
    elif isinstance(e, tuple):
        for c in e:
            occurrences(c, acc, shallow=shallow)


def counting_evaluator(env):
    from pymbolic.mapper.evaluator import EvaluationMapper
    counts = Counter()

    class CM(EvaluationMapper):
        pass
    for name in ("map_sum", "map_product", "map_quotient", "map_floor_div", "map_remainder", "map_power", "map_call"):
        def mk(name):
            base = getattr(EvaluationMapper, name)

            def h(self, expr):
                counts[dkey(expr)] += 1
                return base(self, expr)
            return h
        setattr(CM, name, mk(name))
    return CM(env), counts


def pool():
    import pymbolic.primitives as p
    x, y, z, f = trees.X, trees.Y, trees.Z, trees.F
    s = p.Sum((x, y))
    s_c = p.Sum((y, x))
    pr = p.Product((x, y, 2))
    pr_c = p.Product((2, y, x))
    nested = p.Product((p.Sum((x, y)), p.Sum((x, y)), z))
    return [
        s, p.Product((s, s_c)), p.Sum((pr, p.Power(pr_c, 2))), p.Quotient(s, p.Sum((s_c, 1))), p.Call(f, (s, pr)), p.Call(f, (s_c, pr_c)),
        nested, p.Sum((nested, p.Product((p.Sum((y, x)), z)))), p.Power(p.Sum((x, 1)), 3), p.Sum((p.Power(p.Sum((x, 1)), 3), p.Power(p.Sum((1, x)), 3))),
        p.CommonSubexpression(s, "pre"), p.Sum((p.CommonSubexpression(s), s_c)), p.Product((p.CommonSubexpression(pr, "q", p.cse_scope.GLOBAL), pr_c)),
        p.Sum((x, x)), p.Product((p.Sum((x, x, y)), p.Sum((x, y)))), p.FloorDiv(p.Sum((x, 7)), p.Sum((7, x))), p.Remainder(pr, p.Sum((pr_c, 5))),
        x, 3, p.Sum((x, 3)),
    ]


_DERIVED = []


def derived_wrapper_lists():
    """Inputs with a wrapper of a derived type (extra constructor argument handed over by get_extra_properties) around something that repeats, around something
    that does not, and around a plain wrapper's child: CSEMapper.map_common_subexpression's derived-type branch."""
    import pymbolic.primitives as p
    if not _DERIVED:
        @p.expr_dataclass()
        class TaggedCSE(p.CommonSubexpression):
            tag: str = "t"

            def get_extra_properties(self):
                return {"tag": self.tag}
        _DERIVED.append(TaggedCSE)
    T = _DERIVED[0]
    x, y, z = trees.X, trees.Y, trees.Z
    s, s_c = p.Sum((x, y)), p.Sum((y, x))
    pr = p.Product((s, z))
    return [[T(s, "d", tag="u"), s_c], [T(s, None, tag="u"), p.Product((s, 2))], [T(pr, "d"), p.Sum((pr, 1)), s], [T(p.Sum((x, 1)), "d")], [T(pr, "d", tag="k")],
            [p.Sum((T(s, "d"), T(s, "d"))), s], [T(p.Power(s, 2), "d"), p.Power(s_c, 2)], [p.Product((T(s, "e"), p.CommonSubexpression(s_c, "e"))), s]]


def has_double(e):
    import pymbolic.primitives as p
    if isinstance(e, p.CommonSubexpression) and isinstance(e.child, p.CommonSubexpression):
        return True
    if isinstance(e, p.Expression):
        return any(has_double(c) for c in api.children(e))
    if isinstance(e, tuple):
        return any(has_double(c) for c in e)
    return False


def bounded(tier, seed, procs):
    import numpy as np
    import pymbolic.primitives as p
    from pymbolic.cse import tag_common_subexpressions
    from pymbolic.mapper.evaluator import EvaluationMapper
    b = BoundedRun("tag-cse", rule="tag_common_subexpressions on all lists of 1..2 (thorough ..3) expressions from a pool of 20 (repeated, commuted, nested repeated "
                   "subterms; pre-existing wrappers with prefixes/scopes): (i) each output evaluates to the input's value on every environment of the box; (ii) with ONE "
                   "evaluator over all outputs, every operation (sum/product up to operand order, division, power, call) that occurred more than once in the input is "
                   "performed at most once; (iii) no wrapper directly around a wrapper; (iv) a sample of the lists given as tuple, iterator and generator: same result as for the list; non-trivial = list with a repeated operation",
                   bound="20 expressions, lists <= 2 (3), 6 environments", functions=["tag_common_subexpressions", "CSEMapper.*", "UseCountMapper.*", "NormalizedKeyGetter", "wrap_in_cse"])
    pl = pool()
    envs = [{"x": vx, "y": vy, "z": 3, "f": lambda a, c: a * 7 + c} for vx, vy in [(2, 5), (-1, 4), (Fraction(1, 2), 3), (0, 1), (3, -2), (7, 7)]]
    lists = [[e] for e in pl] + [list(t) for t in itertools.product(pl, repeat=2)]
    if tier == "thorough":
        lists += [list(t) for t in itertools.islice(itertools.product(pl[:12], repeat=3), 0, 1500)]
    lists += derived_wrapper_lists()
    for lst in lists:
        r = outcome.run(lambda: tag_common_subexpressions(lst))
        occ = Counter()
        shallow = {}
        for e in lst:
            occurrences(e, occ, shallow=shallow)
        repeated = {k for k, n in occ.items() if n > 1}
        # operations equal up to commutation below them may legitimately stay distinct: allowance per fully-normalised class
        allow = {dk: len(v) for dk, v in shallow.items()}
        b.case(tuple(repr(e) for e in lst), nontrivial=bool(repeated), sample=[repr(e)[:80] for e in lst])
        why = None
        if r[0] != "val":
            why = outcome.describe(r)
        else:
            out = r[1]
            if len(out) != len(lst):
                why = "length changed"
            elif any(has_double(e) for e in out):
                why = "a wrapper directly around a wrapper"
            else:
                for env in envs[:3] if tier == "quick" else envs:
                    ev, counts = counting_evaluator(env)
                    for o, i in zip(out, lst):
                        got = outcome.run(lambda: ev(o))
                        want = outcome.run(lambda: EvaluationMapper(env)(i))
                        if not outcome.equivalent(got, want, None, typed=False):
                            why = f"value changed for {i!r}: {outcome.describe(got)} vs {outcome.describe(want)}"
                            break
                    if why:
                        break
                    over = [dk for dk, n in counts.items() if n > allow.get(dk, 1)]
                    if over:
                        pk = set()
                        for e in lst:
                            prefixed_wrapper_keys(e, pk)
                        cause = "prefixed-wrapper" if all(k in pk for k in over) else "other"
                        why = f"cause={cause} operation performed {counts[over[0]]} times: {over[0]}"
                        break
        if why:
            b.fail(Failure("tag-cse", f"{'cause=prefixed-wrapper ' if 'cause=prefixed-wrapper' in why else ''}exprs={[repr(e) for e in lst]} why={why}", dict(kind="tag", exprs=[trees.src(e) for e in lst]),
                           expected="same values, each repeated operation once, no double wrapper", actual=why,
                           functions=["tag_common_subexpressions", "CSEMapper", "UseCountMapper", "NormalizedKeyGetter"]))
    # the argument forms: the same expressions given as a list, a tuple, an iterator, a generator give the same result
    for lst in trees.thin(lists, 60, seed=1):
        ref = outcome.run(lambda: tag_common_subexpressions(list(lst)))
        for form, mkarg in (("tuple", lambda: tuple(lst)), ("iterator", lambda: iter(lst)), ("generator", lambda: (e for e in lst))):
            r = outcome.run(lambda: tag_common_subexpressions(mkarg()))
            b.case(("form", form, tuple(repr(e) for e in lst)), nontrivial=False)
            if not (r[0] == ref[0] and (r[0] != "val" or (isinstance(r[1], list) and len(r[1]) == len(ref[1]) and all(u == v for u, v in zip(r[1], ref[1]))))):
                b.fail(Failure("tag-cse", f"what=argument-form form={form} exprs={[repr(e) for e in lst]}", dict(kind="tag-form", form=form, exprs=[trees.src(e) for e in lst]),
                               expected=outcome.describe(ref)[:200], actual=outcome.describe(r)[:200], functions=["tag_common_subexpressions"]))
    b2 = BoundedRun("wrap-helpers", rule="wrap_in_cse / make_common_subexpression on constants, variables, subscripts, wrappers (with/without prefix, three scopes), sums; "
                    "object arrays and multivectors componentwise", bound="fixed list x prefixes x scopes", functions=["wrap_in_cse", "make_common_subexpression"])
    from pymbolic.geometric_algebra import MultiVector
    x, y = trees.X, trees.Y
    items = [3, 2.5, x, p.Subscript(trees.A, x), p.Sum((x, y)), p.CommonSubexpression(x), p.CommonSubexpression(p.Sum((x, 1)), "old"),
             p.CommonSubexpression(x, None, p.cse_scope.GLOBAL)]
    for it in items:
        for prefix in (None, "pf"):
            for scope in (None, p.cse_scope.EVALUATION, p.cse_scope.EXPRESSION, p.cse_scope.GLOBAL):
                r = outcome.run(lambda: p.make_common_subexpression(it, prefix, scope))
                b2.case(("mcs", repr(it), prefix, scope), sample=dict(item=repr(it), prefix=prefix, scope=scope))
                ok = r[0] == "val"
                if ok:
                    if isinstance(it, p.CommonSubexpression):
                        ok = r[1] is it         # an already wrapped node is left as it is (the statement makes no exception for a requested scope)
                    elif not isinstance(it, p.Expression):
                        ok = r[1] is it or r[1] == it
                    else:
                        ok = isinstance(r[1], p.CommonSubexpression) and r[1].child is it and r[1].prefix == prefix
                if not ok:
                    rw = "cause=rewrapped-for-another-scope " if (isinstance(it, p.CommonSubexpression) and r[0] == "val" and isinstance(r[1], p.CommonSubexpression) and r[1].child is it and r[1].scope == scope) else ""
                    b2.fail(Failure("wrap-helpers", f"{rw}what=make_cse item={it!r} prefix={prefix} scope={scope}", dict(kind="mcs", item=repr(it), prefix=prefix, scope=scope),
                                    expected="scalar rule", actual=outcome.describe(r), functions=["make_common_subexpression"]))
            if isinstance(it, p.Expression):
                r = outcome.run(lambda: p.wrap_in_cse(it, prefix))
                b2.case(("wrap", repr(it), prefix))
                if isinstance(it, (p.Variable, p.Subscript)):
                    ok = r == ("val", it) and r[1] is it
                elif isinstance(it, p.CommonSubexpression):
                    ok = r[0] == "val" and isinstance(r[1], p.CommonSubexpression) and not isinstance(r[1].child, p.CommonSubexpression) and r[1].child is it.child
                else:
                    ok = r[0] == "val" and isinstance(r[1], p.CommonSubexpression) and r[1].child is it and r[1].prefix == prefix
                if not ok:
                    b2.fail(Failure("wrap-helpers", f"what=wrap_in_cse item={it!r} prefix={prefix}", dict(kind="wrap", item=repr(it), prefix=prefix), expected="wrap rule",
                                    actual=outcome.describe(r), functions=["wrap_in_cse"]))
    arr = np.array([x, 3, p.Sum((x, y)), p.CommonSubexpression(y)], dtype=object)
    r = outcome.run(lambda: p.make_common_subexpression(arr, "v"))
    b2.case("array")
    ok = r[0] == "val" and isinstance(r[1], np.ndarray) and r[1].shape == (4,) and r[1][1] == 3 and all(
        isinstance(r[1][i], p.CommonSubexpression) for i in (0, 2, 3)) and r[1][2].child is arr[2] and r[1][3] is arr[3]
    if not ok:
        b2.fail(Failure("wrap-helpers", "what=object-array", dict(kind="arr"), expected="componentwise", actual=outcome.describe(r)[:200], functions=["make_common_subexpression"]))
    from pymbolic.geometric_algebra import get_euclidean_space
    mv = MultiVector({1: x, 2: p.Sum((x, y)), 0: 5}, get_euclidean_space(2))
    r = outcome.run(lambda: p.make_common_subexpression(mv, "m"))
    b2.case("multivector")
    ok = r[0] == "val" and isinstance(r[1], MultiVector) and set(r[1].data) == {0, 1, 2} and r[1].data[0] == 5 and isinstance(r[1].data[2], p.CommonSubexpression) \
        and r[1].data[2].child is mv.data[2]
    if not ok:
        b2.fail(Failure("wrap-helpers", "what=multivector", dict(kind="mv"), expected="componentwise", actual=outcome.describe(r)[:200], functions=["make_common_subexpression"]))
    from props import c02 as P2
    return [b, b2, P2.cse_once(tier), b_histogram_tagger(tier), P2.evaluator_hooks(tier)]


def b_histogram_tagger(tier):
    """The histogram-based tagger (cse_tagger): CSEWalkMapper counts structurally equal subexpressions, CSETagMapper wraps the repeated ones."""
    import pymbolic.primitives as p
    from pymbolic.mapper.cse_tagger import CSETagMapper, CSEWalkMapper
    from pymbolic.mapper.evaluator import EvaluationMapper
    b = BoundedRun("histogram-tagger", rule="CSEWalkMapper + CSETagMapper on every expression of the pool and on sums / products of two pool expressions: the histogram equals an "
                   "independent count of structurally equal subexpression occurrences; the tagged expression has the input's value in every environment of the box; with one "
                   "evaluator every operation (exactly equal subexpression) that occurred more than once in the input is performed once; no wrapper directly around a wrapper (inputs with existing wrappers included)",
                   bound="20 pool expressions + 190 pairs x 3 environments", functions=["CSEWalkMapper.visit", "CSETagMapper.map_*"])
    pl = [e for e in pool() if not any(isinstance(n, p.CommonSubexpression) and n.prefix for n in _nodes(e))]
    exprs = list(pl) + [p.Sum((u, v)) for u, v in itertools.combinations(pl, 2)][: (190 if tier == "thorough" else 60)]
    # repeated subexpressions that contain repeated subexpressions
    x_, y_, z_ = p.Variable("x"), p.Variable("y"), p.Variable("z")
    s_ = p.Sum((x_, y_))
    a_, b_ = p.Product((s_, s_, z_)), p.Product((s_, z_))
    # inputs that already contain (prefix-free) wrappers around something that repeats
    c_ = p.CommonSubexpression(p.Sum((p.Call(p.Variable("f"), (x_, y_)), 1)))
    exprs += [p.Sum((c_, p.Product((c_, 2)))), p.Product((c_, c_)), p.Sum((p.CommonSubexpression(s_), s_)), p.Sum((p.CommonSubexpression(a_), a_, b_))]
    exprs += [p.Sum((a_, p.Sum((a_, b_)))), p.Sum((a_, a_)), p.Product((p.Power(a_, 2), a_, s_)), p.Sum((p.Quotient(a_, b_), p.Quotient(a_, b_), b_)),
              p.Sum((p.Call(p.Variable("f"), (s_, b_)), p.Call(p.Variable("f"), (s_, b_)), s_))]
    envs = [{"x": vx, "y": vy, "z": 3, "f": lambda a, c: a * 7 + c} for vx, vy in [(2, 5), (-1, 4), (Fraction(1, 2), 3)]]
    for e in exprs:
        w = CSEWalkMapper()
        r0 = outcome.run(lambda: w(e))
        ref = Counter()
        for n in _nodes(e):
            ref[n] += 1
        b.case(("hist", repr(e)), sample=dict(expr=repr(e)[:100]))
        if r0[0] != "val" or {k: v for k, v in w.subexpr_histogram.items() if isinstance(k, p.Expression)} != dict(ref):
            b.fail(Failure("histogram-tagger", f"what=histogram expr={e!r}", dict(kind="hist", expr=repr(e)), expected="occurrence counts", actual=outcome.describe(r0)[:100],
                           functions=["CSEWalkMapper.visit"]))
            continue
        r = outcome.run(lambda: CSETagMapper(w)(e))
        if r[0] != "val":
            b.fail(Failure("histogram-tagger", f"what=tag-raised expr={e!r}", dict(kind="hist", expr=repr(e)), expected="a tagged expression", actual=outcome.describe(r)[:150],
                           functions=["CSETagMapper"]))
            continue
        why = "a wrapper directly around a wrapper" if (has_double(r[1]) and not has_double(e)) else None
        for env in (envs if why is None else ()):
            ev, counts = counting_evaluator(env)
            got = outcome.run(lambda: ev(r[1]))
            want = outcome.run(lambda: EvaluationMapper(env)(e))
            if not outcome.equivalent(got, want, None, typed=False):
                why = f"value changed: {outcome.describe(got)} vs {outcome.describe(want)}"
                break
            over = [k for k, n in counts.items() if n > 1]
            exact_counts = Counter()
            ev2, _ = counting_evaluator(env)
            if over:
                # 'counts' is keyed up to commutation; decide on exact structural equality with a second instrumented run
                hits = Counter()

                class Exact(EvaluationMapper):
                    pass
                for nm in ("map_sum", "map_product", "map_quotient", "map_floor_div", "map_remainder", "map_power", "map_call"):
                    def mk(nm):
                        base = getattr(EvaluationMapper, nm)

                        def h(self, ex):
                            hits[ex] += 1
                            return base(self, ex)
                        return h
                    setattr(Exact, nm, mk(nm))
                Exact(env)(r[1])
                rep = [k for k, n in hits.items() if n > 1]
                if rep:
                    why = f"operation performed {hits[rep[0]]} times: {rep[0]!r}"
                    break
        if why:
            b.fail(Failure("histogram-tagger", f"what=tagged expr={e!r} why={why[:80]}", dict(kind="hist", expr=repr(e)), expected="same value, repeated operations once", actual=why[:200],
                           functions=["CSETagMapper.map_*"]))
    return b


def _nodes(e):
    import pymbolic.primitives as p
    if isinstance(e, p.Expression):
        yield e
        for c in api_children(e):
            yield from _nodes(c)
    elif isinstance(e, (tuple, list)):
        for c in e:
            yield from _nodes(c)


def api_children(e):
    from pyvc import api
    return [c for c in api.children(e) if c is not None]


def replay(case):
    runs = bounded("quick", 0, 1)
    return any(f.case == case for b in runs for f in b.failures)

"""C18  Multivectors obey the axioms of geometric (Clifford) algebra."""
from __future__ import annotations

import itertools
import os
import random
from fractions import Fraction

from harness import outcome
from harness.runner import BoundedRun, Failure

LEVEL = "proof"
SPECS = []
EXPLANATION = (
    "At bitmap width W = 8 (every space of dimension <= 8) the bit kernels are proved by complete "
    "unrolling with unwinding assertions: bit_count = popcount, canonical_reordering_sign = parity of the transposition "
    "count, _shared_metric_coeff = product of the metric entries (symbolic integer metric); each derived blade product "
    "weight is proved to equal the geometric weight exactly when the grade of A xor B is the grade that product selects; "
    "blade-level algebra is proved as lemmas over those contracts (sign cocycle + equal metric multisets = associativity, "
    "e_i e_i = g_ii, e_i e_j = -e_j e_i, reverse sign = k(k-1)/2, blade inverse). The multivector-level loops "
    "(_generic_product, __add__, __init__, rev/inv/dual, __eq__/__hash__) are checked exhaustively on basis blades of "
    "dimensions 0-4 over all diagonal metrics with entries in {1,-1,0,2} against an independent list-based Clifford product.")
ASSUMPTIONS = ["bitmaps are modelled as W-bit vectors (a stated bound that exceeds the property's dimension range 0-5)",
               "bilinearity of _generic_product is by construction of its double loop (bounded-validated, not proved)"]
TRUSTED_BASE = ["z3 bit-vector theory"]


def proof_jobs(tier):
    os.environ["VERIF_GA_WIDTH"] = "8"       # W >= 9 exceeds the path budget of _shared_metric_coeff (2**W paths); stated bound
    import importlib
    from contracts import c18 as K
    importlib.reload(K)
    for fc in K.FUNCTIONS + K.BLADE_LEMMAS:
        fc.rlimit = 200_000_000
    jobs = [("function", fc, None, None) for fc in K.FUNCTIONS + K.BLADE_LEMMAS]
    return jobs


# ----------------------------------------------------------------------------- independent Clifford arithmetic on index lists
def ref_blade_product(A, B, metric):
    """(coefficient, sorted index tuple) of e_A e_B for index tuples A, B; bubble sort counting transpositions,
    contracting equal neighbours with the metric."""
    idx = list(A) + list(B)
    coeff = 1
    changed = True
    while changed:
        changed = False
        for i in range(len(idx) - 1):
            if idx[i] > idx[i + 1]:
                idx[i], idx[i + 1] = idx[i + 1], idx[i]
                coeff = -coeff
                changed = True
                break
            if idx[i] == idx[i + 1]:
                coeff = coeff * metric[idx[i]]
                del idx[i:i + 2]
                changed = True
                break
    return coeff, tuple(idx)


def ref_mul(x, y, metric, select=None):
    out = {}
    for A, ca in x.items():
        for B, cb in y.items():
            c, C = ref_blade_product(A, B, metric)
            if select is not None and not select(len(A), len(B), len(C)):
                continue
            v = out.get(C, 0) + c * ca * cb
            out[C] = v
    return {k: v for k, v in out.items() if v != 0}


def to_ref(mv):
    out = {}
    for bits, c in mv.data.items():
        out[tuple(i for i in range(max(32, bits.bit_length())) if bits >> i & 1)] = c
    return out


def bounded(tier, seed, procs):
    import numpy as np
    from pymbolic.geometric_algebra import MultiVector, Space
    b = BoundedRun("blades", rule="all pairs (and triples, for associativity) of basis blades in dimensions 0..4 (5 in the thorough tier) x all diagonal "
                   "metrics with entries in {1,-1,0,2}: geometric/outer/inner/scalar/left/right products vs an independent list-based Clifford product with "
                   "grade selection; associativity; e_i^2 = g_ii; anticommutation; rev, invol, dual, norm_squared, inverse of non-null blades (blade*inv = 1); "
                   "==/hash/bool vs coefficient-wise comparison; non-trivial = pair of non-scalar blades",
                   bound="dim <= 4 (5 thorough), 4^dim metrics (sampled to <= 40 per dimension in quick)", functions=["MultiVector._generic_product", "__init__", "rev", "invol", "inv", "dual", "__eq__", "__hash__"])
    rnd = random.Random(seed)
    maxdim = 5 if tier == "thorough" else 4
    sel = {
        "mul": None, "xor": lambda a, c, r: r == a + c, "or": lambda a, c, r: r == abs(a - c),
        "lshift": lambda a, c, r: r == c - a, "rshift": lambda a, c, r: r == a - c, "scalar": lambda a, c, r: r == 0,
    }
    for dim in range(0, maxdim + 1):
        metrics = list(itertools.product((1, -1, 0, 2), repeat=dim))
        if tier == "quick" and len(metrics) > 40:
            metrics = rnd.sample(metrics, 40) + [tuple([1] * dim), tuple([-1] * dim)]
        for g in metrics:
            sp = Space([f"e{i}" for i in range(dim)], np.diag(np.array(g, dtype=object)) if dim else np.zeros((0, 0), dtype=object))
            blades = [MultiVector({bits: 1}, sp) for bits in range(2 ** dim)]
            for x, y in itertools.product(blades, repeat=2):
                (xb,), (yb,) = x.data.keys(), y.data.keys()
                for name, s in sel.items():
                    real = outcome.run(lambda: {"mul": lambda: x * y, "xor": lambda: x ^ y, "or": lambda: x | y, "lshift": lambda: x << y,
                                                "rshift": lambda: x >> y, "scalar": lambda: x.scalar_product(y)}[name]())
                    ref = ref_mul(to_ref(x), to_ref(y), g, s)
                    b.case((dim, g, xb, yb, name), nontrivial=bool(xb and yb), sample=dict(dim=dim, metric=g, a=xb, b=yb, product=name))
                    if name == "scalar":
                        ok = real[0] == "val" and (real[1] == ref.get((), 0))
                    else:
                        ok = real[0] == "val" and to_ref(real[1]) == ref
                    if not ok:
                        b.fail(Failure("blades", f"what={name} dim={dim} metric={g} a={xb} b={yb}", dict(kind="ga", what=name, dim=dim, metric=list(g), a=xb, b=yb),
                                       expected=repr(ref), actual=(outcome.describe(real) if real[0] == "exc" or name == "scalar" else repr(to_ref(real[1])))[:200],
                                       functions=["MultiVector._generic_product", "canonical_reordering_sign", "_shared_metric_coeff"]))
            # associativity on triples
            trip = list(itertools.product(blades, repeat=3))
            if len(trip) > 600:
                trip = rnd.sample(trip, 600)
            for x, y, z in trip:
                r = outcome.run(lambda: ((x * y) * z, x * (y * z)))
                b.case(("assoc", dim, g, tuple(x.data), tuple(y.data), tuple(z.data)), nontrivial=True)
                if r[0] != "val" or not (r[1][0] == r[1][1]):
                    b.fail(Failure("blades", f"what=assoc dim={dim} metric={g} a={list(x.data)} b={list(y.data)} c={list(z.data)}",
                                   dict(kind="ga", what="assoc", dim=dim, metric=list(g)), expected="(ab)c == a(bc)", actual=outcome.describe(r)[:200],
                                   functions=["MultiVector._generic_product"]))
            # unary operations
            for x in blades:
                (xb,) = x.data.keys()
                k = bin(xb).count("1")
                chk = outcome.run(lambda: (to_ref(x.rev()), to_ref(x.invol()), x.norm_squared(), to_ref(x.rev().rev()), bool(x), x == MultiVector({xb: 1}, sp),
                                            hash(x) == hash(MultiVector({xb: 1}, sp)), x != MultiVector({xb: 2}, sp)))
                idx = tuple(i for i in range(dim) if xb >> i & 1)
                nsq = 1
                for i in idx:
                    nsq *= g[i]
                want = ({idx: (-1) ** (k * (k - 1) // 2)}, {idx: (-1) ** k}, nsq, {idx: 1}, True, True, True, True)
                b.case(("unary", dim, g, xb), nontrivial=xb > 0)
                if chk != ("val", want):
                    b.fail(Failure("blades", f"what=unary dim={dim} metric={g} a={xb}", dict(kind="ga", what="unary", dim=dim, metric=list(g), a=xb),
                                   expected=repr(want), actual=outcome.describe(chk)[:300], functions=["rev", "invol", "norm_squared", "__eq__", "__hash__"]))
                if nsq != 0:
                    xf = MultiVector({xb: Fraction(3)}, sp)
                    r = outcome.run(lambda: to_ref(xf.inv() * xf))
                    b.case(("inv", dim, g, xb), nontrivial=True)
                    if r != ("val", {(): 1}):
                        b.fail(Failure("blades", f"what=inverse dim={dim} metric={g} a={xb}", dict(kind="ga", what="inv", dim=dim, metric=list(g), a=xb),
                                       expected="{(): 1}", actual=outcome.describe(r)[:200], functions=["inv"]))
                    # the same with an integer coefficient (the statement says "every non-null blade"): exact 1 expected
                    for coeff in (3, 7, 49):
                        xi = MultiVector({xb: coeff}, sp)
                        r = outcome.run(lambda: to_ref(xi.inv() * xi))
                        b.case(("inv-int", dim, g, xb, coeff), nontrivial=True)
                        if r != ("val", {(): 1}) or type(r[1][()]) is float and r[1][()] != 1:
                            near = r[0] == "val" and list(r[1]) == [()] and abs(r[1][()] - 1) < 1e-12
                            b.fail(Failure("blades", f"what=inverse-integer-coefficient{' cause=integer-true-division' if near else ''} dim={dim} metric={g} a={xb} coeff={coeff}",
                                           dict(kind="ga", what="inv-int", dim=dim, metric=list(g), a=xb, coeff=coeff), expected="{(): 1}", actual=outcome.describe(r)[:200], functions=["inv"]))
                # dual: A | I.rev()
                r = outcome.run(lambda: to_ref(x.dual()))
                I_ref = {tuple(range(dim)): (-1) ** (dim * (dim - 1) // 2)}
                wantd = ref_mul(to_ref(x), I_ref, g, lambda a, c, rr: rr == abs(a - c))
                b.case(("dual", dim, g, xb))
                if r != ("val", wantd):
                    b.fail(Failure("blades", f"what=dual dim={dim} metric={g} a={xb}", dict(kind="ga", what="dual", dim=dim, metric=list(g), a=xb),
                                   expected=repr(wantd), actual=outcome.describe(r)[:200], functions=["dual", "I", "rev"]))
    # bilinearity / general multivectors, equality-hash consistency across construction histories
    b2 = BoundedRun("multivectors", rule="seeded random multivectors with integer/Fraction coefficients in 3-4 dimensional spaces: (a+b)*c = a*c+b*c, "
                    "a*(b+c) = a*b+a*c, (s a)*b = s (a*b), associativity; products vs the reference; equal multivectors built through different operation "
                    "orders are ==, hash equal and find each other in sets; symbolic coefficients", bound="200 (quick) / 1000 random triples",
                    functions=["MultiVector._generic_product", "__add__", "__eq__", "__hash__", "__init__"])
    import pymbolic.primitives as p
    for t in range(1000 if tier == "thorough" else 200):
        dim = rnd.choice([2, 3, 3, 4])
        g = tuple(rnd.choice([1, -1, 0, 2]) for _ in range(dim))
        sp = Space([f"e{i}" for i in range(dim)], np.diag(np.array(g, dtype=object)))

        def rmv():
            return MultiVector({rnd.randrange(2 ** dim): rnd.choice([1, -2, 3, Fraction(1, 2), -1]) for _ in range(rnd.randint(1, 4))}, sp)
        x, y, z = rmv(), rmv(), rmv()
        s = rnd.choice([2, -3, Fraction(1, 3)])
        r = outcome.run(lambda: ((x + y) * z == x * z + y * z, x * (y + z) == x * y + x * z, (s * x) * y == s * (x * y), (x * y) * z == x * (y * z),
                                 to_ref(x * y) == ref_mul(to_ref(x), to_ref(y), g), to_ref(x + y) == {k: v for k, v in _addref(to_ref(x), to_ref(y)).items() if v != 0}))
        b2.case((t, dim, g, repr(x.data), repr(y.data), repr(z.data)), nontrivial=True, sample=dict(metric=g, a=repr(x.data), b=repr(y.data)))
        if r != ("val", (True,) * 6):
            b2.fail(Failure("multivectors", f"what=bilinear/assoc metric={g} a={x.data} b={y.data} c={z.data} s={s}", dict(kind="ga2", metric=list(g), a=repr(x.data), b=repr(y.data), c=repr(z.data)),
                            expected="all identities", actual=outcome.describe(r)[:200], functions=["MultiVector._generic_product", "__add__"]))
        # same value through different histories
        u = outcome.run(lambda: (x * (y + z), x * y + x * z))
        if u[0] == "val":
            a1, a2 = u[1]
            h = outcome.run(lambda: (a1 == a2, hash(a1) == hash(a2), a1 in {a2}, bool(a1) == bool(a1.data)))
            b2.case(("hist", t))
            if h != ("val", (True, True, True, True)):
                b2.fail(Failure("multivectors", f"what=eq-hash-history metric={g} a={x.data} b={y.data} c={z.data}", dict(kind="ga2h", metric=list(g), a=repr(x.data), b=repr(y.data), c=repr(z.data)),
                                expected="equal, same hash, set member", actual=outcome.describe(h)[:200], functions=["__eq__", "__hash__"]))
    # symbolic coefficients
    sp = Space(["e0", "e1", "e2"], np.diag(np.array([1, -1, 2], dtype=object)))
    from pymbolic import evaluate
    a_, b_, c_ = p.Variable("a"), p.Variable("b"), p.Variable("c")
    xs = MultiVector({1: a_, 6: b_}, sp)
    ys = MultiVector({3: c_, 4: a_}, sp)
    prod = outcome.run(lambda: xs * ys)
    for env in ({"a": 2, "b": -3, "c": 5}, {"a": Fraction(1, 2), "b": 1, "c": 0}):
        b2.case(("symbolic", repr(env)))
        if prod[0] == "val":
            got = {k: evaluate(v, env) for k, v in to_ref(prod[1]).items()}
            got = {k: v for k, v in got.items() if v != 0}
            ref = ref_mul({(0,): env["a"], (1, 2): env["b"]}, {(0, 1): env["c"], (2,): env["a"]}, (1, -1, 2))
        if prod[0] != "val" or got != ref:
            b2.fail(Failure("multivectors", f"what=symbolic env={env}", dict(kind="ga2s", env=repr(env)), expected="reference product", actual=outcome.describe(prod)[:200],
                            functions=["MultiVector._generic_product"]))
    return [b, b2, b_index_tuples(tier), b_same_coefficients(tier), b_scalar_operands(tier), b_default_spaces(tier), b_composite_blades(tier), b_wide(tier, seed), b_hashed_operands(tier)]


def b_hashed_operands(tier):
    """Results of operations on a multivector that was hashed before (its hash is memoized on the object): equal to, and hashing like, the same multivector built from its data."""
    import operator
    import numpy as np
    from pymbolic.geometric_algebra import MultiVector, Space
    b = BoundedRun("hashed-operands", rule="for multivectors A (1..3 components, Fraction / int coefficients, dimensions 2..3, two metrics) hashed and put into a set first: -A, A.rev(), "
                   "A.invol(), A.dual(), A.inv() where defined, A + A, A * 2, 2 * A, A - A, A.project(1), A ^ A, a pickled copy and a copy.copy each equal MultiVector(dict(result.data), space), hash like "
                   "it and are found in a set holding it; A itself keeps its hash", bound="~60 multivectors x 13 operations", functions=["MultiVector.__neg__", "rev", "invol", "dual", "__hash__"])
    import copy as _copy
    import pickle as _pickle
    ops = [("neg", operator.neg), ("rev", lambda a: a.rev()), ("invol", lambda a: a.invol()), ("dual", lambda a: a.dual()), ("inv", lambda a: a.inv()), ("add-self", lambda a: a + a),
           ("times-2", lambda a: a * 2), ("2-times", lambda a: 2 * a), ("minus-self", lambda a: a - a), ("project-1", lambda a: a.project(1)), ("wedge-self", lambda a: a ^ a),
           ("pickle", lambda a: _pickle.loads(_pickle.dumps(a))), ("copy", _copy.copy)]
    for dim in (2, 3):
        for g in ((1,) * dim, (1, -1, 2)[:dim]):
            sp = Space(dim, np.diag(np.array(g, dtype=object)))
            datas = [{1: Fraction(2, 3)}, {3: 5}, {1: 1, 2: Fraction(-1, 2)}, {0: 2, 3: Fraction(1, 3)}, {1: 2, 2: 3, (1 << dim) - 1: Fraction(7, 2)}, {0: 1}, {2: -4, 3: 1}]
            for d in datas:
                A = MultiVector(dict(d), sp)
                hA = hash(A)
                pool = {A}
                for oname, op in ops:
                    r = outcome.run(lambda: op(A))
                    b.case((dim, g, repr(sorted(d.items())), oname), nontrivial=True, sample=dict(dim=dim, op=oname))
                    if r[0] != "val":
                        continue        # an operation that refuses this operand (inverse of a non-blade / null blade) is not judged here
                    R = r[1]
                    twin = MultiVector(dict(R.data), sp)
                    ok = (R == twin) and hash(R) == hash(twin) and (R in {twin}) and (twin in {R}) and hash(A) == hA and (A in pool)
                    if not ok:
                        b.fail(Failure("hashed-operands", f"what={oname}-of-hashed-operand dim={dim} metric={g} a={sorted(d.items())}", dict(kind="ga-hashed", dim=dim, metric=list(g), a=repr(sorted(d.items())), op=oname),
                                       expected="== and hash like the multivector built from the result's data", actual=f"eq={R == twin} hash_equal={hash(R) == hash(twin)} operand_hash_kept={hash(A) == hA}",
                                       functions=[f"MultiVector.{oname}", "MultiVector.__hash__"]))
    return b


def b_wide(tier, seed):
    """Bitmaps wider than a machine word: the sign and bit-count kernels and sparse products in spaces of dimension 33..130."""
    import random
    import numpy as np
    from pymbolic.geometric_algebra import MultiVector, Space, bit_count, canonical_reordering_sign
    b = BoundedRun("wide-bitmaps", rule="seeded random pairs of bitmaps of width 9..130 (dense, sparse, single bits at both ends): canonical_reordering_sign(a, b) equals the parity "
                   "of the pairs (i in a, j in b, i > j), bit_count(a) the number of set bits; in Space(n) for n in {33, 34, 40, 64, 65, 70, 130}: e_i e_j = -e_j e_i for the "
                   "index pairs (0, n-1), (1, n-2), (n//2, n-1), e_i^2 = 1, and the product of two sparse blades equals the list-based reference", bound="4000 (thorough 20000) "
                   "bitmap pairs; 7 wide spaces", functions=["canonical_reordering_sign", "bit_count", "MultiVector._generic_product"])
    rnd = random.Random(seed + 5)
    n_pairs = 20000 if tier == "thorough" else 4000
    for k in range(n_pairs):
        w = rnd.choice([9, 16, 31, 32, 33, 34, 40, 63, 64, 65, 100, 130])
        mode = k % 4
        if mode == 0:
            a_, c_ = rnd.getrandbits(w), rnd.getrandbits(w)
        elif mode == 1:
            a_, c_ = (1 << (w - 1)) | rnd.getrandbits(3), 1 | (rnd.getrandbits(3) << (w - 4))
        elif mode == 2:
            a_ = sum(1 << rnd.randrange(w) for _ in range(3))
            c_ = sum(1 << rnd.randrange(w) for _ in range(3))
        else:
            a_, c_ = 1 << rnd.randrange(w), 1 << rnd.randrange(w)
        ia = [i for i in range(w + 8) if a_ >> i & 1]
        ic = [i for i in range(w + 8) if c_ >> i & 1]
        swaps = sum(1 for i in ia for j in ic if i > j)
        r = outcome.run(lambda: (canonical_reordering_sign(a_, c_), bit_count(a_)))
        b.case(("sign", w, a_, c_), nontrivial=w > 32, sample=dict(width=w))
        if r != ("val", (-1 if swaps % 2 else 1, len(ia))):
            b.fail(Failure("wide-bitmaps", f"what=reordering-sign width={w} a={a_:#x} b={c_:#x}", dict(kind="wide-sign", a=a_, b=c_), expected=repr((-1 if swaps % 2 else 1, len(ia))),
                           actual=outcome.describe(r)[:100], functions=["canonical_reordering_sign", "bit_count"]))
    for n in (33, 34, 40, 64, 65, 70, 130):
        sp = Space(n)
        g = (1,) * n
        ev = lambda i: MultiVector({1 << i: 1}, sp)       # noqa: E731
        for i, j in ((0, n - 1), (1, n - 2), (n // 2, n - 1), (n - 34, n - 1) if n >= 34 else (0, 1)):
            r = outcome.run(lambda: (to_ref(ev(i) * ev(j)), to_ref(ev(j) * ev(i)), to_ref(ev(j) * ev(j))))
            b.case(("anticommute", n, i, j), nontrivial=True, sample=dict(dim=n, i=i, j=j))
            want = ({(i, j): 1}, {(i, j): -1}, {(): 1})
            if r != ("val", want):
                b.fail(Failure("wide-bitmaps", f"what=anticommutation dim={n} i={i} j={j}", dict(kind="wide-anti", dim=n, i=i, j=j), expected=repr(want), actual=outcome.describe(r)[:200],
                               functions=["canonical_reordering_sign", "MultiVector._generic_product"]))
        for _ in range(6):
            xa = tuple(sorted(rnd.sample(range(n), 3)))
            xc = tuple(sorted(rnd.sample(range(n), 3)))
            A_ = MultiVector({sum(1 << i for i in xa): Fraction(2, 3)}, sp)
            C_ = MultiVector({sum(1 << i for i in xc): Fraction(-5, 7)}, sp)
            r = outcome.run(lambda: to_ref(A_ * C_))
            want = ref_mul(to_ref(A_), to_ref(C_), g, None)
            b.case(("sparse-product", n, xa, xc), nontrivial=True)
            if r != ("val", want):
                b.fail(Failure("wide-bitmaps", f"what=sparse-product dim={n} a={xa} b={xc}", dict(kind="wide-prod", dim=n, a=list(xa), b=list(xc)), expected=repr(want)[:150], actual=outcome.describe(r)[:150],
                               functions=["MultiVector._generic_product", "canonical_reordering_sign"]))
    return b


def b_composite_blades(tier):
    """Blades that are not basis blades: vectors with several components, outer products of two and three such vectors, multiples of the pseudoscalar."""
    import numpy as np
    from pymbolic.geometric_algebra import MultiVector, Space
    b = BoundedRun("composite-blades", rule="in dimensions 2..4 with the Euclidean and one mixed-signature diagonal metric: vectors with 2..dim rational components, the outer "
                   "product of two and of three of them (blades by construction), skipped when null: inv(B) * B == 1 and B * inv(B) == 1 exactly; the outer product equals the "
                   "antisymmetrised geometric product", bound="3 dims x 2 metrics x 6 vectors", functions=["MultiVector.inv", "MultiVector.norm_squared", "_generic_product"])
    F = Fraction
    for dim in (2, 3, 4):
        for g in ((1,) * dim, (1, -1, 2, 1)[:dim]):
            sp = Space(dim, np.diag(np.array(g, dtype=object)))
            vecs = [MultiVector({1 << i: c for i, c in enumerate(cs) if c}, sp) for cs in ([F(1), F(2), F(0), F(0)][:dim], [F(0), F(1), F(1), F(0)][:dim], [F(1, 2), F(-1), F(3), F(1)][:dim],
                                                                                               [F(2), F(0), F(-1), F(1, 3)][:dim])]
            blades = [("vector", v) for v in vecs]
            for u, v in itertools.combinations(vecs, 2):
                blades.append(("bivector", u ^ v))
            if dim >= 3:
                for u, v, w in itertools.combinations(vecs, 3):
                    blades.append(("trivector", u ^ v ^ w))
            for kind, B in blades:
                if not B.data:
                    continue
                nsq = outcome.run(lambda: B.norm_squared())
                if nsq[0] == "val" and nsq[1] == 0:
                    continue            # a null blade has no inverse
                r = outcome.run(lambda: (to_ref(B.inv() * B), to_ref(B * B.inv())))
                ncomp = len(B.data)
                b.case(("composite-inv", dim, g, kind, repr(sorted(B.data.items()))), nontrivial=ncomp > 1, sample=dict(dim=dim, metric=list(g), kind=kind, components=ncomp))
                if r != ("val", ({(): 1}, {(): 1})):
                    refused = r[0] == "exc" and issubclass(r[1], NotImplementedError)
                    cause = " cause=composite-blade-refused" if refused and ncomp > 1 and kind != "vector" else ""
                    b.fail(Failure("composite-blades", f"what=inverse{cause} kind={kind} dim={dim} metric={g} blade={sorted(B.data.items())}"[:400],
                                   dict(kind="ga-composite", dim=dim, metric=list(g), blade=repr(sorted(B.data.items()))), expected="inv(B)*B == 1 == B*inv(B)", actual=outcome.describe(r)[:200],
                                   functions=["MultiVector.inv"]))
    return b


def b_index_tuples(tier):
    """Multivectors given by index tuples in arbitrary order, and the permutation sign behind them."""
    import itertools
    import numpy as np
    from pymbolic.geometric_algebra import MultiVector, Space, permutation_sign
    b = BoundedRun("index-tuples", rule="permutation_sign(p) for EVERY permutation of range(n), n <= 6 (7 thorough), against the parity of the inversion count; "
                   "Space.bits_and_sign and MultiVector({index tuple: c}) for every ordering of every subset of the basis indices in dimensions <= 4 (5 thorough): the "
                   "multivector equals c times the reference product of the basis vectors in that order (independent bubble-sort Clifford product), for the metrics "
                   "diag(1,..), diag(-1,2,0,1,..); repeated indices are rejected", bound="n <= 6: 873 permutations; all orderings of all subsets, dim <= 4",
                   functions=["permutation_sign", "Space.bits_and_sign", "MultiVector.__init__"])
    nmax = 7 if tier == "thorough" else 6
    for n in range(0, nmax + 1):
        for perm in itertools.permutations(range(n)):
            inv = sum(1 for i in range(n) for j in range(i + 1, n) if perm[i] > perm[j])
            r = outcome.run(lambda: permutation_sign(perm))
            b.case(("perm", perm), sample=dict(perm=list(perm)))
            if r != ("val", -1 if inv % 2 else 1):
                b.fail(Failure("index-tuples", f"what=permutation_sign perm={perm}", dict(kind="perm", perm=list(perm)), expected=-1 if inv % 2 else 1, actual=outcome.describe(r),
                               functions=["permutation_sign"]))
    dmax = 5 if tier == "thorough" else 4
    for dim in range(1, dmax + 1):
        for metric in ([1] * dim, ([-1, 2, 0, 1, 3])[:dim]):
            sp = Space(metric_matrix=np.diag(np.array(metric, dtype=object)))
            for k in range(0, dim + 1):
                for subset in itertools.combinations(range(dim), k):
                    for order in itertools.permutations(subset):
                        r = outcome.run(lambda: MultiVector({tuple(order): 3}, sp))
                        b.case(("mv", dim, tuple(metric), order), sample=dict(dim=dim, indices=list(order)))
                        # reference: 3 * e_{o0} e_{o1} ... (distinct indices: no contraction, only the sign)
                        coeff, idx = 1, ()
                        for i_ in order:
                            c2, idx = ref_blade_product(idx, (i_,), metric)
                            coeff *= c2
                        want = {idx: 3 * coeff}
                        ok = r[0] == "val" and to_ref(r[1]) == want
                        if not ok:
                            b.fail(Failure("index-tuples", f"what=index-tuple-constructor dim={dim} metric={metric} indices={order}", dict(kind="mv", dim=dim, indices=list(order)),
                                           expected=repr(want), actual=(repr(to_ref(r[1])) if r[0] == "val" else outcome.describe(r))[:200],
                                           functions=["Space.bits_and_sign", "permutation_sign", "MultiVector.__init__"]))
            if dim >= 2:
                r = outcome.run(lambda: MultiVector({(0, 0): 1}, sp))
                b.case(("rep", dim))
                if r[0] != "exc":
                    b.fail(Failure("index-tuples", f"what=repeated-index-accepted dim={dim}", dict(kind="rep", dim=dim), expected="an error", actual=outcome.describe(r)[:100],
                                   functions=["Space.bits_and_sign"]))
    return b


def b_default_spaces(tier):
    """Spaces built WITHOUT an explicit metric (Space(n), get_euclidean_space(n), MultiVector(numpy vector)): the Euclidean metric,
    exact arithmetic on Fraction and large integer coefficients."""
    import numpy as np
    from pymbolic.geometric_algebra import MultiVector, Space, get_euclidean_space
    b = BoundedRun("default-spaces", rule="spaces with the default metric in dimensions 0..4 (Space(n), get_euclidean_space(n), and the space a numpy vector gets): all pairs of "
                   "basis blades scaled by Fraction(1, 3) and by 2**40 + 1: every product (*, ^, |, <<, >>, scalar_product) equals the list-based reference with the metric "
                   "(1, ..., 1) EXACTLY (value and exact type: a Fraction stays a Fraction, an int an int); norm_squared; inverse of a Fraction blade times the blade is exactly 1",
                   bound="5 dims x 3 constructions x 4^dim blade pairs x 2 scalings", functions=["Space.__init__", "get_euclidean_space", "MultiVector._generic_product", "_shared_metric_coeff"])
    sel = {"mul": None, "xor": lambda a, c, r: r == a + c, "or": lambda a, c, r: r == abs(a - c), "lshift": lambda a, c, r: r == c - a, "rshift": lambda a, c, r: r == a - c}
    import operator
    ops = {"mul": operator.mul, "xor": operator.xor, "or": operator.or_, "lshift": operator.lshift, "rshift": operator.rshift}

    def exact(u, v):
        return set(u) == set(v) and all(type(u[k]) is type(v[k]) and u[k] == v[k] for k in u)
    for dim in range(0, 5 if tier == "thorough" else 4):
        g = (1,) * dim
        makers = [("Space(n)", lambda: Space(dim)), ("get_euclidean_space", lambda: get_euclidean_space(dim))]
        if dim:
            makers.append(("numpy-vector", lambda: MultiVector(np.array([1] + [0] * (dim - 1), dtype=object)).space))
        for mname, mk in makers:
            spr = outcome.run(mk)
            if spr[0] != "val":
                b.fail(Failure("default-spaces", f"what=space-construction how={mname} dim={dim}", dict(kind="ga-default", how=mname, dim=dim), expected="a space", actual=outcome.describe(spr)[:200],
                               functions=["Space.__init__"]))
                continue
            sp = spr[1]
            for wname, w1, w2 in (("fraction", Fraction(1, 3), Fraction(-2, 5)), ("big-int", 2 ** 40 + 1, 3 ** 30)):
                for xb, yb in itertools.product(range(2 ** dim), repeat=2):
                    x_, y_ = MultiVector({xb: w1}, sp), MultiVector({yb: w2}, sp)
                    for name, op in ops.items():
                        real = outcome.run(lambda: to_ref(op(x_, y_)))
                        ref = ref_mul(to_ref(x_), to_ref(y_), g, sel[name])
                        b.case((mname, dim, wname, xb, yb, name), sample=dict(how=mname, dim=dim, weights=wname, a=xb, b=yb, product=name))
                        if not (real[0] == "val" and exact(real[1], ref)):
                            b.fail(Failure("default-spaces", f"what={name} how={mname} dim={dim} weights={wname} a={xb} b={yb}", dict(kind="ga-default", how=mname, dim=dim, weights=wname, a=xb, b=yb, op=name),
                                           expected=repr(ref)[:150], actual=outcome.describe(real)[:150], functions=["MultiVector._generic_product", "_shared_metric_coeff", "Space.__init__"]))
                    if wname == "fraction":
                        r = outcome.run(lambda: (x_.norm_squared(), to_ref(x_.inv() * x_)))
                        b.case((mname, dim, "inv", xb))
                        # in a Euclidean space the squared norm of a scaled basis blade is the square of its coefficient
                        ok = r[0] == "val" and type(r[1][0]) is Fraction and r[1][0] == w1 * w1 and exact(r[1][1], {(): Fraction(1)})
                        if not ok:
                            b.fail(Failure("default-spaces", f"what=norm-inverse how={mname} dim={dim} a={xb}", dict(kind="ga-default", how=mname, dim=dim, a=xb, op="inv"),
                                           expected="exact Fraction norm, inverse * blade == 1 exactly", actual=outcome.describe(r)[:200], functions=["norm_squared", "inv", "_shared_metric_coeff"]))
    return b


def b_scalar_operands(tier):
    """Every binary operator with a plain number (int, bool, Fraction, float) as the LEFT or the RIGHT operand: the reflected methods."""
    import operator
    import numpy as np
    from pymbolic.geometric_algebra import MultiVector, Space
    b = BoundedRun("scalar-operands", rule="s op m and m op s for op in {*, ^, |, <<, >>, +, -} with s a plain number (int, bool, Fraction, float) and m running over "
                   "all basis blades and a few mixed-grade multivectors in dimensions 0..3 (two metrics each): the result equals the same operation with the scalar "
                   "given as a grade-0 multivector, computed by the independent list-based product with grade selection; m / s = m * (1/s)",
                   bound="4 dims x 2 metrics x (2^dim + 3) multivectors x 5 scalars x 7 operators x 2 sides", functions=["MultiVector.__rmul__/__rxor__/__ror__/__rlshift__/__rrshift__/__radd__/__rsub__", "_cast_or_ni"])
    sel = {"mul": None, "xor": lambda a, c, r: r == a + c, "or": lambda a, c, r: r == abs(a - c), "lshift": lambda a, c, r: r == c - a, "rshift": lambda a, c, r: r == a - c}
    ops = {"mul": operator.mul, "xor": operator.xor, "or": operator.or_, "lshift": operator.lshift, "rshift": operator.rshift, "add": operator.add, "sub": operator.sub}
    for dim in (0, 1, 2, 3):
        for g in ((1,) * dim, (-1, 2, 0)[:dim]):
            sp = Space([f"e{i}" for i in range(dim)], np.diag(np.array(g, dtype=object)) if dim else np.zeros((0, 0), dtype=object))
            mvs = [MultiVector({bits: 1}, sp) for bits in range(2 ** dim)]
            mvs += [MultiVector({0: 5, (2 ** dim - 1): 2}, sp), MultiVector({0: 3}, sp), MultiVector({bits: bits + 1 for bits in range(2 ** dim)}, sp)]
            for m in mvs:
                for sc in (2, -3, True, Fraction(1, 2), 0.5):
                    for name, op in ops.items():
                        for side in ("left", "right"):
                            real = outcome.run(lambda: op(sc, m) if side == "left" else op(m, sc))
                            sref = {(): sc} if sc != 0 else {}
                            if name in sel:
                                ref = ref_mul(sref, to_ref(m), g, sel[name]) if side == "left" else ref_mul(to_ref(m), sref, g, sel[name])
                            else:
                                mr = to_ref(m)
                                if name == "add":
                                    ref = _addref(sref, mr)
                                elif side == "left":
                                    ref = _addref(sref, {k: -v for k, v in mr.items()})
                                else:
                                    ref = _addref(mr, {k: -v for k, v in sref.items()})
                                ref = {k: v for k, v in ref.items() if v != 0}
                            b.case((dim, g, repr(m.data), repr(sc), name, side), sample=dict(dim=dim, metric=g, m=repr(m.data), scalar=repr(sc), op=name, side=side))
                            if not (real[0] == "val" and isinstance(real[1], MultiVector) and to_ref(real[1]) == ref):
                                b.fail(Failure("scalar-operands", f"what=scalar-{side}-{name} dim={dim} metric={g} m={m.data} scalar={sc!r}",
                                               dict(kind="ga-scalar", dim=dim, metric=list(g), m=repr(m.data), scalar=repr(sc), op=name, side=side), expected=repr(ref)[:200],
                                               actual=(outcome.describe(real) if real[0] == "exc" or not isinstance(real[1], MultiVector) else repr(to_ref(real[1])))[:200],
                                               functions=[f"MultiVector.__{'r' if side == 'left' else ''}{name}__"]))
    return b


def b_same_coefficients(tier):
    """Equality, hash and truth value agree with coefficient-wise comparison, whatever constructor form or operation history produced the multivector."""
    import itertools
    import numpy as np
    from pymbolic.geometric_algebra import MultiVector, Space
    b = BoundedRun("same-coefficients", rule="groups of multivectors with the same coefficients built through every constructor form (scalar, bits mapping with and without "
                   "explicit zero coefficients, index-tuple mapping, numpy vector) and through operations (a-a, 0*a, a+a, ...), in spaces of dimension 1..3: all pairs of a "
                   "group are ==, not !=, hash equal and find each other in a set; pairs of different groups are !=; bool(m) iff some coefficient is non-zero; a scalar "
                   "multivector equals its scalar (both operand orders), the zero multivector equals 0", bound="3 spaces x 4 groups x all pairs",
                   functions=["MultiVector.__init__", "__eq__", "__ne__", "__hash__", "__bool__"])
    for dim in (1, 2, 3):
        g = (1, -1, 2)[:dim]
        sp = Space([f"e{i}" for i in range(dim)], np.diag(np.array(g, dtype=object)))
        mk = lambda d: MultiVector(d, sp)        # noqa: E731
        e0 = mk({1: 1})
        one = mk(1)
        groups = {
            "zero": [lambda: mk(0), lambda: mk({}), lambda: mk({0: 0}), lambda: mk({1: 0}), lambda: e0 - e0, lambda: 0 * e0, lambda: e0 * 0, lambda: mk({(0,): 0}),
                     lambda: mk(np.zeros(dim, dtype=object) * 0), lambda: mk(0.0), lambda: mk(Fraction(0)), lambda: mk({0: 0, 1: 0}), lambda: one - 1, lambda: mk(2) - mk(2)],
            "2e0": [lambda: mk({1: 2}), lambda: mk({1: 2, 0: 0}), lambda: mk({(0,): 2}), lambda: e0 + e0, lambda: 2 * e0, lambda: e0 * 2, lambda: mk({1: 3}) - e0,
                    lambda: mk({1: 2}) + 0, lambda: mk({1: 2}) + mk(0)],
            "3": [lambda: mk(3), lambda: mk({0: 3}), lambda: mk({(): 3}), lambda: 3 * one, lambda: one + 2, lambda: mk({0: 3, 1: 0}), lambda: mk(3) + (e0 - e0)],
            "e0+1": [lambda: e0 + 1, lambda: 1 + e0, lambda: mk({0: 1, 1: 1}), lambda: mk({(): 1, (0,): 1}), lambda: mk({1: 1}) + one],
        }
        if dim >= 2:
            e1 = mk({2: 1})
            groups["2e0"] += [lambda: (e0 + e1) + (e0 - e1), lambda: mk({1: 2, 2: 0}), lambda: mk({(0,): 2, (1,): 0}), lambda: mk({1: 2, 3: 0})]
            groups["zero"] += [lambda: e0 * e1 + e1 * e0, lambda: mk({(0, 1): 1, (1, 0): 1}), lambda: mk({3: 0})]
        built = {}
        for gname, forms in groups.items():
            built[gname] = []
            for i, f in enumerate(forms):
                r = outcome.run(f)
                b.case(("build", dim, gname, i))
                if r[0] != "val":
                    b.fail(Failure("same-coefficients", f"what=construction-raised dim={dim} group={gname} form={i}", dict(kind="ga-same", dim=dim, group=gname, form=i),
                                   expected="a multivector", actual=outcome.describe(r)[:200], functions=["MultiVector.__init__"]))
                    continue
                built[gname].append((i, r[1]))
        for gname, ms in built.items():
            nonzero = gname != "zero"
            for (i, u), (j, v) in itertools.product(ms, repeat=2):
                r = outcome.run(lambda: (u == v, not (u != v), hash(u) == hash(v), u in {v}, bool(u) == nonzero))
                b.case(("pair", dim, gname, i, j), sample=dict(dim=dim, group=gname, forms=[i, j]))
                if r != ("val", (True,) * 5):
                    names = ("==", "!=", "hash", "set-member", "bool")
                    bad = [n for n, ok in zip(names, r[1])if not ok] if r[0] == "val" else ["raised"]
                    b.fail(Failure("same-coefficients", f"what=same-coefficients-differ dim={dim} group={gname} forms={i},{j} wrong={','.join(bad)} data={u.data!r} vs {v.data!r}",
                                   dict(kind="ga-same", dim=dim, group=gname, forms=[i, j]), expected="equal, not unequal, same hash, set member, truth value by coefficients",
                                   actual=outcome.describe(r)[:200], functions=["MultiVector.__eq__", "__hash__", "__bool__", "__init__"]))
            scalar = {"zero": 0, "3": 3}.get(gname)
            if scalar is not None:
                for i, u in ms:
                    r = outcome.run(lambda: (u == scalar, scalar == u, not (u != scalar)))
                    b.case(("scalar", dim, gname, i))
                    if r != ("val", (True, True, True)):
                        b.fail(Failure("same-coefficients", f"what=scalar-comparison dim={dim} group={gname} form={i} scalar={scalar} data={u.data!r}",
                                       dict(kind="ga-same", dim=dim, group=gname, forms=[i]), expected=f"== {scalar}", actual=outcome.describe(r)[:200],
                                       functions=["MultiVector.__eq__", "_cast_or_ni", "__init__"]))
        # the same coefficients in a space of another dimension / metric, and a scalar multivector against its scalar:
        # whatever == says, equal objects hash alike and find each other
        other_sp = Space([f"f{i}" for i in range(dim + 1)], np.diag(np.array((2,) * (dim + 1), dtype=object)))
        for gname, ms in built.items():
            for i, u in ms[:4]:
                v = outcome.run(lambda: MultiVector(dict(u.data), other_sp))
                if v[0] != "val":
                    continue
                r = outcome.run(lambda: ((u == v[1]), (hash(u) == hash(v[1])), (v[1] in {u})))
                b.case(("other-space", dim, gname, i))
                if r[0] != "val" or (r[1][0] and not (r[1][1] and r[1][2])):
                    b.fail(Failure("same-coefficients", f"what=equal-across-spaces-hash-differs dim={dim} group={gname} form={i} data={u.data!r}",
                                   dict(kind="ga-same", dim=dim, group=gname, forms=[i]), expected="== implies same hash and set membership", actual=outcome.describe(r)[:200],
                                   functions=["MultiVector.__eq__", "__hash__"]))
            scalar = {"zero": 0, "3": 3}.get(gname)
            if scalar is not None:
                for i, u in ms:
                    r = outcome.run(lambda: (hash(u) == hash(scalar), scalar in {u}, u in {scalar}))
                    b.case(("scalar-hash", dim, gname, i))
                    if r != ("val", (True, True, True)):
                        b.fail(Failure("same-coefficients", f"what=scalar-hash dim={dim} group={gname} form={i} scalar={scalar}", dict(kind="ga-same", dim=dim, group=gname, forms=[i]),
                                       expected=f"hash and set membership agree with == {scalar}", actual=outcome.describe(r)[:200], functions=["MultiVector.__hash__"]))
        for (ga, ma), (gb, mb) in itertools.combinations(built.items(), 2):
            for (i, u), (j, v) in itertools.product(ma, mb):
                r = outcome.run(lambda: (u != v, not (u == v)))
                b.case(("cross", dim, ga, gb, i, j))
                if r != ("val", (True, True)):
                    b.fail(Failure("same-coefficients", f"what=different-coefficients-equal dim={dim} groups={ga},{gb} forms={i},{j}", dict(kind="ga-same", dim=dim, group=ga, forms=[i, j]),
                                   expected="unequal", actual=outcome.describe(r)[:200], functions=["MultiVector.__eq__"]))
    return b


def _addref(x, y):
    out = dict(x)
    for k, v in y.items():
        out[k] = out.get(k, 0) + v
    return out


def replay(case):
    runs = bounded("quick", 0, 1)
    return any(f.case == case for b in runs for f in b.failures)

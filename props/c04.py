"""C04  Mapper dispatch and the stock traversals reach every node correctly."""
from __future__ import annotations

import itertools
import warnings

from contracts import c04 as K
from harness import outcome, trees
from harness.runner import BoundedRun, Failure
from pyvc import api, verify

LEVEL = "proof"
SPECS = [K.Rid, K.Rcomb]
EXPLANATION = (
    "Mapper.__call__/rec_fallback/map_foreign are proved against the dispatch rule for every node class "
    "(real MRO, symbolic handler set, symbolic extra arguments); every IdentityMapper/CombineMapper/WalkMapper "
    "map_<K> is proved against the identity / combine / walk contract stated over the annotation-derived "
    "children of K (ghost event log for visit/rec/post_visit). Bounded part: instrumented real mappers on "
    "enumerated trees, fixture hierarchies x handler subsets, handler-name derivation.")
ASSUMPTIONS = [
    "A-CW closed world of node classes found at load time", "M-IND structural induction",
    "abstract callbacks visit/post_visit/combine are uninterpreted functions of their arguments",
    "children of a node class are those its dataclass field annotations declare (ExpressionT, tuple[ExpressionT,...], Mapping[str, ExpressionT])",
    "Slice.children has length <= 3 (annotation)",
]
TRUSTED_BASE = ["dataclasses.fields / field annotations of the real classes"]


def classes():
    return [k for k in verify.node_class_table() if k.__module__ == "pymbolic.primitives"]


def proof_jobs(tier):
    jobs = []
    ks = classes()
    for mc in (K.IDENTITY, K.COMBINE, K.WALK):
        for k in ks:
            jobs.append(("mapper", mc, k, None))
        for f in ("<list>", "<tuple>"):
            if mc is not K.COMBINE or True:
                jobs.append(("mapper", mc, f, None))
    for fc in K.dispatch_contracts(ks) + K.foreign_contracts():
        jobs.append(("function", fc, None, None))
    for k in ks + ["<constant>", "<list>", "<tuple>"]:
        jobs.append(("mapper", K.CALLBACK, k, None))
    return jobs


# ----------------------------------------------------------------------------- bounded
def ref_children(e):
    import pymbolic.primitives as p
    if isinstance(e, p.Expression):
        return [c for c in api.children(e) if not (isinstance(e, p.Slice) and c is None)]
    if isinstance(e, (list, tuple)):
        return list(e)
    return []


def ref_walk(e, log, cut, args):
    """Independent reference traversal: visit, children (annotation order), post."""
    log.append(("visit", e, args))
    if cut(e):
        import pymbolic.primitives as p
        if not ref_children(e) and isinstance(e, p.Expression) or not isinstance(e, (p.Expression, list, tuple)):
            log.append(("post?", e, args))
        return
    for c in ref_children(e):
        ref_walk(c, log, cut, args)
    log.append(("post", e, args))


def domain(tier):
    import pymbolic.primitives as p
    from immutabledict import immutabledict
    small = [trees.X, trees.Y, 2, -1, 0]
    ex = list(small) + trees.depth1(trees.ALL_EVAL + [p.Slice, p.Substitution, p.Derivative], small[:4])
    ex += trees.nary(trees.ALL_EVAL, small[:3])
    ex += trees.triples(trees.ALL_EVAL + [p.Slice, p.Substitution, p.Derivative], [trees.X, 2, trees.Y])
    ex += [p.Slice(()), p.Slice((trees.X,)), p.Slice((None, trees.Y)), p.Slice((trees.X, None, 2)),
           p.Subscript(trees.A, (p.Slice((None, trees.X)), 1)),
           p.CallWithKwargs(trees.F, (trees.X,), immutabledict({"a": trees.Y, "b": p.Sum((trees.X, 1))})),
           p.CallWithKwargs(trees.F, (), immutabledict({})),
           p.CommonSubexpression(p.CommonSubexpression(p.Sum((trees.X, trees.Y)), "in"), "out", p.cse_scope.GLOBAL),
           p.CommonSubexpression(p.Sum((trees.X, 1)), "pre", p.cse_scope.EXPRESSION),
           p.CommonSubexpression(0), p.Sum((trees.X, p.CommonSubexpression(0))),
           p.NaN(), p.FunctionSymbol(), p.Wildcard(), p.DotWildcard("w"), p.StarWildcard("s"),
           (trees.X, (trees.Y, 1)), [trees.X, [2, trees.Y]],
           p.Call(trees.F, (trees.X, (trees.Y, trees.Z))), p.Subscript(trees.A, (trees.X, trees.Y)),
           p.Sum((trees.X, p.Product((trees.Y, p.Power(trees.X, 2))), p.Quotient(1, trees.Y))),
           ]
    return trees.dedup(ex)


def occurrences(e):
    return 1 + sum(occurrences(c) for c in ref_children(e))


def b_walk(tier):
    import pymbolic.primitives as p
    from pymbolic.mapper import WalkMapper
    b = BoundedRun("walk-log", rule="instrumented WalkMapper on enumerated trees x extra-argument tuples x cut predicates "
                   "(never / at sums / at calls / everywhere); event log compared with an independent traversal over annotation-derived "
                   "children: visit first, post last, children traversals as a multiset; non-trivial = tree with >= 1 child",
                   bound="depth <= 2 trees, args in {(), (7,), (7, 'k')}", functions=["pymbolic.mapper:WalkMapper.*"])

    class W(WalkMapper):
        def __init__(self, cut):
            self.log = []
            self.cut = cut

        def visit(self, e, *a, **kw):
            self.log.append(("visit", e, (a, tuple(sorted(kw.items())))))
            return not self.cut(e)

        def post_visit(self, e, *a, **kw):
            self.log.append(("post", e, (a, tuple(sorted(kw.items())))))
    cuts = {"never": lambda e: False, "sums": lambda e: isinstance(e, p.Sum), "calls": lambda e: isinstance(e, (p.Call, p.CallWithKwargs)),
            "always": lambda e: True}
    argsets = [((), {}), ((7,), {}), ((7,), {"k": "v"})]
    for e in domain(tier):
        for cname, cut in cuts.items():
            for a, kw in argsets:
                w = W(cut)
                real = outcome.run(lambda: w(e, *a, **kw))
                ref = []
                ref_walk(e, ref, cut, (a, tuple(sorted(kw.items()))))
                b.case((repr(e), cname, repr(a), repr(kw)), nontrivial=bool(ref_children(e)),
                       sample=dict(expr=repr(e), cut=cname, args=repr(a)))
                ok = real[0] == "val" and logs_match(w.log, ref)
                if real[0] == "exc" and _unhandled_ok(real, e):
                    ok = True
                if not ok:
                    b.fail(Failure("walk-log", f"root={type(e).__name__} cut={cname} args={a} kw={kw} expr={e!r}",
                                   dict(kind="walk", expr=trees.src(e), cut=cname, args=repr(a), kw=repr(kw)),
                                   expected=f"{len(ref)} events {_short(ref)}", actual=f"{outcome.describe(real)[:80]} {len(w.log)} events {_short(w.log)}",
                                   functions=[f"WalkMapper.{getattr(type(e), 'mapper_method', 'map_foreign')}"]))
    # containers that are not expression dataclasses: multivectors, numpy object arrays, polynomial nodes
    import numpy as np
    from pymbolic.geometric_algebra import MultiVector, Space
    from pymbolic.polynomial import Polynomial
    x, y = trees.X, trees.Y
    s1, s2 = p.Sum((x, 1)), p.Product((2, y))
    containers = [
        ("multivector", MultiVector({1: x, 2: s1, 3: 5}, Space(2)), [x, s1, 5]),
        ("multivector-scalar", MultiVector({0: s2}, Space(2)), [s2]),
        ("array-1d", np.array([x, s1, 2], dtype=object), [x, s1, 2]),
        ("array-2d", np.array([[x, s2], [3, s1]], dtype=object), [x, s2, 3, s1]),
        ("polynomial", Polynomial(x, ((0, s1), (2, y))), [x, s1, y]),
    ]
    for cname_, obj, kids in containers:
        for cut_here in (False, True):
            for a, kw in argsets:
                w = W(lambda e, obj=obj, cut_here=cut_here: cut_here and e is obj)
                real = outcome.run(lambda: w(obj, *a, **kw))
                tag = (a, tuple(sorted(kw.items())))
                b.case(("container", cname_, cut_here, repr(a), repr(kw)), sample=dict(container=cname_, cut=cut_here, args=repr(a)))
                ev = [(k_, e_) for (k_, e_, t_) in w.log]
                why = None
                if real[0] != "val":
                    why = outcome.describe(real)[:150]
                elif any(t_ != tag for (_, _, t_) in w.log):
                    why = "extra arguments not passed through unchanged"
                elif not ev or ev[0][0] != "visit" or ev[0][1] is not obj:
                    why = "the container is not visited first"
                elif cut_here:
                    if len(ev) != 1:
                        why = f"visit returned false but {len(ev) - 1} further events happened"
                else:
                    if ev[-1][0] != "post" or ev[-1][1] is not obj:
                        why = "post_visit of the container is not the last event"
                    else:
                        top = []
                        depth = 0
                        for k_, e_ in ev[1:-1]:
                            if k_ == "visit":
                                if depth == 0:
                                    top.append(e_)
                                if isinstance(e_, p.Expression) and ref_children(e_):
                                    depth += 1
                            elif k_ == "post" and isinstance(e_, p.Expression) and ref_children(e_):
                                depth -= 1
                        if not api.same_elements(top, kids):
                            why = f"children traversed: {top!r}, expected (any order) {kids!r}"
                if why:
                    b.fail(Failure("walk-log", f"root=container:{cname_} cut={cut_here} args={a} kw={kw} why={why}", dict(kind="walk", container=cname_, cut=cut_here, args=repr(a), kw=repr(kw)),
                                   expected="visit, each child once, post_visit (nothing after a false visit)", actual=why[:200], functions=[f"WalkMapper.map_{cname_.split('-')[0]}"]))
    return b


def _unhandled_ok(real, e):
    from pymbolic.mapper import UnsupportedExpressionError
    return issubclass(real[1], (UnsupportedExpressionError, NotImplementedError))


def _short(log):
    return [(k, type(e).__name__) for k, e, _ in log][:12]


def logs_match(real, ref):
    """Same multiset of (kind, node identity, args); visit of a node before its post; root visit first, root post last."""
    ref2 = [r for r in ref if r[0] != "post?"]
    optional = [r for r in ref if r[0] == "post?"]
    rl = list(real)
    for o in optional:
        for i, r in enumerate(rl):
            if r[0] == "post" and r[1] is o[1] and r[2] == o[2]:
                del rl[i]
                break
    if len(rl) != len(ref2):
        return False
    rest = list(ref2)
    for r in rl:
        for i, q in enumerate(rest):
            if r[0] == q[0] and (r[1] is q[1] or (type(r[1]) is type(q[1]) and r[1] == q[1])) and r[2] == q[2]:
                del rest[i]
                break
        else:
            return False
    if rl and rl[0][0] != "visit":
        return False
    # nesting: every post closes the most recent open visit
    stack = []
    for kind, e, _ in rl:
        if kind == "visit":
            stack.append(e)
        else:
            while stack and not (stack[-1] is e or (type(stack[-1]) is type(e) and stack[-1] == e)):
                stack.pop()
            if not stack:
                return False
            stack.pop()
    return True


def b_identity(tier):
    import pymbolic.primitives as p
    from pymbolic.mapper import CachedIdentityMapper, IdentityMapper
    b = BoundedRun("identity", rule="IdentityMapper / CachedIdentityMapper on enumerated trees: result is the same object; a "
                   "leaf-renaming subclass (x -> z) with extra args: result equals an independent rebuild, untouched subtrees are "
                   "the identical objects, extra arguments reach every handler; non-trivial = tree containing x below the root",
                   bound="depth <= 2 trees", functions=["pymbolic.mapper:IdentityMapper.*"])

    def make(cls):
        class Ren(cls):
            def __init__(self):
                super().__init__()
                self.seen = []

            def map_variable(self, e, *a, **kw):
                self.seen.append((a, tuple(sorted(kw.items()))))
                return p.Variable("z") if e.name == "x" else e
        return Ren

    def ref_rename(e):
        if isinstance(e, p.Variable):
            return p.Variable("z") if e.name == "x" else e
        if isinstance(e, p.Expression):
            if not any(_contains_x(c) for c in ref_children(e)):
                return e
            return api.map_children(e, ref_rename)
        if isinstance(e, tuple):
            return tuple(ref_rename(c) for c in e) if _contains_x(e) else e
        if isinstance(e, list):
            return [ref_rename(c) for c in e]
        return e
    for e in domain(tier):
        for cls in (IdentityMapper, CachedIdentityMapper):
            if cls is CachedIdentityMapper and _unhashable(e):
                continue
            r0 = outcome.run(lambda: cls()(e))
            b.case((repr(e), cls.__name__, "id"), nontrivial=bool(ref_children(e)), sample=dict(expr=repr(e), mapper=cls.__name__))
            ok = (r0[0] == "val" and (r0[1] is e or (isinstance(e, list) and r0[1] == e))) or (r0[0] == "exc" and _unhandled_ok(r0, e))
            if not ok:
                b.fail(Failure("identity", f"mode=same-object mapper={cls.__name__} root={type(e).__name__} expr={e!r}",
                               dict(kind="identity", expr=trees.src(e), mapper=cls.__name__, mode="id"),
                               expected="the same object", actual=outcome.describe(r0),
                               functions=[f"IdentityMapper.{getattr(type(e), 'mapper_method', 'map_foreign')}"]))
            for a, kw in (((), {}), ((5,), {"k": 1})):
                if cls is CachedIdentityMapper and a:
                    pass
                m = make(cls)()
                r1 = outcome.run(lambda: m(e, *a, **kw))
                exp = outcome.run(lambda: ref_rename(e))
                b.case((repr(e), cls.__name__, "ren", repr(a)), nontrivial=_contains_x(e) and not isinstance(e, p.Variable))
                ok = False
                if r1[0] == "val" and exp[0] == "val":
                    ok = _same_tree(r1[1], exp[1]) and _shares_untouched(r1[1], e) \
                        and all(s == (a, tuple(sorted(kw.items()))) for s in m.seen)
                elif r1[0] == "exc":
                    ok = _unhandled_ok(r1, e)
                if not ok:
                    b.fail(Failure("identity", f"mode=rename mapper={cls.__name__} args={a} root={type(e).__name__} expr={e!r}",
                                   dict(kind="identity", expr=trees.src(e), mapper=cls.__name__, mode="ren", args=repr(a), kw=repr(kw)),
                                   expected=outcome.describe(exp), actual=outcome.describe(r1) + f" seen={m.seen[:3]}",
                                   functions=[f"IdentityMapper.{getattr(type(e), 'mapper_method', 'map_foreign')}"]))
    # polynomial nodes (a legacy node type the identity mapper handles): same object when nothing changed, rebuilt with every term kept otherwise
    from pymbolic.polynomial import Polynomial
    x, y = trees.X, trees.Y
    polys = [Polynomial(y, ((0, 1), (2, 3))), Polynomial(y, ((1, p.Sum((y, 1))),)), Polynomial(x, ((0, 1), (2, 3))), Polynomial(y, ((0, x), (1, 2), (3, p.Product((2, x))))),
             Polynomial(p.Sum((x, 1)), ((0, y), (2, 1))), p.Sum((Polynomial(y, ((1, 2),)), x))]
    for e in polys:
        r0 = outcome.run(lambda: IdentityMapper()(e))
        b.case((repr(e), "IdentityMapper", "poly-id"), sample=dict(expr=repr(e), mapper="IdentityMapper"))
        if not (r0[0] == "val" and r0[1] is e):
            b.fail(Failure("identity", f"mode=same-object mapper=IdentityMapper root={type(e).__name__} expr={e!r}", dict(kind="identity", expr=repr(e), mapper="IdentityMapper", mode="poly-id"),
                           expected="the same object", actual=outcome.describe(r0)[:200], functions=["IdentityMapper.map_polynomial"]))
        m = make(IdentityMapper)()
        r1 = outcome.run(lambda: m(e))
        b.case((repr(e), "IdentityMapper", "poly-ren"))

        def rn(t):
            if isinstance(t, Polynomial):
                return Polynomial(rn(t.base), tuple((ex_, rn(c_)) for ex_, c_ in t.data))
            return ref_rename(t) if not (isinstance(t, p.Sum) and any(isinstance(c_, Polynomial) for c_ in t.children)) else p.Sum(tuple(rn(c_) for c_ in t.children))
        want = rn(e)
        has_x = "Variable('x')" in repr(e)
        ok = r1[0] == "val" and r1[1] == want and ((r1[1] is e) == (not has_x))
        if not ok:
            b.fail(Failure("identity", f"mode=rename mapper=IdentityMapper root={type(e).__name__} expr={e!r}", dict(kind="identity", expr=repr(e), mapper="IdentityMapper", mode="poly-ren"),
                           expected=repr(want)[:150] + (" (a new object)" if has_x else " (the same object)"), actual=outcome.describe(r1)[:200], functions=["IdentityMapper.map_polynomial"]))
    return b


def _unhashable(e):
    try:
        hash(e)
        return False
    except TypeError:
        return True


def _contains_x(e):
    import pymbolic.primitives as p
    if isinstance(e, p.Variable):
        return e.name == "x"
    return any(_contains_x(c) for c in ref_children(e))


def _same_tree(a, b):
    if type(a) is not type(b):
        return False
    if isinstance(a, (list, tuple)):
        return len(a) == len(b) and all(_same_tree(x, y) for x, y in zip(a, b))
    return a == b


def _shares_untouched(r, e):
    """Subtrees of e without x must be the identical objects in r (where shapes line up)."""
    import pymbolic.primitives as p
    if not _contains_x(e):
        return r is e or isinstance(e, list) or not isinstance(e, (p.Expression, tuple))
    cr, ce = ref_children(r), ref_children(e)
    if len(cr) != len(ce):
        return True
    return all(_shares_untouched(x, y) for x, y in zip(cr, ce))


def b_combine(tier):
    import pymbolic.primitives as p
    from pymbolic.mapper import CachedCombineMapper, Collector, CombineMapper
    b = BoundedRun("combine", rule="list-concatenating CombineMapper with leaf handlers returning [(leaf, args)]: the result is a "
                   "permutation of the leaves of the tree with the extra arguments; Collector returns the union; non-trivial = >= 2 leaves",
                   bound="depth <= 2 trees", functions=["pymbolic.mapper:CombineMapper.*", "Collector"])

    class L(CombineMapper):
        def combine(self, values):
            out = []
            for v in values:
                out.extend(v)
            return out

        def map_constant(self, e, *a, **kw):
            return [(e, a, tuple(sorted(kw.items())))]
        map_variable = map_constant
        map_nan = map_constant
        map_function_symbol = map_constant
        map_wildcard = map_constant
        map_dot_wildcard = map_constant
        map_star_wildcard = map_constant

    def leaves(e):
        ch = ref_children(e)
        if isinstance(e, (p.Slice, p.Substitution, p.Derivative)):
            return None
        if (isinstance(e, p.Expression) and not api.child_fields(type(e))) or not isinstance(e, (p.Expression, list, tuple)):
            return [e]
        out = []
        for c in ch:
            l = leaves(c)
            if l is None:
                return None
            out += l
        return out
    for e in domain(tier):
        for a, kw in (((), {}), ((3,), {"k": 2})):
            real = outcome.run(lambda: L()(e, *a, **kw))
            exp = leaves(e)
            b.case((repr(e), repr(a)), nontrivial=exp is not None and len(exp) > 1, sample=dict(expr=repr(e), args=repr(a)))
            if exp is None:
                ok = real[0] == "exc" and _unhandled_ok(real, e)
            else:
                ok = real[0] == "val" and api.same_elements([x[0] for x in real[1]], exp) and \
                    all(x[1:] == (a, tuple(sorted(kw.items()))) for x in real[1])
                if real[0] == "exc" and _unhandled_ok(real, e):
                    ok = isinstance(e, (p.AlgebraicLeaf,)) and False
            if not ok:
                b.fail(Failure("combine", f"root={type(e).__name__} args={a} expr={e!r}",
                               dict(kind="combine", expr=trees.src(e), args=repr(a), kw=repr(kw)),
                               expected=f"leaves {exp}", actual=outcome.describe(real),
                               functions=[f"CombineMapper.{getattr(type(e), 'mapper_method', 'map_foreign')}"]))
    return b


def b_dispatch(tier):
    """Fixture hierarchies x handler subsets x argument tuples, against an independent dispatch rule;
    handler-name derivation against an independent camel->snake function."""
    import re
    import pymbolic.primitives as p
    from pymbolic.mapper import Mapper, UnsupportedExpressionError
    b = BoundedRun("dispatch", rule="user node hierarchies (decorated<-decorated, decorated with own mapper_method, legacy<-decorated, "
                   "three levels) x all subsets of the candidate handler names a mapper may implement x extra argument tuples: the "
                   "handler that ran is the first one along the MRO the mapper implements, with the exact arguments; derived handler "
                   "names vs. an independent camel->snake; non-trivial = subset with >= 1 handler",
                   bound="4 hierarchies, <= 2^4 handler subsets, name shapes up to length 8", functions=[
                       "pymbolic.mapper:Mapper.__call__", "rec_fallback", "primitives._augment_expression_dataclass (mapper_method)"])
    with warnings.catch_warnings():
        warnings.simplefilter("ignore")

        @p.expr_dataclass()
        class BaseNode(p.Expression):
            child: p.ExpressionT

        @p.expr_dataclass()
        class DerivedNode(BaseNode):
            pass

        @p.expr_dataclass()
        class OwnNamed(DerivedNode):
            mapper_method = "map_own_named_special"

        @p.expr_dataclass()
        class HTTPServerNode2(OwnNamed):
            pass

        class LegacyChild(DerivedNode):
            pass
    fixtures = [BaseNode, DerivedNode, OwnNamed, HTTPServerNode2, LegacyChild]

    def snake(name):
        out = ""
        for i, ch in enumerate(name):
            if ch.isupper() and i > 0:
                prev, nxt = name[i - 1], name[i + 1] if i + 1 < len(name) else ""
                if prev.islower() or (prev.isupper() and nxt.islower()):
                    out += "_"
            out += ch.lower()
        return out
    expect_names = {BaseNode: "map_base_node", DerivedNode: "map_derived_node", OwnNamed: "map_own_named_special",
                    HTTPServerNode2: "map_http_server_node2", LegacyChild: "map_derived_node"}
    for k, nm in expect_names.items():
        b.case(("name", k.__name__), sample=dict(cls=k.__name__, expected=nm))
        if k.mapper_method != nm:
            b.fail(Failure("dispatch", f"mode=name cls={k.__name__}", dict(kind="dispatch-name", cls=k.__name__),
                           expected=nm, actual=k.mapper_method, functions=["_augment_expression_dataclass"]))
    # generated names
    shapes = ["Aa", "AaBb", "ABc", "AaB", "A1b", "AB", "ABCd", "AbCDe", "Ab1Cd", "ABcDE", "A", "AaBC", "X2Y", "IOError"]
    for nm in shapes:
        with warnings.catch_warnings():
            warnings.simplefilter("ignore")
            cls = p.expr_dataclass()(type(nm, (p.Expression,), {"__annotations__": {}}))
        b.case(("gen", nm), sample=dict(cls=nm, expected="map_" + snake(nm)))
        if cls.mapper_method != "map_" + snake(nm):
            b.fail(Failure("dispatch", f"mode=name cls={nm}", dict(kind="dispatch-genname", cls=nm),
                           expected="map_" + snake(nm), actual=cls.mapper_method, functions=["_augment_expression_dataclass"]))
    for k in classes():
        exp = "map_" + snake(k.__name__) if k.__name__ != "NaN" else "map_nan"
        b.case(("real", k.__name__))
        if k.mapper_method != exp:
            b.fail(Failure("dispatch", f"mode=name cls={k.__name__}", dict(kind="dispatch-realname", cls=k.__name__),
                           expected=exp, actual=k.mapper_method, functions=["_augment_expression_dataclass"]))
    # dispatch over handler subsets
    cand = ["map_base_node", "map_derived_node", "map_own_named_special", "map_http_server_node2"]
    # the same node classes are dispatched by many mapper classes one after the other, in three orders (growing handler sets, shrinking handler
    # sets, seeded shuffle): the handler chosen must not depend on what other mappers dispatched before (no state shared between mappers)
    import random as _random
    plan = [(fx, subset) for fx in fixtures for r in range(len(cand) + 1) for subset in itertools.combinations(cand, r)]
    shuffled = list(plan)
    _random.Random(4).shuffle(shuffled)
    for order, seq in (("growing", plan), ("shrinking", list(reversed(plan))), ("shuffled", shuffled)):
        for fx, subset in seq:
            node = fx(trees.X)
            if True:
                for a, kw in (((), {}), ((1, "two"), {"k": 3})):
                    calls = []
                    ns = {}
                    for h in subset:
                        ns[h] = (lambda h: lambda self, e, *aa, **kk: calls.append((h, e, aa, kk)) or h)(h)
                    M = type("M", (Mapper,), ns)
                    m = M()
                    for entry in ("__call__", "rec_fallback"):
                        del calls[:]
                        real = outcome.run(lambda: getattr(m, entry)(node, *a, **kw))
                        # independent rule
                        chain = []
                        mro = type(node).__mro__ if entry == "__call__" else type(node).__mro__[1:]
                        for cls in mro:
                            nm = getattr(cls, "mapper_method", None) if cls is type(node) else cls.__dict__.get("mapper_method")
                            if nm and nm not in chain:
                                chain.append(nm)
                        want = next((h for h in chain if h in subset), None)
                        b.case((fx.__name__, subset, entry, repr(a), order), nontrivial=bool(subset),
                               sample=dict(cls=fx.__name__, handlers=list(subset), entry=entry, want=want, order=order))
                        if want is None:
                            ok = real[0] == "exc" and issubclass(real[1], UnsupportedExpressionError) and not calls
                        else:
                            ok = real == ("val", want) and len(calls) == 1 and calls[0][0] == want and calls[0][1] is node \
                                and calls[0][2] == a and calls[0][3] == kw
                        if not ok:
                            b.fail(Failure("dispatch", f"mode=dispatch order={order} cls={fx.__name__} handlers={subset} entry={entry} args={a}",
                                           dict(kind="dispatch", cls=fx.__name__, handlers=list(subset), entry=entry, args=repr(a), kw=repr(kw)),
                                           expected=f"handler {want}", actual=f"{outcome.describe(real)} calls={[(c[0], c[2], c[3]) for c in calls]}",
                                           functions=["Mapper.__call__", "Mapper.rec_fallback"]))
    # foreign objects
    class FM(Mapper):
        def map_constant(self, e, *a, **k):
            return ("constant", a, k)

        def map_list(self, e, *a, **k):
            return ("list", a, k)

        def map_tuple(self, e, *a, **k):
            return ("tuple", a, k)

        def map_numpy_array(self, e, *a, **k):
            return ("array", a, k)
    import numpy as np
    foreign = [(1, "constant"), (1.5, "constant"), (1 + 2j, "constant"), (True, "constant"), (np.float64(2), "constant"),
               ([1], "list"), ((1,), "tuple"), (np.array([1, 2]), "array"), ("s", None), (None, None), ({1}, None), ({}, None),
               (object(), None),
               # numpy scalars: the numeric ones are constants, the others (text, bytes, dates, records) are not numbers
               (np.int32(3), "constant"), (np.complex64(1 + 2j), "constant"), (np.bool_(True), "constant"), (np.uint8(3), "constant"),
               (np.str_("s"), None), (np.bytes_(b"s"), None), (np.datetime64("2020-01-01"), None), (np.void(b"ab"), None), (b"s", None), (bytearray(b"s"), None),
               (range(3), None), (frozenset({1}), None), (slice(1, 2), None), (Ellipsis, None), (NotImplemented, None)]
    for obj, want in foreign:
        for a, kw in (((), {}), ((1,), {"k": 2})):
            for entry in ("__call__", "rec_fallback", "map_foreign"):
                real = outcome.run(lambda: getattr(FM(), entry)(obj, *a, **kw))
                b.case(("foreign", repr(type(obj)), entry, repr(a)), sample=dict(obj=repr(obj)[:30], want=want))
                ok = (real[0] == "exc" and issubclass(real[1], ValueError)) if want is None else real == ("val", (want, a, kw))
                if not ok:
                    b.fail(Failure("dispatch", f"mode=foreign obj={type(obj).__name__} entry={entry} args={a}",
                                   dict(kind="dispatch-foreign", obj=repr(obj)[:40], entry=entry),
                                   expected=str(want or "ValueError"), actual=outcome.describe(real), functions=["Mapper.map_foreign"]))
    return b


def b_unhandled(tier):
    """Every stock mapper x every node class: a result or a raise, never a silent skip."""
    import pymbolic.primitives as p
    from pymbolic.mapper import (CachedCollector, CachedCombineMapper, CachedIdentityMapper, CachedWalkMapper, Collector,
                                 CombineMapper, IdentityMapper, UnsupportedExpressionError, WalkMapper)
    b = BoundedRun("unhandled", rule="each stock traversal applied to one instance of every node class: the outcome is a value "
                   "produced by a handler, or UnsupportedExpressionError/NotImplementedError; for WalkMapper a handled node must have been visited",
                   bound="one instance per class x 8 mappers", functions=["Mapper.handle_unsupported_expression"])
    insts = {}
    for e in domain(tier):
        insts.setdefault(type(e), e)
    for cls, e in insts.items():
        if not isinstance(e, p.Expression):
            continue
        for M in (IdentityMapper, CachedIdentityMapper, Collector, CachedCollector, WalkMapper, CachedWalkMapper):
            seen = []
            if issubclass(M, WalkMapper):
                class MM(M):
                    def visit(self, x, *a, **k):
                        seen.append(x)
                        return True
            else:
                MM = M
            real = outcome.run(lambda: MM()(e))
            b.case((cls.__name__, M.__name__), sample=dict(cls=cls.__name__, mapper=M.__name__))
            if real[0] == "exc":
                ok = issubclass(real[1], (UnsupportedExpressionError, NotImplementedError))
            elif issubclass(M, WalkMapper):
                ok = any(s is e for s in seen)
            elif issubclass(M, IdentityMapper):
                ok = real[1] is e
            else:
                ok = isinstance(real[1], set)
            if not ok:
                b.fail(Failure("unhandled", f"cls={cls.__name__} mapper={M.__name__}", dict(kind="unhandled", cls=cls.__name__, mapper=M.__name__, expr=trees.src(e)),
                               expected="handled or raised", actual=outcome.describe(real), functions=[f"{M.__name__}"]))
    return b


def ref_variables(e):
    """Independent reference: the set of Variable nodes of a tree."""
    import pymbolic.primitives as p
    out = {e} if isinstance(e, p.Variable) else set()
    for c in ref_children(e):
        out |= ref_variables(c)
    return out


def b_collector_histories(tier):
    """Set-valued combine mappers on ONE instance over a history of calls: every application returns the union over its leaves,
    whatever was applied before, and a result already returned keeps its value."""
    import pymbolic.primitives as p
    from pymbolic.mapper import CachedCollector, Collector
    from pymbolic.mapper.dependency import CachedDependencyMapper, DependencyMapper
    b = BoundedRun("collector-histories", rule="DependencyMapper / CachedDependencyMapper (composite_leaves=False, and include_cses off), a Collector and a CachedCollector "
                   "subclass returning {variable}: one instance applied to the whole expression set (forward, backward, and with sums sharing common subexpressions "
                   "and subtrees), each result = the set of Variable nodes of the tree (independent traversal); results returned earlier are unchanged at the end; "
                   "sets owned by a handler are not modified", bound="4 mappers x 2 orders x expression set", functions=["Collector.combine", "CombineMapper.*", "DependencyMapper"])
    x, y, z, w = trees.X, trees.Y, trees.Z, p.Variable("w")
    cse = p.CommonSubexpression(p.Sum((x, y)), "c")
    shared = p.Product((x, y))
    extra = [p.Sum((cse, z)), p.Sum((cse, w)), p.Product((z, cse)), p.Sum((shared, z)), p.Sum((shared, w, 1)), p.Power(shared, z), cse, shared, p.Sum((x, w)), x,
             p.Sum((p.CommonSubexpression(x, "cx"), z)), p.Sum((p.CommonSubexpression(x, "cx"), w)), p.If(p.Comparison(x, "<", y), cse, shared)]
    dom = [e for e in domain(tier) if not isinstance(e, (list, tuple))] + extra

    class VC(Collector):
        def map_variable(self, e, *a, **kw):
            return {e}

    class CVC(CachedCollector):
        def map_variable(self, e, *a, **kw):
            return {e}

    class Owned(Collector):
        """Hands out sets it keeps (one per variable): combining must not write into a child's result."""
        def __init__(self):
            self.owned = {}

        def map_variable(self, e, *a, **kw):
            return self.owned.setdefault(e, {e})

    subjects = [("DependencyMapper", lambda: DependencyMapper(composite_leaves=False)), ("CachedDependencyMapper", lambda: CachedDependencyMapper(composite_leaves=False)),
                ("Collector", VC), ("CachedCollector", CVC), ("OwningCollector", Owned)]
    for sname, mk in subjects:
        for order in ("forward", "backward"):
            m = mk()
            seq = dom if order == "forward" else dom[::-1]
            kept = []
            for i, e in enumerate(seq):
                real = outcome.run(lambda: m(e))
                b.case((sname, order, i), sample=dict(mapper=sname, order=order, expr=repr(e)))
                if real[0] != "val":
                    continue                    # unsupported node types are judged by the combine / unhandled checks
                want = ref_variables(e)
                case = dict(kind="collector-history", mapper=sname, order=order, index=i)
                if not (isinstance(real[1], (set, frozenset)) and set(real[1]) == want):
                    b.fail(Failure("collector-histories", f"what=wrong-union mapper={sname} order={order} step={i} expr={e!r}", case, expected=repr(sorted(map(str, want))),
                                   actual=outcome.describe(real)[:200], functions=["Collector.combine"]))
                kept.append((e, real[1], frozenset(real[1]) if isinstance(real[1], (set, frozenset)) else None, i))
            for e, res, snap, i in kept:
                if snap is not None and frozenset(res) != snap:
                    b.fail(Failure("collector-histories", f"what=returned-result-changed-later mapper={sname} order={order} step={i} expr={e!r}",
                                   dict(kind="collector-history", mapper=sname, order=order, index=i), expected=repr(sorted(map(str, snap))),
                                   actual=repr(sorted(map(str, res)))[:200], functions=["Collector.combine"]))
            if sname == "OwningCollector":
                for v, sset in m.owned.items():
                    if sset != {v}:
                        b.fail(Failure("collector-histories", f"what=handler-owned-set-modified mapper={sname} order={order} variable={v}",
                                       dict(kind="collector-history", mapper=sname, order=order, index=-1), expected=repr({v}), actual=repr(sorted(map(str, sset)))[:200],
                                       functions=["Collector.combine"]))
    return b


def b_registered_constants(tier):
    """Dispatch of objects whose class is registered as a constant class AFTER import (and unregistered again)."""
    import decimal
    from fractions import Fraction
    import pymbolic.primitives as p
    from pymbolic.mapper import Collector, IdentityMapper, Mapper, WalkMapper
    b = BoundedRun("registered-constant-dispatch", rule="phases {default, Fraction registered, Fraction + Decimal registered, Decimal unregistered, all unregistered}: an instrumented "
                   "mapper, IdentityMapper, WalkMapper and a Collector applied (through __call__ and rec, with extra arguments) to an instance of each class and to trees "
                   "containing one: while the class is registered map_constant is reached with the object and the extra arguments (identity returns the very object, the walk "
                   "visits it, the collector folds it in); while it is not, the object is refused with ValueError - never routed to another handler", bound="5 phases x 2 classes x 4 mappers x 3 trees",
                   functions=["Mapper.map_foreign", "Mapper.__call__", "Mapper.rec", "register_constant_class", "unregister_constant_class"])
    x = trees.X
    objs = {"Fraction": Fraction(3, 2), "Decimal": decimal.Decimal("2.5")}

    class Spy(Mapper):
        def __init__(self):
            self.log = []

        def map_constant(self, e, *a, **kw):
            self.log.append(("constant", e, a, tuple(sorted(kw.items()))))
            return ("const", e)

        def map_variable(self, e, *a, **kw):
            return ("var", e.name)

        def map_sum(self, e, *a, **kw):
            return ("sum", tuple(self.rec(c, *a, **kw) for c in e.children))

        def map_call(self, e, *a, **kw):
            return ("call", tuple(self.rec(c, *a, **kw) for c in e.parameters))

    class Vis(WalkMapper):
        def __init__(self):
            self.seen = []

        def visit(self, e, *a, **kw):
            self.seen.append(e)
            return True

    class Consts(Collector):
        def map_constant(self, e, *a, **kw):
            return {e}

    def phase(registered):
        for cname, o in objs.items():
            reg = cname in registered
            forms = {"bare": o, "in-sum": p.Sum((x, o)), "in-call": p.Call(p.Variable("f"), (o, x))}
            for fname, e in forms.items():
                for via in ("call", "rec"):
                    m = Spy()
                    r = outcome.run(lambda: (m(e, 7, k=1) if via == "call" else m.rec(e, 7, k=1)))
                    b.case(("spy", tuple(sorted(registered)), cname, fname, via), sample=dict(registered=sorted(registered), cls=cname, form=fname, via=via))
                    hit = [t for t in m.log if t[1] is o]
                    if reg:
                        ok = r[0] == "val" and len(hit) == 1 and hit[0][2] == (7,) and hit[0][3] == (("k", 1),)
                    else:
                        ok = r[0] == "exc" and issubclass(r[1], ValueError) and not hit
                    if not ok:
                        b.fail(Failure("registered-constant-dispatch", f"what=spy registered={sorted(registered)} cls={cname} form={fname} via={via}",
                                       dict(kind="regdispatch", registered=sorted(registered), cls=cname, form=fname, via=via),
                                       expected="map_constant(obj, 7, k=1) exactly once" if reg else "ValueError, no handler reached", actual=f"{outcome.describe(r)[:120]} log={m.log!r}"[:250],
                                       functions=["Mapper.map_foreign"]))
                r = outcome.run(lambda: IdentityMapper()(e))
                b.case(("ident", tuple(sorted(registered)), cname, fname))
                ok = (r[0] == "val" and (r[1] is e)) if reg else (r[0] == "exc" and issubclass(r[1], ValueError))
                if not ok:
                    b.fail(Failure("registered-constant-dispatch", f"what=identity registered={sorted(registered)} cls={cname} form={fname}",
                                   dict(kind="regdispatch", registered=sorted(registered), cls=cname, form=fname, via="identity"), expected="the very object" if reg else "ValueError",
                                   actual=outcome.describe(r)[:200], functions=["Mapper.map_foreign", "IdentityMapper.map_constant"]))
                v = Vis()
                r = outcome.run(lambda: v(e))
                b.case(("walk", tuple(sorted(registered)), cname, fname))
                ok = (r[0] == "val" and any(s_ is o for s_ in v.seen)) if reg else (r[0] == "exc" and issubclass(r[1], ValueError))
                if not ok:
                    b.fail(Failure("registered-constant-dispatch", f"what=walk registered={sorted(registered)} cls={cname} form={fname}",
                                   dict(kind="regdispatch", registered=sorted(registered), cls=cname, form=fname, via="walk"), expected="visited" if reg else "ValueError",
                                   actual=f"{outcome.describe(r)[:120]} seen={v.seen!r}"[:250], functions=["Mapper.map_foreign", "WalkMapper.map_constant"]))
                r = outcome.run(lambda: Consts()(e))
                b.case(("collect", tuple(sorted(registered)), cname, fname))
                ok = (r[0] == "val" and o in r[1]) if reg else (r[0] == "exc" and issubclass(r[1], ValueError))
                if not ok:
                    b.fail(Failure("registered-constant-dispatch", f"what=collect registered={sorted(registered)} cls={cname} form={fname}",
                                   dict(kind="regdispatch", registered=sorted(registered), cls=cname, form=fname, via="collect"), expected="folded in" if reg else "ValueError",
                                   actual=outcome.describe(r)[:200], functions=["Mapper.map_foreign", "Collector"]))
    phase(set())
    p.register_constant_class(Fraction)
    try:
        phase({"Fraction"})
        p.register_constant_class(decimal.Decimal)
        try:
            phase({"Fraction", "Decimal"})
        finally:
            p.unregister_constant_class(decimal.Decimal)
        phase({"Fraction"})
    finally:
        p.unregister_constant_class(Fraction)
    phase(set())
    return b


def bounded(tier, seed, procs):
    return [b_walk(tier), b_identity(tier), b_combine(tier), b_dispatch(tier), b_unhandled(tier), b_callback(tier), b_collector_histories(tier), b_registered_constants(tier), b_warnings_as_errors(tier)]


def b_warnings_as_errors(tier):
    """The stock traversals of well-formed trees under `-W error`: they go through no deprecated path of the library itself."""
    import warnings as _w
    import pymbolic.primitives as p
    from immutabledict import immutabledict
    from pymbolic.mapper import Collector, IdentityMapper, WalkMapper
    from pymbolic.mapper.dependency import DependencyMapper
    b = BoundedRun("warnings-as-errors", rule="with every warning turned into an error: IdentityMapper, an identity mapper renaming one variable (so that every node above it is rebuilt), "
                   "WalkMapper and DependencyMapper on the depth-1 trees of every node class and on calls with keyword arguments, wrappers, derivatives, substitutions: the result "
                   "they give without the filter, no warning raised (the trees themselves are built outside the filter)", bound="~480 trees x 4 mappers",
                   functions=["IdentityMapper.map_*", "WalkMapper.map_*", "Collector.map_*"])
    x, y, f = trees.X, trees.Y, trees.F

    class Ren(IdentityMapper):
        def map_variable(self, e, *a, **k):
            return p.Variable(e.name + "_r") if e.name == "x" else e
    with _w.catch_warnings():
        _w.simplefilter("ignore")
        dom = trees.depth1(trees.ALL_EVAL + [p.Slice], [x, y, 2, -1]) + [
            p.CallWithKwargs(f, (y,), immutabledict({"k": x})), p.CallWithKwargs(f, (x,), immutabledict({"k": y, "l": 2})), p.CallWithKwargs(x, (), immutabledict({"k": y})),
            p.CommonSubexpression(p.Sum((x, 1)), "p"), p.CommonSubexpression(p.Product((x, y)), None, p.cse_scope.GLOBAL), p.Derivative(p.Sum((x, y)), ("x",)), p.Substitution(x, ("x",), (y,)),
            p.Sum((p.CallWithKwargs(f, (1,), immutabledict({"k": p.Product((x, 2))})), y))]
    for e in dom:
        for name, mk in (("IdentityMapper", IdentityMapper), ("renaming", Ren), ("WalkMapper", WalkMapper), ("DependencyMapper", DependencyMapper)):
            with _w.catch_warnings():
                _w.simplefilter("ignore")
                ref = outcome.run(lambda: mk()(e))
            with _w.catch_warnings():
                _w.simplefilter("error")
                try:
                    got = ("val", mk()(e))
                except Warning as w_:
                    got = ("exc", type(w_), (str(w_)[:100],))
                except Exception as ex:  # noqa: BLE001
                    got = ("exc", type(ex), ex.args)
            b.case((name, repr(e)), sample=dict(mapper=name, expr=repr(e)[:80]))
            if got[0] != ref[0] or (got[0] == "val" and got[1] != ref[1]) or (got[0] == "exc" and got[1] is not ref[1]):
                b.fail(Failure("warnings-as-errors", f"mapper={name} root={type(e).__name__} expr={e!r}"[:300], dict(kind="werror", mapper=name, expr=repr(e)), expected=outcome.describe(ref)[:120],
                               actual=outcome.describe(got)[:160], functions=[f"{name}.{getattr(type(e), 'mapper_method', 'map_foreign')}"]))
    return b


def b_callback(tier):
    """CallbackMapper: every node type it lists goes to the user function with (node, mapper, *args, **kwargs); the fallback mapper's rec is the callback's."""
    import pymbolic.primitives as p
    from pymbolic.mapper import CallbackMapper, IdentityMapper
    b = BoundedRun("callback-mapper", rule="CallbackMapper(f, IdentityMapper()) on one instance of every node class, numbers, lists, tuples x 2 argument tuples: f is called exactly "
                   "once with (the node, the callback mapper, the extra arguments) and its result is returned; a function that delegates to the fallback mapper gets an equal "
                   "tree back and is called for every node of the tree (the fallback's rec is the callback's)", bound="one instance per class x 2 argument tuples + 30 trees",
                   functions=["CallbackMapper.map_*", "CallbackMapper.__init__"])
    import warnings as _w
    insts = []
    for k in classes():
        try:
            with _w.catch_warnings():
                _w.simplefilter("ignore")
                insts.append(trees.build(k, [trees.X, trees.Y, 2][:trees.ARITY.get(k, 0)]))
        except Exception:   # noqa: BLE001
            continue
    insts += [3, 2.5, [trees.X, 1], (trees.X, trees.Y)]
    for e in insts:
        for a, kw in (((), {}), ((1, "two"), {"k": 3})):
            calls = []

            def f(expr, mapper, *aa, **kk):
                calls.append((expr, mapper, aa, kk))
                return ("result", len(calls))
            cm = CallbackMapper(f, IdentityMapper())
            r = outcome.run(lambda: cm(e, *a, **kw))
            b.case(("cb", type(e).__name__, repr(a)), sample=dict(cls=type(e).__name__))
            handled = hasattr(CallbackMapper, getattr(type(e), "mapper_method", "map_constant")) or not isinstance(e, p.Expression)
            if not handled:
                ok = r[0] == "exc"
            else:
                ok = r == ("val", ("result", 1)) and len(calls) == 1 and calls[0][0] is e and calls[0][1] is cm and calls[0][2] == a and calls[0][3] == kw
            if not ok:
                b.fail(Failure("callback-mapper", f"mode=direct cls={type(e).__name__} args={a}", dict(kind="callback", cls=type(e).__name__), expected="f(node, mapper, *args, **kwargs) once",
                               actual=f"{outcome.describe(r)} calls={len(calls)}"[:200], functions=["CallbackMapper.map_*"]))
    # delegation to the fallback mapper
    x, y = trees.X, trees.Y
    sample = [p.Sum((x, p.Product((y, 2)))), p.Quotient(p.Sum((x, 1)), p.Power(y, 2)), p.Call(trees.F, (p.Sum((x, y)), 3)), p.If(p.Comparison(x, "<", y), x, p.Sum((y, 1))),
              p.Subscript(trees.A, p.Sum((x, 1))), p.Sum((x, x, p.Product((x, y))))]
    for e in sample:
        seen = []

        def g(expr, mapper):
            seen.append(expr)
            if isinstance(expr, p.Variable) and expr.name == "x":
                return p.Variable("renamed")
            return getattr(mapper.fallback_mapper, getattr(type(expr), "mapper_method", "map_constant") if isinstance(expr, p.Expression) else "map_constant")(expr)
        cm = CallbackMapper(g, IdentityMapper())
        r = outcome.run(lambda: cm(e))
        b.case(("cb-deleg", repr(e)))
        want = ref_rename_x(e)
        n_nodes = count_nodes(e)
        if not (r[0] == "val" and r[1] == want and len(seen) == n_nodes):
            b.fail(Failure("callback-mapper", f"mode=delegate expr={e!r}", dict(kind="callback-deleg", expr=repr(e)), expected=f"{want!r} with {n_nodes} callbacks",
                           actual=f"{outcome.describe(r)[:120]} callbacks={len(seen)}", functions=["CallbackMapper.__init__", "CallbackMapper.map_*"]))
    return b


def ref_rename_x(e):
    import pymbolic.primitives as p
    if isinstance(e, p.Variable):
        return p.Variable("renamed") if e.name == "x" else e
    if isinstance(e, p.Expression):
        return api.map_children(e, ref_rename_x)
    if isinstance(e, tuple):
        return tuple(ref_rename_x(c) for c in e)
    return e


def count_nodes(e):
    import pymbolic.primitives as p
    if isinstance(e, p.Expression):
        return 1 + sum(count_nodes(c) for c in api.children(e) if c is not None)
    if isinstance(e, (tuple, list)):
        return sum(count_nodes(c) for c in e)
    return 1


def replay(case):
    kind = case.get("kind")
    table = {"walk": b_walk, "identity": b_identity, "combine": b_combine, "unhandled": b_unhandled, "collector-history": b_collector_histories, "regdispatch": b_registered_constants}
    f = table.get(kind, b_dispatch)
    b = f("quick")
    return any(x.case == case for x in b.failures)

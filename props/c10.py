"""C10  Symbolic differentiation yields the true derivative."""
from __future__ import annotations

import itertools
import math
from fractions import Fraction

from contracts import c10 as K
from harness import outcome
from harness.runner import BoundedRun, Failure

LEVEL = "proof"
SPECS = []
EXPLANATION = (
    "Each rule of DifferentiationMapper is proved, as a polynomial identity over the reals, to build a tree whose value is "
    "the textbook derivative given the induction hypothesis that self.rec(child) has the value of the child's derivative: "
    "quotient rule (all four short-cut branches), power rule (constant exponent, constant base and the general branch, with "
    "the power laws x**y * x = x**(y+1), x**0 = 1, x**1 = x on the domain), sum, product and chain rule for every arity "
    "0..3 with arbitrary operands, d v/d v = 1 and 0 for every other (subscripted) variable, constants, conditionals "
    "(branch-wise when discontinuities are allowed, refused otherwise), CSE wrapping.  Every entry of the derivative table "
    "map_math_functions_by_name is proved against a table written from calculus for all three non-smoothness settings "
    "(fabs / copysign refusals, unknown functions refused).  By structural induction differentiate is correct on the "
    "fragment.  Bounded part: enumerated expressions x variables (occurring, non-occurring, subscripted) x flags x rational "
    "points against an independent dual-number evaluation; repeated differentiation in one process (cache histories); the "
    "spec table itself against central differences of the math module.")
ASSUMPTIONS = [
    "real arithmetic is mathematical (A-FLOAT: no floating point reasoning); power laws assumed on the domain (positive base or integer exponent)",
    "flattened_sum / flattened_product: callee contract 'value = sum / product of the values of the terms' (the loops are proved in C11 in an abstract commutative monoid)",
    "primitives.quotient: assumed contract 'value = numerator / denominator' (bounded validation in C19)",
    "Expression.__eq__ is structural equality (C01); M-IND; dispatcher contract (C04); CSE cache contract (C05)",
    "n-ary rules are proved per arity 0..3 (stated bound on the arity, arbitrary operands); larger arities are bounded only",
    "calculus facts in TABLE_SPEC (sin' = cos, ...) are trusted mathematics, cross-checked numerically by the bounded check table-numeric",
]
TRUSTED_BASE = ["z3 nonlinear real arithmetic (nlsat)"]


def proof_jobs(tier):
    import pymbolic.primitives as p
    jobs = [("mapper", mc, getattr(p, k, k), K.hooks) for mc, k in K.MAPPER_JOBS]
    jobs += [("function", fc, None, K.hooks) for fc in K.TABLE]
    return jobs


# ----------------------------------------------------------------------------- bounded: independent forward mode
class Dual:
    __slots__ = ("v", "d")

    def __init__(self, v, d=0):
        self.v, self.d = v, d


def _lift(x):
    return x if isinstance(x, Dual) else Dual(x, 0)


class Undefined(Exception):
    """The input expression has no (real, finite) value / derivative at the point."""


def _fun(name, args):
    if name in ("fabs",):
        (a,) = args
        if a.v == 0:
            raise Undefined
        return Dual(abs(a.v), (1 if a.v > 0 else -1) * a.d)
    if name == "copysign":
        a, b = args
        if a.v == 0 or b.v == 0:
            raise Undefined
        s = (1 if a.v > 0 else -1) * (1 if b.v > 0 else -1)
        return Dual(math.copysign(a.v, b.v), s * a.d)
    (a,) = args
    x = float(a.v)
    try:
        if name == "sin":
            return Dual(math.sin(x), math.cos(x) * a.d)
        if name == "cos":
            return Dual(math.cos(x), -math.sin(x) * a.d)
        if name == "tan":
            return Dual(math.tan(x), a.d / math.cos(x) ** 2)
        if name == "log":
            if x <= 0:
                raise Undefined
            return Dual(math.log(x), a.d / a.v)
        if name == "exp":
            return Dual(math.exp(x), math.exp(x) * a.d)
        if name == "sinh":
            return Dual(math.sinh(x), math.cosh(x) * a.d)
        if name == "cosh":
            return Dual(math.cosh(x), math.sinh(x) * a.d)
        if name == "tanh":
            return Dual(math.tanh(x), a.d / math.cosh(x) ** 2)
        if name == "expm1":
            return Dual(math.expm1(x), math.exp(x) * a.d)
    except (OverflowError, ValueError):
        raise Undefined from None
    raise Undefined


def dual_eval(e, env, wrt):
    """Value and partial derivative w.r.t. `wrt` (a Variable or Subscript node), independent of the differentiator."""
    import pymbolic.primitives as p
    if isinstance(e, (p.Variable, p.Subscript)) and e == wrt:
        return Dual(_plain(e, env), 1)
    if isinstance(e, p.Variable):
        return Dual(env[e.name], 0)
    if isinstance(e, p.Subscript):
        return Dual(_plain(e, env), 0)
    if not isinstance(e, p.Expression):
        return Dual(e, 0)
    if isinstance(e, p.Sum):
        v, d = 0, 0
        for c in e.children:
            c = dual_eval(c, env, wrt)
            v, d = v + c.v, d + c.d
        return Dual(v, d)
    if isinstance(e, p.Product):
        v, d = 1, 0
        for c in e.children:
            c = dual_eval(c, env, wrt)
            v, d = v * c.v, d * c.v + v * c.d
        return Dual(v, d)
    if isinstance(e, p.Quotient):
        a, b = dual_eval(e.numerator, env, wrt), dual_eval(e.denominator, env, wrt)
        if b.v == 0:
            raise Undefined
        return Dual(_div(a.v, b.v), _div(a.d * b.v - a.v * b.d, b.v * b.v))
    if isinstance(e, p.Power):
        a, b = dual_eval(e.base, env, wrt), dual_eval(e.exponent, env, wrt)
        if b.d == 0 and isinstance(b.v, int):
            if a.v == 0 and b.v <= 0:
                raise Undefined
            if a.v == 0 and b.v - 1 < 0:
                raise Undefined
            return Dual(_pow(a.v, b.v), b.v * _pow(a.v, b.v - 1) * a.d)
        if a.v <= 0:
            raise Undefined
        try:
            val = float(a.v) ** float(b.v)
        except OverflowError:
            raise Undefined from None
        return Dual(val, val * (b.d * math.log(a.v) + b.v * a.d / a.v))
    if isinstance(e, p.Call):
        if not (isinstance(e.function, p.Lookup) and e.function.aggregate == p.Variable("math")):
            raise Undefined
        return _fun(e.function.name, [_lift(dual_eval(c, env, wrt)) for c in e.parameters])
    if isinstance(e, p.If):
        c = _plain(e.condition, env)
        return dual_eval(e.then if c else e.else_, env, wrt)
    if isinstance(e, p.CommonSubexpression):
        return dual_eval(e.child, env, wrt)
    from pymbolic.polynomial import Polynomial
    if isinstance(e, Polynomial):
        # sum of coeff * base**exp with non-negative integer exponents
        bse = dual_eval(e.Base, env, wrt)
        v, d = 0, 0
        for ex_, coeff in e.Data:
            c = dual_eval(coeff, env, wrt)
            pw = _pow(bse.v, ex_) if ex_ else 1
            dpw = ex_ * (_pow(bse.v, ex_ - 1) if ex_ > 1 else 1) * bse.d if ex_ else 0
            v, d = v + c.v * pw, d + c.d * pw + c.v * dpw
        return Dual(v, d)
    raise KeyError(type(e).__name__)


def _div(a, b):
    if isinstance(a, int) and isinstance(b, int):
        return Fraction(a, b)
    return a / b


def _pow(a, n):
    if n < 0 and isinstance(a, int):
        return Fraction(a) ** n
    return a ** n


def _plain(e, env):
    import pymbolic.primitives as p
    if isinstance(e, p.Variable):
        return env[e.name]
    if isinstance(e, p.Subscript):
        return env[e.aggregate.name][e.index]
    if isinstance(e, p.Comparison):
        import operator
        ops = {"<": operator.lt, ">": operator.gt, "<=": operator.le, ">=": operator.ge, "==": operator.eq, "!=": operator.ne}
        return ops[e.operator](dual_eval(e.left, env, None).v, dual_eval(e.right, env, None).v)
    return dual_eval(e, env, None).v


def close(a, b):
    exact = (int, Fraction)
    if isinstance(a, exact) and isinstance(b, exact) and not isinstance(a, bool):
        return a == b
    try:
        a, b = float(a), float(b)
    except (TypeError, ValueError, OverflowError):
        return False
    if math.isnan(a) or math.isnan(b):
        return False
    return abs(a - b) <= 1e-7 * (1 + abs(a) + abs(b))


def _level(e):
    import pymbolic.primitives as p
    lv = 0
    if isinstance(e, p.Call):
        n = e.function.name if isinstance(e.function, p.Lookup) and e.function.aggregate == p.Variable("math") else None
        lv = {"fabs": 1, "copysign": 2}.get(n, 0 if n in ("sin", "cos", "tan", "log", "exp", "sinh", "cosh", "tanh", "expm1") else 3)
        kids = e.parameters
    elif isinstance(e, p.If):
        lv, kids = 2, (e.then, e.else_)
    elif isinstance(e, (p.Sum, p.Product)):
        kids = e.children
    elif isinstance(e, p.Quotient):
        kids = (e.numerator, e.denominator)
    elif isinstance(e, p.Power):
        kids = (e.base, e.exponent)
    elif isinstance(e, p.CommonSubexpression):
        kids = (e.child,)
    else:
        kids = ()
    for k in kids:
        lv = max(lv, _level(k))
    return lv


def gen_exprs(tier, rng):
    import pymbolic.primitives as p
    import pymbolic.functions as pf
    x, y, a = p.Variable("x"), p.Variable("y"), p.Variable("a")
    a0, a1 = p.Subscript(a, 0), p.Subscript(a, 1)
    leaves = [x, y, a0, a1, 2, -3, 1, 0]
    level1 = []
    for u, v in itertools.product(leaves, repeat=2):
        if isinstance(u, int) and isinstance(v, int):
            continue
        level1 += [p.Sum((u, v)), p.Product((u, v)), p.Power(u, v)]
        if v != 0:      # u/0 denotes no function: outside the differentiable fragment
            level1.append(p.Quotient(u, v))
    for u in leaves[:4]:
        for n in (0, 1, 2, 3, -1, -2):
            level1.append(p.Power(u, n))
        for f in (pf.sin, pf.cos, pf.tan, pf.log, pf.exp, pf.sinh, pf.cosh, pf.tanh, pf.expm1, pf.fabs, pf.sign):
            level1.append(f(u))
        level1.append(p.Call(p.Lookup(p.Variable("math"), "copysign"), (u, y)))
        level1.append(p.Call(p.Lookup(p.Variable("math"), "copysign"), (2, u)))
        level1.append(p.Call(p.Lookup(p.Variable("math"), "gamma"), (u,)))
        level1.append(p.Call(p.Variable("f"), (u,)))
    # table functions of constants (integer, float, Fraction-free), as factors, summands and exponents
    for f in (pf.sin, pf.cos, pf.tan, pf.log, pf.exp, pf.sinh, pf.cosh, pf.tanh, pf.expm1):
        for cst in (2, 1.5):      # small arguments: exp(7) as an exponent overflows double precision, which says nothing about the derivative
            level1 += [p.Product((f(cst), x)), p.Sum((f(cst), p.Product((x, x)))), p.Power(x, f(cst)), f(cst), p.Product((x, f(p.Product((cst, y)))))]
    # polynomial nodes: numeric and symbolic coefficients, variable / composite bases, the differentiation variable in base, coefficients, both, neither
    from pymbolic.polynomial import Polynomial
    level1 += [Polynomial(x, ((0, 1), (2, 3))), Polynomial(x, ((1, y), (3, 2))), Polynomial(p.Sum((x, 1)), ((2, 1),)), Polynomial(y, ((0, x), (2, p.Product((x, x))))),
               Polynomial(y, ((1, 2), (4, -1))), Polynomial(x, ((0, a0), (1, x), (2, y))), p.Product((2, Polynomial(x, ((3, 1),)))), p.Sum((Polynomial(a0, ((1, x), (2, 3))), y))]
    # powers of powers with constant exponents of which the outer one is not an integer (|x| = (x**2)**0.5 and relatives: the inner power is positive where
    # the base is negative), and non-integer constant exponents in general
    sq = p.Power(x, 2)
    level1 += [p.Power(sq, 0.5), p.Power(sq, 1.5), p.Power(p.Power(x, 4), 0.25), p.Power(p.Power(p.Sum((x, y)), 2), 0.5), p.Product((p.Power(sq, 0.5), y)),
               p.Quotient(y, p.Power(p.Power(p.Sum((x, 1)), 2), 0.5)), p.Power(p.Power(x, 2), p.Quotient(1, 2)), p.Power(p.Sum((sq, 1)), 0.5), p.Power(p.Sum((sq, 1)), -1.5),
               p.Power(p.Power(p.Sum((sq, 1)), 3), 0.5), p.Power(p.Power(x, -2), 0.5), p.Sum((p.Power(sq, 0.5), p.Power(p.Power(y, 2), 0.5)))]
    level1 += [p.Sum((x, y, a0)), p.Product((x, y, a0)), p.Product((x, x, x, y)), p.Sum(()), p.Product(()), p.Sum((x,)), p.Product((y,)),
               p.Sum((x, 2, y, a1, x)), p.Product((2, x, y, a1, x))]
    out = list(level1)
    # depth 2/3: seeded sample of compositions (reported as such)
    n2 = 900 if tier == "thorough" else 250
    # Polynomial objects are a legacy arithmetic type with operators of their own (integer powers only, exact division or an error): they are differentiated where they
    # stand in level1 (alone, in a sum, in a product), and kept out of the random compositions, whose rules build f**g, f/g**2, ... with the operators
    pool = [e_ for e_ in level1 if not _has_polynomial(e_)] + leaves[:4]
    for _ in range(n2):
        k = rng.choice(["sum", "prod", "quot", "pow", "powc", "call", "if", "cse", "cse2"])
        u, v, w = rng.choice(pool), rng.choice(pool), rng.choice(pool)
        if k == "sum":
            out.append(p.Sum((u, v, w)))
        elif k == "prod":
            out.append(p.Product((u, v, w)))
        elif k == "quot":
            out.append(p.Quotient(u, v))
        elif k == "pow":
            if _has_polynomial(u):
                continue        # Polynomial objects define ** for integer exponents only (legacy arithmetic type): the power rule's f**(g-1) is outside the statement's fragment
            out.append(p.Power(u, v))
        elif k == "powc":
            ex_ = rng.choice([2, 3, -1])
            if _has_polynomial(u) and ex_ < 0:
                continue        # as above: no negative powers of Polynomial objects
            out.append(p.Power(u, ex_))
        elif k == "call":
            f = rng.choice([pf.sin, pf.cos, pf.tan, pf.log, pf.exp, pf.sinh, pf.cosh, pf.tanh, pf.expm1, pf.fabs])
            out.append(f(u))
        elif k == "if":
            out.append(p.If(p.Comparison(u, rng.choice(["<", ">="]), v), v, w))
        elif k == "cse":
            c = p.CommonSubexpression(u)
            out.append(p.Sum((p.Product((c, v)), c)))
        else:
            c = p.CommonSubexpression(p.Product((u, v)), "pre")
            out.append(p.Quotient(c, p.Sum((c, w, 5))))
    return out


def _has_polynomial(e):
    import dataclasses
    import pymbolic.primitives as p
    from pymbolic.polynomial import Polynomial
    if isinstance(e, Polynomial):
        return True
    if isinstance(e, p.Expression) and dataclasses.is_dataclass(e):
        return any(_has_polynomial(getattr(e, f.name)) for f in dataclasses.fields(e))
    if isinstance(e, tuple):
        return any(_has_polynomial(c) for c in e)
    return False


POINTS = [dict(x=Fraction(3, 2), y=Fraction(2), a=[Fraction(1, 3), Fraction(5, 2)]),
          dict(x=Fraction(-2, 3), y=Fraction(5, 4), a=[Fraction(-7, 2), Fraction(1, 5)]),
          dict(x=2, y=-3, a=[-1, 4]),
          dict(x=Fraction(1, 7), y=Fraction(-1, 2), a=[Fraction(9, 4), Fraction(-3, 8)])]


def b_dual(tier, seed):
    import random
    import pymbolic.primitives as p
    from pymbolic import differentiate, evaluate
    from pymbolic.mapper.differentiator import DifferentiationMapper
    b = BoundedRun("dual-numbers", rule="for every enumerated expression e (all depth-1 combinations of Sum/Product/Quotient/Power over x, y, a[0], a[1] and integer "
                   "constants, powers with integer exponents in {-2..3}, every table function, copysign in both arguments, n-ary sums/products incl. empty and "
                   "repeated factors; plus a seeded sample of depth-2/3 compositions with If and CSE nodes), every differentiation variable in {x, y, z (not "
                   "occurring), a[0], a[1], a[2] (not occurring)} given as node or as string, every flag in {none, continuous, discontinuous}: if the flag is below the "
                   "non-smoothness of e the call must raise ValueError (RuntimeError for unknown functions); otherwise evaluate(differentiate(e, v), point) must equal "
                   "the derivative computed by an independent forward-mode evaluation at 4 rational points (exact comparison when the values are exact, relative 1e-7 "
                   "otherwise); points where e itself is undefined / not differentiable are skipped; the same expression objects are differentiated repeatedly in one "
                   "process (cache histories)", bound="~650 depth-1 expressions exhaustive + 250 (quick) / 900 (thorough) seeded compositions; 6 variables x 3 flags x 4 points",
                   functions=["differentiate", "DifferentiationMapper.map_*", "map_math_functions_by_name", "CSECachingMapperMixin.map_common_subexpression"])
    rng = random.Random(seed)
    exprs = gen_exprs(tier, rng)
    b.exhaustive = False
    x, y, z, a = (p.Variable(n) for n in "xyza")
    wrts = [x, y, z, p.Subscript(a, 0), p.Subscript(a, 1), p.Subscript(a, 2), "x", "y"]
    flags = ["none", "continuous", "discontinuous"]
    envs = [dict(pt, z=Fraction(4, 9), math=math, log=math.log) for pt in POINTS]
    for pt in envs:
        pt["a"] = list(pt["a"]) + [Fraction(6)]
    # polynomial nodes alone are also evaluated where their base is 0 (every term of the derivative must be defined there)
    zero_env = dict(x=0, y=0, z=Fraction(4, 9), a=[0, Fraction(1, 2), Fraction(6)], math=math, log=math.log)
    for ei, e in enumerate(exprs):
        lv = _level(e)
        from pymbolic.polynomial import Polynomial as _Poly
        envs = envs[:4] + ([zero_env, dict(zero_env, y=Fraction(3, 2))] if isinstance(e, _Poly) and not isinstance(e.base, p.Sum) else [])
        for wrt in (wrts if ei % 3 == 0 or tier == "thorough" else wrts[:5]):
            wnode = p.Variable(wrt) if isinstance(wrt, str) else wrt
            for flag in flags:
                r = outcome.run(lambda: differentiate(e, wrt, allowed_nonsmoothness=flag))
                need = {0: 0, 1: 1, 2: 2, 3: 3}[lv]
                have = flags.index(flag)
                b.case((repr(e), repr(wrt), flag))
                if need == 3 or have < need:
                    # must be refused unless the non-smooth part is never differentiated (its factor's derivative is never needed): the
                    # mapper visits every child, so refusal is unconditional
                    ok = r[0] == "exc" and issubclass(r[1], (ValueError, RuntimeError))
                    if not ok:
                        b.fail(Failure("dual-numbers", f"what=not-refused flag={flag} expr={e!r} wrt={wrt!r}", dict(kind="refuse", expr=repr(e), wrt=repr(wrt), flag=flag),
                                       expected="ValueError / RuntimeError", actual=outcome.describe(r)[:200], functions=["DifferentiationMapper", "map_math_functions_by_name"]))
                    continue
                if r[0] != "val":
                    if not _defined_somewhere(e, envs, wnode):
                        continue            # e denotes no function at all (e.g. x/0): nothing to differentiate
                    b.fail(Failure("dual-numbers", f"what=raised flag={flag} expr={e!r} wrt={wrt!r}", dict(kind="raise", expr=repr(e), wrt=repr(wrt), flag=flag),
                                   expected="a derivative", actual=outcome.describe(r)[:200], functions=["DifferentiationMapper"]))
                    continue
                for pi, env in enumerate(envs):
                    try:
                        ref = dual_eval(e, env, wnode)
                    except (Undefined, ZeroDivisionError, OverflowError):
                        continue
                    if isinstance(ref.d, complex) or isinstance(ref.v, complex):
                        continue
                    got = outcome.run(lambda: evaluate(r[1], env))
                    cause = ""
                    if _has_copysign_first(e, wnode):
                        cause = " cause=copysign-first-argument"
                    if got[0] == "val" and close(got[1], ref.d) and isinstance(ref.d, (int, Fraction)) and isinstance(got[1], float) \
                            and _has_float(r[1]) and not _has_float(e):
                        # numerically right, but the differentiator itself put a float approximation of an exact rational into the tree
                        b.fail(Failure("dual-numbers", f"what=inexact-derivative cause=integer-quotient-as-float expr={e!r} wrt={wrt!r} flag={flag} point={pi}",
                                       dict(kind="value", expr=repr(e), wrt=repr(wrt), flag=flag, point=pi), expected=repr(ref.d),
                                       actual=f"{got[1]!r} from {r[1]!r}"[:200], functions=["DifferentiationMapper.map_quotient"]))
                        break
                    if got[0] != "val" or not close(got[1], ref.d):
                        if got[0] == "exc" and issubclass(got[1], (ZeroDivisionError, OverflowError, ValueError)) and _edge(e, env):
                            continue
                        b.fail(Failure("dual-numbers", f"what=wrong-derivative{cause} expr={e!r} wrt={wrt!r} flag={flag} point={pi}",
                                       dict(kind="value", expr=repr(e), wrt=repr(wrt), flag=flag, point=pi), expected=repr(ref.d),
                                       actual=outcome.describe(got)[:200], functions=["DifferentiationMapper", "map_math_functions_by_name"]))
    # histories on one mapper object: the same instance is reused for several expressions sharing CSE nodes
    cs = p.CommonSubexpression(p.Product((x, y)))
    for wrt in (x, y, z):
        m = DifferentiationMapper(wrt)
        for e in (p.Sum((cs, x)), p.Product((cs, cs)), p.Quotient(cs, p.Sum((y, 3)))):
            r = outcome.run(lambda: m(e))
            b.case(("hist", repr(e), repr(wrt)))
            for pi, env in enumerate(envs):
                try:
                    ref = dual_eval(e, env, wrt)
                except (Undefined, ZeroDivisionError):
                    continue
                got = outcome.run(lambda: evaluate(r[1], env)) if r[0] == "val" else r
                if got[0] != "val" or not close(got[1], ref.d):
                    b.fail(Failure("dual-numbers", f"what=history expr={e!r} wrt={wrt!r} point={pi}", dict(kind="hist", expr=repr(e), wrt=repr(wrt), point=pi),
                                   expected=repr(ref.d), actual=outcome.describe(got)[:200], functions=["CSECachingMapperMixin.map_common_subexpression"]))
    return b


def _has_float(e):
    from props.c06 import all_nodes
    return any(isinstance(n, float) for n in all_nodes(e))


def _defined_somewhere(e, envs, wnode):
    for env in envs:
        try:
            dual_eval(e, env, wnode)
            return True
        except (Undefined, ZeroDivisionError, OverflowError):
            pass
    return False


def _has_copysign_first(e, wrt):
    """e contains copysign(u, v) with u depending on wrt (the table returns 0 for d/du: known finding)."""
    import pymbolic.primitives as p
    found = False

    def occurs(n):
        if n == wrt:
            return True
        if isinstance(n, p.Expression):
            import dataclasses
            for f in (dataclasses.fields(n) if dataclasses.is_dataclass(n) else ()):
                v = getattr(n, f.name)
                if any(occurs(c) for c in (v if isinstance(v, tuple) else (v,))):
                    return True
        return False

    def walk(n):
        nonlocal found
        if isinstance(n, p.Call) and isinstance(n.function, p.Lookup) and n.function.name == "copysign" and len(n.parameters) == 2:
            if occurs(n.parameters[0]):
                found = True
        if isinstance(n, p.Expression):
            import dataclasses
            for f in (dataclasses.fields(n) if dataclasses.is_dataclass(n) else ()):
                v = getattr(n, f.name)
                for c in (v if isinstance(v, tuple) else (v,)):
                    walk(c)
    walk(e)
    return found


def _edge(e, env):
    """True if the failure to evaluate the derivative is a genuine domain edge of the rule used (log of a non-positive base in the
    general power rule, 0 ** negative): the property speaks of points of the domain of the derivative expression's ingredients."""
    import pymbolic.primitives as p
    edge = False

    def walk(n):
        nonlocal edge
        if isinstance(n, p.Power):
            try:
                bv = _plain(n.base, env)
                if bv <= 0:
                    edge = True
            except Exception:       # noqa: BLE001
                edge = True
        if isinstance(n, p.Expression):
            import dataclasses
            for f in (dataclasses.fields(n) if dataclasses.is_dataclass(n) else ()):
                v = getattr(n, f.name)
                for c in (v if isinstance(v, tuple) else (v,)):
                    walk(c)
    walk(e)
    return edge


def b_table(tier):
    """The trusted calculus table of the contracts against central differences of the real math module."""
    b = BoundedRun("table-numeric", rule="every entry of contracts.c10.TABLE_SPEC (and log, fabs, copysign) evaluated with the real math module equals the central "
                   "difference quotient of math.<name> at 9 points (h = 1e-6, tolerance 1e-5)", bound="11 functions x 9 points", functions=["contracts.c10.TABLE_SPEC"])
    pts = [-2.5, -1.0, -0.3, 0.2, 0.7, 1.3, 2.0, 3.1, 4.4]
    for name, rule in K.TABLE_SPEC.items():
        f = getattr(math, name)
        for t in pts:
            b.case((name, t))
            want = (f(t + 1e-6) - f(t - 1e-6)) / 2e-6
            got = rule(lambda n: getattr(math, n)(t), t)
            if abs(want - got) > 1e-5 * (1 + abs(want)):
                b.fail(Failure("table-numeric", f"what=spec-table name={name} t={t}", dict(kind="table", name=name, t=t), expected=want, actual=got))
    for t in pts:
        if t > 0:
            b.case(("log", t))
            want = (math.log(t + 1e-6) - math.log(t - 1e-6)) / 2e-6
            if abs(want - 1 / t) > 1e-5 * (1 + abs(want)):
                b.fail(Failure("table-numeric", f"what=spec-table name=log t={t}", dict(kind="table", name="log", t=t), expected=want, actual=1 / t))
        b.case(("fabs", t))
        want = (math.fabs(t + 1e-6) - math.fabs(t - 1e-6)) / 2e-6
        if abs(want - math.copysign(1, t)) > 1e-5:
            b.fail(Failure("table-numeric", f"what=spec-table name=fabs t={t}", dict(kind="table", name="fabs", t=t), expected=want, actual=math.copysign(1, t)))
    return b


def b_rec_hook(tier):
    """A user subclass overriding the recursion hook `rec` to give a dependent symbol u = u(x) the derivative du: the total derivative, wherever u stands."""
    import pymbolic.primitives as p
    import pymbolic.functions as pf
    from pymbolic import evaluate
    from pymbolic.mapper import CallbackMapper
    from pymbolic.mapper.differentiator import DifferentiationMapper
    b = BoundedRun("rec-hook", rule="DifferentiationMapper subclasses whose rec() returns du for the variable u (and the library's CallbackMapper installing such a callback): for u as a "
                   "factor, a term, a base, an exponent, a numerator, a denominator, a call argument, inside a wrapper, the result evaluates to d/dx e + d/du e * du (both partial "
                   "derivatives from the independent forward-mode evaluation) at 3 rational points", bound="16 expressions x 2 hook styles x 3 points", functions=["DifferentiationMapper.map_*", "Mapper.rec"])
    x, u, du = p.Variable("x"), p.Variable("u"), p.Variable("du")
    exprs = [p.Product((u, x)), p.Product((3, x, u)), p.Product((p.Power(x, 2), u)), p.Product((u, u)), p.Power(p.Product((u, x)), 3), p.Quotient(p.Sum((p.Product((u, x)), 1)), p.Sum((x, 2))),
             p.CommonSubexpression(p.Sum((p.Product((u, x)), 1))), pf.sin(p.Product((u, x))), p.Sum((u, x)), p.Quotient(u, x), p.Quotient(x, u), p.Power(u, 2), p.Power(x, u), p.Sum((p.Product((2, u)), p.Product((x, x, u)))),
             p.Product((p.Sum((u, 1)), p.Sum((x, u)))), pf.exp(u)]
    pts = [dict(x=Fraction(2), u=Fraction(3), du=Fraction(5)), dict(x=Fraction(1, 2), u=Fraction(3, 2), du=Fraction(-2)), dict(x=Fraction(3), u=Fraction(1, 3), du=Fraction(1, 4))]

    class Dep(DifferentiationMapper):
        def rec(self, expr, *a):
            if isinstance(expr, p.Variable) and expr.name == "u":
                return du
            return super().rec(expr, *a)

    def via_callback(e):
        dm = DifferentiationMapper(x)

        def cb(expr, mapper, *a):
            if isinstance(expr, p.Variable) and expr.name == "u":
                return du
            return mapper.fallback_mapper(expr, *a)
        return CallbackMapper(cb, dm)(e)
    for e in exprs:
        for style, fn in (("subclass", lambda: Dep(x)(e)), ("callback", lambda: via_callback(e))):
            r = outcome.run(fn)
            b.case((style, repr(e)), nontrivial=True, sample=dict(style=style, expr=repr(e)))
            if r[0] != "val":
                if style == "callback":
                    continue        # the callback style is only judged where it produces a derivative at all
                b.fail(Failure("rec-hook", f"what=raised style={style} expr={e!r}", dict(kind="rechook", style=style, expr=repr(e)), expected="a derivative", actual=outcome.describe(r)[:150], functions=["DifferentiationMapper"]))
                continue
            for pt in pts:
                env = dict(pt, math=math, log=math.log, a=[0, 0, 0])
                try:
                    dx_, du_ = dual_eval(e, env, x), dual_eval(e, env, u)
                except (Undefined, ZeroDivisionError, OverflowError):
                    continue
                want = dx_.d + du_.d * pt["du"]
                got = outcome.run(lambda: evaluate(r[1], env))
                if isinstance(want, complex) or not (got[0] == "val" and close(got[1], want)):
                    if isinstance(want, complex):
                        continue
                    b.fail(Failure("rec-hook", f"what=total-derivative style={style} expr={e!r} point={pt}"[:300], dict(kind="rechook", style=style, expr=repr(e)), expected=repr(want), actual=outcome.describe(got)[:120],
                                   functions=["DifferentiationMapper.map_product", "Mapper.rec"]))
                    break
    return b


def bounded(tier, seed, procs):
    return [b_dual(tier, seed), b_table(tier), b_rec_hook(tier)]


def replay(case):
    import pymbolic.primitives as p     # noqa: F401
    from pymbolic import differentiate, evaluate
    k = case.get("kind")
    if k in ("value", "refuse", "raise", "hist"):
        ns = {n: getattr(p, n) for n in dir(p)}
        e = eval(case["expr"], ns)
        wrt = eval(case["wrt"], ns)
        r = outcome.run(lambda: differentiate(e, wrt, allowed_nonsmoothness=case.get("flag", "none")))
        return dict(outcome=outcome.describe(r)[:300])
    return dict(note="table entries are replayed by the check itself")

"""C16  Pattern matching results are sound."""
from __future__ import annotations

import itertools
from collections import Counter

from harness import outcome, trees
from harness.runner import BoundedRun, Failure
from pyvc import api

LEVEL = "exploration"
SPECS = []
EXPLANATION = (
    "Bounded stand-in only: UnidirectionalUnifier on all (pattern, target) pairs from generated pools (sums, products, quotients, powers, "
    "calls, subscripts, comparisons, conditionals; <= 3 pattern variables incl. repeated occurrences; targets generated as instances of the "
    "pattern and independently; all candidate-name subsets): every returned record binds only declared candidates, is single-valued, binds "
    "every candidate of the pattern, and instantiating the pattern gives the target up to reordering and regrouping of sums and products "
    "(independent normal form); injective renamings of the pattern yield at least one record. matchpy bridge: to/from round trip, "
    "instantiation law for every reported match and replacement, dot/star wildcards.  The search is by an external engine / generators "
    "outside the PyVC subset.  Deductive kernel (the only proved part; the property as a whole stays at the bounded level): "
    "UnifierBase.unification_record_from_equation - the one place records are created - is proved, for every kind of left / right operand, to "
    "return None or a record holding exactly the equation (lhs, rhs) with a variable on one side, a left variable being a declared candidate, and "
    "never to refuse a candidate variable; tuples / lists are always refused.")
ASSUMPTIONS = ["matchpy (external engine) is used as is",
               "UnificationRecord(equations) stores its argument as .equations (assumed contract of the constructor; its lmap / rmap loop is outside the subset)"]
TRUSTED_BASE = ["matchpy"]


def proof_jobs(tier):
    from contracts import c16 as K
    return [("function", fc, None, None) for fc in K.FUNCTIONS]


def ac_norm(e):
    """Normal form modulo associativity/commutativity of + and * (flatten nested, sort operands), 1-tuples of subscripts unpacked."""
    import pymbolic.primitives as p
    if isinstance(e, (p.Sum, p.Product)):
        items = []
        for c in e.children:
            n = ac_norm(c)
            if isinstance(n, tuple) and n[0] == type(e).__name__:
                items.extend(n[1])
            else:
                items.append(n)
        if len(items) == 1:
            return items[0]
        return (type(e).__name__, tuple(sorted(items, key=repr)))
    if isinstance(e, (p.LogicalOr, p.LogicalAnd, p.BitwiseOr, p.BitwiseAnd, p.BitwiseXor, p.Min, p.Max)):
        return (type(e).__name__, tuple(sorted((ac_norm(c) for c in e.children), key=repr)))
    if isinstance(e, p.Subscript):
        idx = e.index
        if isinstance(idx, tuple) and len(idx) == 1:
            idx = idx[0]
        return ("Subscript", ac_norm(e.aggregate), ac_norm(idx))
    if isinstance(e, p.Expression):
        import dataclasses
        return (type(e).__name__,) + tuple(ac_norm(getattr(e, f.name)) for f in dataclasses.fields(e))
    if isinstance(e, tuple):
        return ("tuple",) + tuple(ac_norm(c) for c in e)
    return ("const", repr(e))


def neutral_norm(e):
    """ac_norm after dropping 0 from sums and 1 from products and collapsing a product with a 0 factor to 0 (value-preserving, but NOT part of
    'reordering and regrouping': used only to name the cause of a failure)."""
    import pymbolic.primitives as p
    if isinstance(e, (p.Sum, p.Product)):
        kids = [neutral_norm(c) for c in e.children]
        flat = []
        for k in kids:
            if isinstance(k, type(e)):
                flat.extend(k.children)
            else:
                flat.append(k)
        if isinstance(e, p.Product) and any(not isinstance(k, p.Expression) and k == 0 for k in flat):
            return 0
        unit = 0 if isinstance(e, p.Sum) else 1
        flat = [k for k in flat if isinstance(k, p.Expression) or k != unit]
        if not flat:
            return unit
        if len(flat) == 1:
            return flat[0]
        return type(e)(tuple(flat))
    if isinstance(e, p.Expression):
        import dataclasses
        if dataclasses.is_dataclass(e):
            return type(e)(*[neutral_norm(getattr(e, f.name)) for f in dataclasses.fields(e)])
        return e
    if isinstance(e, tuple):
        return tuple(neutral_norm(c) for c in e)
    return e


def instantiate(pat, binding):
    from pymbolic.mapper.substitutor import SubstitutionMapper, make_subst_func
    return SubstitutionMapper(make_subst_func(dict(binding)))(pat)


def pattern_vars(e, acc):
    import pymbolic.primitives as p
    if isinstance(e, p.Variable):
        acc.add(e.name)
    elif isinstance(e, p.Expression):
        for c in api.children(e):
            pattern_vars(c, acc)
    elif isinstance(e, tuple):
        for c in e:
            pattern_vars(c, acc)
    return acc


def patterns():
    import pymbolic.primitives as p
    a, b, c, f, g = (p.Variable(n) for n in "abcfg")
    return [
        a, p.Sum((a, b)), p.Sum((a, 2)), p.Product((a, b)), p.Product((2, a, b)), p.Sum((a, p.Product((2, b)))), p.Sum((p.Product((2, a)), b)),
        p.Quotient(a, b), p.Quotient(a, a), p.Power(a, 2), p.Power(a, b), p.Call(f, (a, b)), p.Call(f, (a, p.Sum((p.Product((2, a)), b)))), p.Call(f, (a, a)),
        p.Subscript(g, (a,)), p.Subscript(g, (a, b)), p.Comparison(a, "<", b), p.If(p.Comparison(a, "<", 0), b, c), p.Sum((a, b, c)), p.Product((a, p.Sum((b, 1)))),
        p.Sum((p.Power(a, 2), p.Power(b, 2))), p.Sum((a, a)), p.FloorDiv(a, p.Sum((b, a))), p.Call(f, (p.Sum((a, b)), p.Product((a, b)))),
        # sums / products none of whose direct operands is a bare candidate variable (every operand must be paired up structurally)
        p.Sum((p.Call(f, (a,)), 2)), p.Product((2, p.Call(f, (a,)))), p.Call(f, (p.Sum((p.Call(g, (a,)), 1)), b)), p.Sum((p.Power(a, 2), 1)),
        p.Product((p.Sum((a, 1)), p.Sum((b, 2)))), p.Sum((p.Product((2, p.Call(f, (a,)))), p.Product((3, p.Call(f, (b,)))))),
        # the remaining node types with a handler of their own or an alias (operands paired up by position)
        p.Remainder(a, b), p.LeftShift(a, b), p.RightShift(a, 2), p.BitwiseNot(a), p.LogicalNot(a), p.BitwiseOr((a, b)), p.BitwiseXor((a, b, a)), p.BitwiseAnd((a, 3)),
        p.LogicalOr((a, b)), p.LogicalAnd((a, p.Comparison(b, "<", 1))), p.Min((a, b)), p.Max((a, 2, b)), p.Lookup(a, "re"), p.Subscript(a, (b, 0)), p.Call(a, (b,)),
        p.Sum((p.BitwiseNot(a), p.LeftShift(b, a))),
    ]


def extended(t):
    """Variants of t in which ONE sum or product node (at any depth) has one more operand."""
    import dataclasses
    import pymbolic.primitives as p
    out = []
    extra = p.Variable("w9")
    if isinstance(t, (p.Sum, p.Product, p.Min, p.Max, p.BitwiseOr, p.BitwiseAnd, p.BitwiseXor, p.LogicalOr, p.LogicalAnd)):
        out.append(type(t)((*t.children, extra)))
        out.append(type(t)((extra, *t.children)))
        if len(t.children) > 2 and not isinstance(t, (p.Sum, p.Product)):
            out.append(type(t)(t.children[:-1]))        # one operand fewer
    if isinstance(t, p.Expression) and dataclasses.is_dataclass(t):
        for fld in dataclasses.fields(t):
            v = getattr(t, fld.name)
            if isinstance(v, p.Expression):
                for v2 in extended(v):
                    out.append(dataclasses.replace(t, **{fld.name: v2}))
            elif isinstance(v, tuple):
                for i, c in enumerate(v):
                    if isinstance(c, p.Expression):
                        for c2 in extended(c):
                            out.append(dataclasses.replace(t, **{fld.name: v[:i] + (c2,) + v[i + 1:]}))
    return out


def shared_variants(pat):
    """Targets that SHARE objects with the pattern: the pattern itself, and the pattern with exactly one variable occurrence replaced (every other subtree is the
    identical object, as after an IdentityMapper or substitution pass)."""
    import dataclasses
    import pymbolic.primitives as p

    def occ(e):
        """(rebuild, leaf) for every candidate-variable occurrence in e."""
        if isinstance(e, p.Variable):
            if e.name in ("a", "b", "c"):
                yield (lambda new: new), e
            return
        if isinstance(e, p.Expression) and dataclasses.is_dataclass(e):
            for fld in dataclasses.fields(e):
                v = getattr(e, fld.name)
                if isinstance(v, p.Expression):
                    for rb, leaf in occ(v):
                        yield (lambda new, rb=rb, fld=fld: dataclasses.replace(e, **{fld.name: rb(new)})), leaf
                elif isinstance(v, tuple):
                    for i, c in enumerate(v):
                        if isinstance(c, p.Expression):
                            for rb, leaf in occ(c):
                                yield (lambda new, rb=rb, fld=fld, i=i, v=v: dataclasses.replace(e, **{fld.name: v[:i] + (rb(new),) + v[i + 1:]})), leaf
    out = [pat]
    news = [p.Variable("a"), p.Variable("b"), p.Variable("c"), p.Variable("x"), p.Sum((p.Variable("a"), 1))]
    for rb, leaf in occ(pat):
        for new in news:
            if new != leaf:
                out.append(rb(new))
    return out


def target_atoms():
    import pymbolic.primitives as p
    x, y, z = (p.Variable(n) for n in "xyz")
    # the last three share their names with the pattern variables: a candidate may meet its own name in the target
    # 0 and 1: the neutral / absorbing constants of sums and products
    return [x, y, 3, p.Sum((x, 1)), p.Product((2, y)), p.Power(z, 2), p.Variable("a"), p.Variable("c"), p.Sum((p.Variable("b"), 1)), 0, 1]


def bounded(tier, seed, procs):
    import pymbolic.primitives as p
    from pymbolic.mapper.unifier import UnidirectionalUnifier
    b = BoundedRun("unifier", rule="30 patterns over candidate variables a, b, c (repeated occurrences, nested sums/products, sums/products without a bare candidate operand) x targets = instances of the pattern (and instances with one extra operand in one of their sums/products) under all "
                   "assignments of 9 atoms to its variables (three of them named like pattern variables; thinned) + all other patterns' instances as independent targets + commuted / regrouped variants; candidate sets: "
                   "all pattern variables and every proper subset: each record binds only candidates, binds all candidates occurring in the pattern, and "
                   "Inst(pattern, record) == target modulo AC (independent normal form); targets that are injective renamings must produce >= 1 record; non-trivial = pattern with >= 2 variables",
                   bound="~24 x 80 pairs x candidate subsets", functions=["UnidirectionalUnifier.*", "UnifierBase.*", "unify_map", "UnificationRecord.unify"])
    pats = patterns()
    atoms = target_atoms()
    import random
    rnd = random.Random(seed)
    inst_targets = {}
    for pat in pats:
        vs = sorted(pattern_vars(pat, set()) & {"a", "b", "c"})
        ts = []
        for assign in itertools.product(atoms, repeat=len(vs)):
            ts.append((instantiate(pat, dict(zip(vs, assign))), dict(zip(vs, assign))))
        if len(ts) > 30:
            ts = rnd.sample(ts, 30)
        inst_targets[id(pat)] = ts
    all_targets = [t for ts in inst_targets.values() for t, _ in ts[:4]]
    for pat in pats:
        vs = sorted(pattern_vars(pat, set()) & {"a", "b", "c"})
        cand_sets = [vs] + [list(s) for r in range(len(vs)) for s in itertools.combinations(vs, r)]
        targets = [t for t, _ in inst_targets[id(pat)]] + trees.thin(all_targets, max(1, len(all_targets) // 3), seed=1)
        # commuted variants
        extra = []
        for t in targets[:10]:
            if isinstance(t, (p.Sum, p.Product)) and len(t.children) > 1:
                extra.append(type(t)(tuple(reversed(t.children))))
        targets = targets + extra
        # instance plus one extra operand in one of its sums / products (top level or nested): never an instance of the pattern unless a
        # bare candidate operand of that node can absorb the extra
        for t in [t for t, _ in inst_targets[id(pat)]][:8]:
            targets += extended(t)[:6]
        # targets sharing objects with the pattern
        targets += shared_variants(pat)[:40]
        # injective renamings
        ren = instantiate(pat, {"a": p.Variable("u"), "b": p.Variable("v"), "c": p.Variable("w")})
        targets.append(ren)
        for cands in cand_sets[:4] if tier == "quick" else cand_sets:
            for t in targets:
                r = outcome.run(lambda: UnidirectionalUnifier(lhs_mapping_candidates=set(cands))(pat, t))
                b.case((repr(pat), repr(t), tuple(cands)), nontrivial=len(vs) >= 2, sample=dict(pattern=repr(pat), target=repr(t), candidates=cands))
                why = None
                if r[0] != "val":
                    why = outcome.describe(r)
                else:
                    recs = r[1]
                    for rec in recs:
                        bind = {}
                        if not hasattr(rec, "equations"):
                            why = f"the list of records contains {rec!r}, which is not a unification record"
                            break
                        for lhs, rhs in rec.equations:
                            if not isinstance(lhs, p.Variable) or lhs.name not in cands:
                                why = f"record binds {lhs!r}, not a declared candidate"
                                break
                            if lhs.name in bind and bind[lhs.name] != rhs:
                                why = f"{lhs.name} bound to two values"
                                break
                            bind[lhs.name] = rhs
                        if why:
                            break
                        need = set(vs) & set(cands)
                        if not need <= set(bind):
                            why = f"record {rec!r} leaves candidate(s) {sorted(need - set(bind))} unbound"
                            break
                        inst = instantiate(pat, bind)
                        if ac_norm(inst) != ac_norm(t):
                            cz = "cause=neutral-or-absorbing-constant " if ac_norm(neutral_norm(inst)) == ac_norm(neutral_norm(t)) else ""
                            why = f"{cz}record {rec!r}: instantiation {inst!r} is not the target"
                            break
                    if why is None and (t is ren or t is pat) and cands == vs and not recs:
                        why = "target is an injective renaming of the pattern but no record was returned"
                if why:
                    b.fail(Failure("unifier", f"{'cause=neutral-or-absorbing-constant ' if why.startswith('cause=neutral') else ''}pattern={pat!r} target={t!r} candidates={cands} why={why}", dict(kind="unify", pattern=trees.src(pat), target=trees.src(t), cands=cands),
                                   expected="sound records", actual=why, functions=["UnidirectionalUnifier.map_commut_assoc", "UnifierBase"]))
    # long sums: f_0(c_0) + ... + f_{n-1}(c_{n-1}) + a + b followed by a second occurrence of a, against its injective renaming
    # (the leftovers of the sum are offered to a, b in the iteration order of a set of indices, which is not ascending for every n)
    g_ = p.Variable("g")
    for n in range(1, 13 if tier == "thorough" else 11):
        for first in (False, True):
            fs = [p.Variable(f"f{i}") for i in range(n)]
            terms = [p.Call(fs[i], (p.Variable(f"c{i}"),)) for i in range(n)]
            tterms = [p.Call(fs[i], (p.Variable(f"z{i}"),)) for i in range(n)]
            va, vb, vx, vy = (p.Variable(k) for k in "abxy")
            for second in (va, vb):
                pat = p.Call(g_, (p.Sum(tuple(([va, vb] if first else []) + terms + ([] if first else [va, vb]))), second))
                tgt = p.Call(g_, (p.Sum(tuple(([vx, vy] if first else []) + tterms + ([] if first else [vx, vy]))), vx if second is va else vy))
                cands = {"a", "b"} | {f"c{i}" for i in range(n)}
                r = outcome.run(lambda: UnidirectionalUnifier(lhs_mapping_candidates=cands)(pat, tgt))
                b.case(("long-sum", n, first, second.name), nontrivial=True, sample=dict(operands=n + 2, variables_first=first))
                ok = r[0] == "val" and len(r[1]) >= 1 and all(ac_norm(instantiate(pat, {l.name: rv for l, rv in rec.equations})) == ac_norm(tgt) for rec in r[1])
                if not ok:
                    b.fail(Failure("unifier", f"what=renaming-of-long-sum operands={n + 2} variables_first={first} repeated={second.name}", dict(kind="unify-long", n=n, first=first, second=second.name),
                                   expected=">= 1 sound record (the target is an injective renaming of the pattern)", actual=outcome.describe(r)[:200], functions=["UnidirectionalUnifier.map_commut_assoc"]))
    b2 = matchpy_bridge(tier)
    return [b, b2, b_falsy_bindings(tier)]


def b_falsy_bindings(tier):
    """A pattern variable that occurs several times must be bound to ONE value, also when that value is falsy."""
    import pymbolic.primitives as p
    from pymbolic.mapper.unifier import UnidirectionalUnifier
    b = BoundedRun("repeated-variable-bindings", rule="patterns in which the candidate variable a occurs 2..3 times in non-commutative positions (f(a,a), f(a,b,a), a/a, a**a, "
                   "g[a,a], a<a, If(a==a, a, c)) x targets obtained by filling the occurrences with every pair (triple) of values from {0, 0.0, False, 0*x, 0/y, 3, x, x+1}: a "
                   "record may be returned only if all occurrences hold the same value, and then binds a to it; mixed fillings (incl. falsy with non-falsy, in both orders) "
                   "must give no record", bound="7 patterns x 8^2 (8^3) fillings", functions=["unify_map", "UnificationRecord.unify", "UnifierBase.map_*"])
    a, bb, c, f, g, x, y = (p.Variable(n) for n in ("a", "b", "c", "f", "g", "x", "y"))
    vals = [0, 0.0, False, p.Product((0, x)), p.Quotient(0, y), 3, x, p.Sum((x, 1))]
    pats = [("f(a,a)", lambda u, v, w: p.Call(f, (u, v)), 2), ("a/a", lambda u, v, w: p.Quotient(u, v), 2), ("a**a", lambda u, v, w: p.Power(u, v), 2),
            ("g[a,a]", lambda u, v, w: p.Subscript(g, (u, v)), 2), ("a<a", lambda u, v, w: p.Comparison(u, "<", v), 2),
            ("f(a,b,a)", lambda u, v, w: p.Call(f, (u, p.Variable("zz") if w is None else w, v)), 2), ("If(a==a,a,c)", lambda u, v, w: p.If(p.Comparison(u, "==", v), w, y), 3)]
    for name, mk, n in pats:
        pat = mk(a, a, a if n == 3 else bb)
        combos = itertools.product(vals, repeat=n)
        for combo in combos:
            u, v = combo[0], combo[1]
            w = combo[2] if n == 3 else 5
            tgt = mk(u, v, w)
            r = outcome.run(lambda: UnidirectionalUnifier(lhs_mapping_candidates={"a", "b", "c"})(pat, tgt))
            b.case((name, repr(combo)), sample=dict(pattern=name, filling=[repr(t) for t in combo]))
            occ = combo if n == 3 else (u, v)
            consistent = all(_same_typed(occ[0], t) for t in occ[1:])
            why = None
            if r[0] != "val":
                why = outcome.describe(r)[:150]
            else:
                for rec in r[1]:
                    eqs = [(l, rv) for l, rv in rec.equations if l == a]
                    if len({repr(rv) for _, rv in eqs}) > 1:
                        why = f"a bound to several values: {[repr(rv) for _, rv in eqs]}"
                    elif not consistent:
                        why = f"record returned although the occurrences of a hold different values: {rec.equations!r}"
                    elif eqs and not _same_typed(eqs[0][1], occ[0]) and eqs[0][1] != occ[0]:
                        why = f"a bound to {eqs[0][1]!r}, occurrences hold {occ[0]!r}"
            if why:
                b.fail(Failure("repeated-variable-bindings", f"pattern={name} filling={[repr(t) for t in combo]} why={why[:100]}", dict(kind="falsy", pattern=name, filling=[repr(t) for t in combo]),
                               expected="one value per variable, no record for mixed fillings", actual=why[:250], functions=["unify_map", "UnificationRecord.unify"]))
    return b


def _same_typed(u, v):
    import pymbolic.primitives as p
    if isinstance(u, p.Expression) or isinstance(v, p.Expression):
        return u == v
    return u == v       # 0, 0.0 and False are == : one value for the unifier


def matchpy_bridge(tier):
    import pymbolic.primitives as p
    b = BoundedRun("matchpy-bridge", rule="to-matchpy/from-matchpy round trip on a pool of expressions (== up to operand order of commutative operators and tuple-ised subscripts); "
                   "match / match_anywhere: instantiating the pattern with every reported substitution gives the (sub)subject modulo AC; replace_all with dot and star wildcards: "
                   "value preserved for value-preserving rules, multiplicities kept; non-trivial = all", bound="~60 expressions, 12 patterns", functions=["pymbolic.interop.matchpy.*"])
    try:
        import pymbolic.interop.matchpy as m
        from pymbolic.interop.matchpy.tofrom import FromMatchpyExpressionMapper, ToMatchpyExpressionMapper
    except Exception as e:  # noqa: BLE001
        b.notes.append(f"matchpy bridge not importable: {e}")
        b.case("import", sample="unavailable")
        b.case("import2")
        return b
    a, b_, c, d, f, g, x, y = (p.Variable(n) for n in "abcdfgxy")
    pool = [a, p.Sum((a, b_)), p.Product((a, b_, c)), p.Product((a, b_, b_, c)), p.Quotient(a, b_), p.FloorDiv(a, 2), p.Remainder(a, b_), p.Power(a, 2),
            p.Call(f, (a, b_, c)), p.Subscript(g, (a, 1)), p.Subscript(g, (a,)), p.Comparison(a, "<", p.Call(f, (c, d))), p.If(p.Comparison(a, ">", 0), b_, c),
            p.Sum((p.Product((2, a)), p.Power(b_, 3), 1)), p.LogicalAnd((a, b_)), p.LogicalOr((a, p.LogicalNot(b_))), p.BitwiseOr((a, b_)), p.BitwiseAnd((a, 3)),
            p.BitwiseXor((a, b_)), p.BitwiseNot(a), p.LeftShift(a, 2), p.RightShift(a, b_), p.Sum((a, a, b_)), p.Product((p.Sum((a, b_)), p.Sum((a, b_))))]
    for e in pool:
        r = outcome.run(lambda: FromMatchpyExpressionMapper()(ToMatchpyExpressionMapper()(e)))
        b.case(("roundtrip", repr(e)), nontrivial=True, sample=repr(e))
        if r[0] != "val" or ac_norm(r[1]) != ac_norm(e):
            b.fail(Failure("matchpy-bridge", f"what=roundtrip expr={e!r}", dict(kind="mp-rt", expr=trees.src(e)), expected=repr(e), actual=outcome.describe(r)[:200],
                           functions=["ToMatchpyExpressionMapper", "FromMatchpyExpressionMapper"]))
    w, ws = p.DotWildcard("w_"), p.StarWildcard("ws_star")
    pats = [(p.Sum((a, w)), p.Sum((a, b_))), (p.Product((a, c, ws)), p.Product((a, b_, b_, c))), (p.Call(f, (a, w)), p.Call(f, (a, p.Sum((b_, 1))))),
            (p.Call(f, (a, ws)), p.Call(f, (a, b_, c))), (p.Quotient(w, b_), p.Quotient(p.Sum((a, 1)), b_)), (p.Power(w, 2), p.Power(p.Product((a, b_)), 2)),
            (p.Sum((w, ws)), p.Sum((a, b_, c))), (p.Subscript(g, (w, 1)), p.Subscript(g, (a, 1)))]
    for pat, subj in pats:
        r = outcome.run(lambda: list(m.match(subj, pat)))
        b.case(("match", repr(pat), repr(subj)), nontrivial=True, sample=dict(pattern=repr(pat), subject=repr(subj)))
        why = None
        if r[0] != "val":
            why = ("cause=star-wildcard-crash " if "StarWildcard" in repr(pat) else "") + outcome.describe(r)
        else:
            for subst in r[1]:
                inst = outcome.run(lambda: inst_wild(pat, subst))
                if inst[0] != "val" or ac_norm(inst[1]) != ac_norm(subj):
                    why = f"substitution {dict(subst)!r} instantiates to {inst[1] if inst[0] == 'val' else inst!r}"
                    break
            if not r[1]:
                why = "no match reported for an instance of the pattern"
        if why:
            b.fail(Failure("matchpy-bridge", f"{'cause=star-wildcard-crash ' if why.startswith('cause=star') else ''}what=match pattern={pat!r} subject={subj!r} why={why}", dict(kind="mp-match", pattern=trees.src(pat), subject=trees.src(subj)),
                           expected="sound matches", actual=why[:300], functions=["pymbolic.interop.matchpy.match"]))
    # match_anywhere: every reported (substitution, subexpression): the subexpression is a subtree of the subject and instantiating the pattern
    # gives it; every subtree that is an instance of the pattern (found by the independent instantiation test over all bindings the matcher
    # reported for it elsewhere) is reported
    def subtrees(t):
        yield t
        if isinstance(t, p.Expression):
            for ch in api.children(t):
                yield from subtrees(ch)
        elif isinstance(t, tuple):
            for ch in t:
                yield from subtrees(ch)
    anywhere = [(p.Sum((a, w)), p.Product((p.Sum((a, b_)), p.Call(f, (p.Sum((a, c)),)), d))),
                (p.Call(f, (w,)), p.Sum((p.Call(f, (a,)), p.Product((2, p.Call(f, (p.Call(f, (b_,)),)))), c))),
                (p.Power(w, 2), p.Quotient(p.Power(a, 2), p.Sum((p.Power(p.Sum((b_, 1)), 2), p.Power(c, 3))))),
                (p.Product((2, w)), p.Sum((p.Product((2, a)), p.Product((b_, 2)), p.Call(f, (p.Product((2, p.Sum((c, d)))),)), 2))),
                (p.Quotient(w, b_), p.Sum((p.Quotient(a, b_), p.Quotient(c, d), p.Quotient(p.Quotient(x, b_), b_))))]
    for pat, subj in anywhere:
        r = outcome.run(lambda: list(m.match_anywhere(subj, pat)))
        b.case(("anywhere", repr(pat), repr(subj)), nontrivial=True, sample=dict(pattern=repr(pat), subject=repr(subj), function="match_anywhere"))
        why = None
        if r[0] != "val":
            why = outcome.describe(r)[:200]
        else:
            subs = [ac_norm(t) for t in subtrees(subj) if isinstance(t, p.Expression)]
            found = []
            for subst, sub in r[1]:
                if ac_norm(sub) not in subs:
                    why = f"reported subexpression {sub!r} is not a subtree of the subject"
                    break
                inst = outcome.run(lambda: inst_wild(pat, subst))
                if inst[0] != "val" or ac_norm(inst[1]) != ac_norm(sub):
                    why = f"substitution {dict(subst)!r} instantiates to {inst[1] if inst[0] == 'val' else inst!r}, reported subexpression {sub!r}"
                    break
                found.append(ac_norm(sub))
            if why is None:
                # completeness against matching each subtree on its own
                for t in subtrees(subj):
                    if isinstance(t, p.Expression):
                        direct = outcome.run(lambda: list(m.match(t, pat)))
                        if direct[0] == "val" and direct[1] and ac_norm(t) not in found:
                            why = f"subtree {t!r} matches the pattern on its own but match_anywhere does not report it"
                            break
        if why:
            b.fail(Failure("matchpy-bridge", f"what=match-anywhere pattern={pat!r} subject={subj!r} why={why[:200]}", dict(kind="mp-anywhere", pattern=trees.src(pat), subject=trees.src(subj)),
                           expected="exactly the matching subtrees with sound substitutions", actual=why[:300], functions=["pymbolic.interop.matchpy.match_anywhere", "_get_operand_at_path"]))
    # a bare wildcard as pattern: every subexpression of the subject matches (the bridge's own atoms - identifier strings, operator names - are not subexpressions)
    for subj in (p.Sum((x, 1)), p.Call(p.Variable("f"), (x, b_)), p.Comparison(p.Call(p.Variable("f"), (x,)), "<", 2)):
        r = outcome.run(lambda: list(m.match_anywhere(subj, p.DotWildcard("w_"))))
        b.case(("anywhere-bare-wildcard", repr(subj)), nontrivial=True)
        want = {repr(ac_norm(t)) for t in subtrees(subj) if isinstance(t, p.Expression) or isinstance(t, (int, float))}
        got = {repr(ac_norm(sub)) for _, sub in r[1]} if r[0] == "val" else None
        if r[0] != "val" or not got <= want or not {repr(ac_norm(t)) for t in subtrees(subj) if isinstance(t, p.Expression)} <= got:
            b.fail(Failure("matchpy-bridge", f"cause=bare-wildcard-visits-bridge-atoms what=match-anywhere subject={subj!r}", dict(kind="mp-anywhere-bare", subject=trees.src(subj)), expected="one match per subexpression",
                           actual=outcome.describe(r)[:200], functions=["pymbolic.interop.matchpy.match_anywhere"]))
    # replacement with multiplicities: a*c*ws -> 6*ws
    from pytools import product
    from pymbolic.mapper.evaluator import EvaluationMapper

    def rep(ws_star):
        args = [6]
        for k, v in ws_star.items():
            args.extend([k] * v)
        return product(args)
    rule = outcome.run(lambda: m.make_replacement_rule(p.Product((a, c, ws)), rep))
    env = {"a": 2, "c": 3, "b": 5, "d": 7, "x": 11}
    for subj in [p.Product((a, b_, c)), p.Product((a, b_, b_, c)), p.Product((a, c, b_, b_, b_)), p.Product((a, d, c, b_, d)), p.Product((a, c)), p.Product((a, b_, c, x, x))]:
        r = outcome.run(lambda: m.replace_all(subj, [rule[1]])) if rule[0] == "val" else rule
        b.case(("replace", repr(subj)), nontrivial=True, sample=repr(subj))
        ok = r[0] == "val" and EvaluationMapper(env)(r[1]) == EvaluationMapper(env)(subj)
        if not ok:
            b.fail(Failure("matchpy-bridge", f"what=replace subject={subj!r}", dict(kind="mp-repl", subject=trees.src(subj)), expected="a*c replaced by 6, other factors kept with multiplicity",
                           actual=outcome.describe(r)[:200], functions=["ToFromReplacement", "replace_all"]))
    # a rule whose replacement is a sum, applied below every kind of parent: g(w_) -> w_ + 1; the result is the subject with every g(t) replaced by t + 1
    g_ = p.Variable("g")
    f_ = p.Variable("f")
    rule2 = outcome.run(lambda: m.make_replacement_rule(p.Call(g_, (p.DotWildcard("w_"),)), lambda w_: w_ + 1))
    ga = p.Call(g_, (a,))
    cases2 = [(ga, p.Sum((a, 1))), (p.Sum((ga, b_)), p.Sum((a, 1, b_))), (p.Power(ga, 2), p.Power(p.Sum((a, 1)), 2)), (p.Product((ga, b_)), p.Product((p.Sum((a, 1)), b_))),
              (p.Quotient(b_, ga), p.Quotient(b_, p.Sum((a, 1)))), (p.Call(f_, (ga,)), p.Call(f_, (p.Sum((a, 1)),))), (p.Call(f_, (ga, b_)), p.Call(f_, (p.Sum((a, 1)), b_))),
              (p.Call(f_, (b_, p.Product((2, ga)))), p.Call(f_, (b_, p.Product((2, p.Sum((a, 1))))))), (p.Subscript(x, (ga,)), p.Subscript(x, (p.Sum((a, 1)),)))]
    for subj, want in cases2:
        r = outcome.run(lambda: m.replace_all(subj, [rule2[1]])) if rule2[0] == "val" else rule2
        b.case(("replace-sum", repr(subj)), nontrivial=True, sample=repr(subj))
        ok = r[0] == "val" and ac_norm(neutral_norm(r[1])) == ac_norm(neutral_norm(want))
        if not ok:
            in_args = isinstance(subj, (p.Call, p.Subscript))
            b.fail(Failure("matchpy-bridge", f"{'cause=replacement-spliced-into-argument-list ' if in_args else ''}what=replace-by-sum subject={subj!r}", dict(kind="mp-repl-sum", subject=trees.src(subj)),
                           expected=repr(want)[:150], actual=outcome.describe(r)[:200], functions=["replace_all", "ToFromReplacement", "TupleOp"]))
    return b


def inst_wild(pat, subst):
    """Instantiate dot/star wildcards of a pattern with a reported substitution."""
    import pymbolic.primitives as p
    from pymbolic.mapper import IdentityMapper

    class Inst(IdentityMapper):
        def map_dot_wildcard(self, e):
            return subst[e.name]

        def _seq(self, children):
            out = []
            for c in children:
                if isinstance(c, p.StarWildcard):
                    v = subst[c.name]
                    if hasattr(v, "items"):
                        for k, n in v.items():
                            out.extend([k] * n)
                    else:
                        out.extend(list(v))
                else:
                    out.append(self.rec(c))
            return tuple(out)

        def map_sum(self, e):
            return type(e)(self._seq(e.children))
        map_product = map_sum

        def map_call(self, e):
            return type(e)(self.rec(e.function), self._seq(e.parameters))
    return Inst()(pat)


def replay(case):
    runs = bounded("quick", 0, 1)
    return any(f.case == case for b in runs for f in b.failures)

"""C02  Evaluation gives every node type its standard meaning."""
from __future__ import annotations

import itertools
from fractions import Fraction

from contracts import c02 as K
from contracts.specs import den
from harness import outcome, trees
from harness.runner import BoundedRun, Failure
from pyvc import verify

LEVEL = "proof"
SPECS = [den]
EXPLANATION = (
    "Every EvaluationMapper.map_<K> the dispatcher can reach is symbolically executed from the working "
    "tree's source with self.rec replaced by the mapper contract rec(e) ~ den(e, context) and its outcome "
    "(value or raised error) is proved equivalent to one unfolding of the reference denotation den for a "
    "node of class K with arbitrary fields; with structural induction (M-IND) this gives evaluate = den on "
    "all trees. The bounded part runs the real evaluators (plain, cached, keyword entry) against den.")
ASSUMPTIONS = [
    "A-INT/A-OBJ/A-GEN of DESIGN.md section 3 (Python operators are uninterpreted strict functions of their operands; "
    "generators consumed by sum/reduce/min/max/tuple/list are modelled eagerly)",
    "pytools.product(xs) = left fold of * from 1 (assumed contract, exercised by the bounded run)",
    "functools.reduce(op, xs[, init]) = left fold (engine semantics); sum(xs) = reduce(add, xs, 0)",
    "node class invariants (Comparison.operator in the six operators) are those proved for __post_init__ under C01",
    "dict look-up with an equal key is treated as look-up with that key (CSE cache), see C05",
]
TRUSTED_BASE = ["contracts/specs.py:den (validated against CPython eval in the thorough tier)"]

FOREIGN = ["<constant>", "<list>", "<tuple>"]


def proof_jobs(tier):
    jobs = []
    for k in verify.node_class_table():
        if k.__module__ != "pymbolic.primitives":
            continue
        if k.__name__ == "CommonSubexpression":
            for vn, v in K.EVAL.variants:
                jobs.append(("mapperv", K.EVAL, (k, vn, v), None))
        else:
            jobs.append(("mapper", K.EVAL, k, None))
    for f in FOREIGN:
        jobs.append(("mapper", K.EVAL, f, None))
    for fc in K.FUNCTIONS:
        jobs.append(("function", fc, None, None))
    # "the plain and the memoizing evaluator always agree": the cache contract of C05
    from contracts import c05
    jobs.append(("function", c05.KEY_INJ, None, None))
    import pymbolic.primitives as p
    for fc in c05.cached_contracts([p.Sum, p.Variable, p.CommonSubexpression]):
        jobs.append(("function", fc, None, None))
    return jobs


# ----------------------------------------------------------------------------- bounded stand-in
ENV_VALUES = [-2, -1, 0, 1, 2, Fraction(1, 2), Fraction(-3, 2), True, False]


def possible_errors(e, env, acc=None):
    """Error types any sub-evaluation of e (independently) can raise — the set the real error must be in."""
    import pymbolic.primitives as p
    acc = set() if acc is None else acc
    o = outcome.run(lambda: den(e, env))
    if o[0] == "exc":
        acc.add(o[1])
    if isinstance(e, p.Expression):
        import dataclasses
        for f in dataclasses.fields(e):
            v = getattr(e, f.name)
            for c in (v if isinstance(v, tuple) else v.values() if hasattr(v, "values") else [v]):
                if isinstance(c, (p.Expression, tuple, list)):
                    possible_errors(c, env, acc)
    elif isinstance(e, (tuple, list)):
        for c in e:
            possible_errors(c, env, acc)
    return acc


def entry_points():
    from pymbolic.mapper.evaluator import (CachedEvaluationMapper, EvaluationMapper, evaluate, evaluate_kw)
    return {
        "plain": lambda e, env: EvaluationMapper(env)(e),
        "cached": lambda e, env: CachedEvaluationMapper(env)(e),
        "evaluate": lambda e, env: evaluate(e, env),
        "evaluate_kw": lambda e, env: evaluate_kw(e, **env),
    }


def check_case(e, env, which=None):
    """Returns list of (entry, real, spec) mismatches for one (expression, environment)."""
    bad = []
    spec = outcome.run(lambda: den(e, env))
    perr = None
    for name, f in entry_points().items():
        if which and name != which:
            continue
        if name in ("cached", "evaluate", "evaluate_kw") and _has_list(e):
            continue  # lists are unhashable cache keys: outside "expressions" for the memoizing variants
        real = outcome.run(lambda: f(e, dict(env)))
        if real[0] == "exc" and spec[0] == "exc" and perr is None:
            perr = possible_errors(e, env)
        if not outcome.equivalent(real, spec, perr):
            bad.append((name, real, spec))
    return bad


def _mixed_type_constants(e):
    """Does e contain two constants that are == but of different type (4 / 4.0 / True)?"""
    import pymbolic.primitives as p
    from pyvc import api
    consts = []

    def walk(x):
        if isinstance(x, p.Expression):
            for c in api.children(x):
                walk(c)
        elif isinstance(x, (tuple, list)):
            for c in x:
                walk(c)
        elif isinstance(x, (int, float, complex)):
            consts.append(x)
    walk(e)
    return any(a == b and type(a) is not type(b) for i, a in enumerate(consts) for b in consts[i + 1:])


def _has_list(e):
    import pymbolic.primitives as p
    import dataclasses
    if isinstance(e, list):
        return True
    if isinstance(e, tuple):
        return any(_has_list(c) for c in e)
    if isinstance(e, p.Expression):
        for f in dataclasses.fields(e):
            v = getattr(e, f.name)
            if _has_list(v) or (hasattr(v, "values") and any(_has_list(c) for c in v.values())):
                return True
    return False


def domain(tier):
    import pymbolic.primitives as p
    leaves = [trees.X, trees.Y, 0, 1, -1, 2, 1.5, True]
    small = [trees.X, trees.Y, 2, -1, 0]
    exprs = list(leaves)
    exprs += trees.depth1(trees.ALL_EVAL, small)
    exprs += trees.nary(trees.ALL_EVAL, small[:4])
    exprs += trees.triples(trees.ARITH + trees.BITS + trees.LOGIC, [trees.X, 2, -1, trees.Y])
    # containers and special forms
    exprs += [(trees.X, 2), [trees.X, trees.Y], (), p.Sum(()), p.Product(()), p.NaN(),
              p.Variable("unbound"), p.Sum((p.Variable("unbound"), 1)),
              p.If(p.Comparison(trees.X, ">", 0), 1, p.Quotient(1, 0)),
              p.If(p.Comparison(trees.X, ">", 0), p.Quotient(1, 0), 7),
              p.LogicalOr((p.Comparison(trees.X, "==", 1), p.Comparison(p.Quotient(1, 0), "==", 1))),
              p.LogicalAnd((p.Comparison(trees.X, "==", 1), p.Comparison(p.Quotient(1, 0), "==", 1))),
              p.CommonSubexpression(p.Sum((trees.X, 1))),
              # wrappers of every scope and with prefixes: no scope may make a value outlive the evaluation it was computed in
              p.CommonSubexpression(p.Sum((trees.X, 1)), None, p.cse_scope.GLOBAL), p.CommonSubexpression(p.Product((trees.X, trees.Y)), "pre", p.cse_scope.EXPRESSION),
              p.Sum((p.CommonSubexpression(p.Product((trees.X, trees.Y)), "g", p.cse_scope.GLOBAL), p.CommonSubexpression(p.Product((trees.X, trees.Y)), "g", p.cse_scope.GLOBAL), 1)),
              p.Product((p.CommonSubexpression(p.Quotient(trees.X, trees.Y), None, p.cse_scope.GLOBAL), p.CommonSubexpression(p.Sum((trees.X, trees.Y)), None, p.cse_scope.EXPRESSION))),
              p.CommonSubexpression(p.CommonSubexpression(p.Power(trees.X, 2), "in", p.cse_scope.GLOBAL), "out", p.cse_scope.EVALUATION),
              p.Sum((p.CommonSubexpression(p.Product((trees.X, trees.Y))), p.CommonSubexpression(p.Product((trees.X, trees.Y))))),
              p.Call(p.Variable("f"), (trees.X, p.Sum((trees.Y, 1)))),
              p.Subscript(p.Variable("a"), p.Sum((trees.X, 0))), p.Lookup(p.Variable("o"), "real"),
              p.Lookup(p.Variable("o"), "imag"), p.Power(0, trees.X), p.Power(trees.X, -1),
              p.Product((trees.X, p.Quotient(1, trees.Y))), p.Product((0, p.Variable("unbound"))),
              p.Product((p.Sum((trees.X, -1)), p.Sum((trees.X, -2)))), p.Sum((p.Power(trees.X, 2), p.Power(trees.X, 2.0))),
              p.Sum((p.Product((trees.X, 0)), p.Product((trees.X, 2**61 - 1))))]
    return trees.dedup(exprs)


def envs(tier, seed):
    import random
    vals = ENV_VALUES if tier == "thorough" else [-2, 0, 1, 2, Fraction(1, 2), True]
    out = []
    for x, y in itertools.product(vals, repeat=2):
        out.append({"x": x, "y": y})
    rnd = random.Random(seed)
    for _ in range(6 if tier == "quick" else 40):
        out.append({"x": rnd.randint(-10**6, 10**6), "y": Fraction(rnd.randint(-99, 99), rnd.randint(1, 9))})
    extras = {"f": lambda *a, **k: sum(a) + 2 * sum(k.values()), "a": [10, 20, 30, 40, 50], "o": 3 + 4j,
              "abs": abs}
    for e in out:
        e.update(extras)
    return out


def bounded(tier, seed, procs):
    b = BoundedRun(
        "eval-vs-den",
        rule="all depth<=1 trees over every evaluable node class x reduced leaf alphabet, n-ary widths 0/1/3, "
             "every (parent,position,child) class triple, special forms (unbound variables, errors in unselected "
             "branches, short-circuits, CSEs, calls, subscripts, look-ups) x environment box (ints, Fractions, bools) "
             "+ seeded random large values; entry points plain/cached/evaluate/evaluate_kw compared with den; "
             "non-trivial = distinct (expression, environment) whose spec outcome is a value or error of an operator node",
        bound="tree depth <= 2, env box %d^2" % (len(ENV_VALUES) if tier == "thorough" else 6),
        functions=["pymbolic.mapper.evaluator:EvaluationMapper.*", "CachedEvaluationMapper", "evaluate", "evaluate_kw",
                   "CSECachingMapperMixin.map_common_subexpression"])
    exprs = domain(tier)
    es = envs(tier, seed)
    if tier == "quick":
        es = trees.thin(es, max(1, len(es) // 3), seed=1) + es[-6:]
    import pymbolic.primitives as p
    for e in exprs:
        heavy = any(t in repr(e) for t in ("Power", "LeftShift"))
        for env in es:
            if heavy and any(abs(env[k]) > 3 for k in "xy"):
                continue  # 10**6 ** 10**6 is not a terminating test
            bad = outcome.with_alarm(2.0, lambda: check_case(e, env), default="timeout")
            if bad == "timeout":
                b.notes.append(f"skipped (arithmetic did not terminate in 2s): {e!r}")
                continue
            b.case((repr(e), repr(sorted((k, repr(v)) for k, v in env.items() if k in "xy"))),
                   nontrivial=isinstance(e, p.Expression),
                   sample=dict(expr=repr(e), env={k: repr(v) for k, v in env.items() if k in "xy"}))
            for name, real, spec in bad:
                cause = "other"
                if name != "plain" and not any(n == "plain" for n, _, _ in bad) and _mixed_type_constants(e):
                    cause = "nested-constant-type"
                b.fail(Failure(
                    "eval-vs-den",
                    f"cause={cause} entry={name} root={type(e).__name__} expr={e!r} env={ {k: v for k, v in env.items() if k in 'xy'} }",
                    dict(kind="eval", expr=trees.src(e), env={k: repr(v) for k, v in env.items() if k in "xy"},
                         entry=name),
                    expected=outcome.describe(spec), actual=outcome.describe(real),
                    functions=[f"EvaluationMapper.{getattr(type(e), 'mapper_method', 'map_foreign')}"]))
    b.exhaustive = True
    runs = [b, cse_once(tier), containers_and_float(tier), evaluator_hooks(tier), environments(tier)]
    return runs


def environments(tier):
    """The environment is whatever mapping the caller hands over: its kind, and what it holds when the evaluation runs."""
    import collections
    import types
    import pymbolic.primitives as p
    from pymbolic.mapper.evaluator import CachedEvaluationMapper, EvaluationMapper, evaluate
    b = BoundedRun("environments", rule="(a) the environment given as dict, OrderedDict, ChainMap (two layers), MappingProxyType, UserDict, a dict subclass whose __missing__ computes the "
                   "values of names starting with 'n', and a read-only collections.abc.Mapping computing its values on demand: plain, memoizing and evaluate() return den's value in "
                   "the equivalent dict, and a name the mapping does not resolve is the unknown-variable error naming it; (b) one plain EvaluationMapper kept across a sweep in which "
                   "the caller rebinds, adds and removes names in the dict it handed over (expressions without common subexpressions, so nothing is memoized): every evaluation is "
                   "den's value in the dict as it is at that moment; (c) sums of three to five float-valued quotients: the value is the left-to-right fold with + (known finding: "
                   "builtin sum() compensates float rounding since Python 3.12)", bound="7 mapping kinds x 8 expressions x 3 entry points; 6 sweeps x 8 expressions; 40 float sums",
                   functions=["EvaluationMapper.__init__", "EvaluationMapper.map_variable", "EvaluationMapper.map_sum", "evaluate"])
    x, y = trees.X, trees.Y
    n3, q = p.Variable("n3"), p.Variable("unbound")
    exprs = [x, p.Sum((x, y)), p.Product((x, p.Sum((y, n3)))), p.Quotient(p.Sum((x, 1)), p.Sum((n3, 1))), p.If(p.Comparison(x, "<", y), n3, p.Power(y, 2)), p.Sum((x, q)),
             p.Min((x, n3, y)), (x, p.FloorDiv(n3, 2))]
    base = {"x": 3, "y": Fraction(5, 2), "n3": 7}

    class Computing(dict):
        def __missing__(self, key):
            if key.startswith("n"):
                return int(key[1:]) + 4
            raise KeyError(key)

    class Lazy(collections.abc.Mapping):
        def __init__(self, d):
            self._d = d

        def __getitem__(self, k):
            return self._d[k]

        def __iter__(self):
            return iter(self._d)

        def __len__(self):
            return len(self._d)
    kinds = {"dict": lambda: dict(base), "OrderedDict": lambda: collections.OrderedDict(base), "ChainMap": lambda: collections.ChainMap({"x": 3}, {"y": Fraction(5, 2), "n3": 7, "x": 99}),
             "MappingProxyType": lambda: types.MappingProxyType(dict(base)), "UserDict": lambda: collections.UserDict(base), "computing-dict": lambda: Computing(x=3, y=Fraction(5, 2)),
             "lazy-mapping": lambda: Lazy(dict(base))}
    entries = {"plain": lambda e, env: EvaluationMapper(env)(e), "cached": lambda e, env: CachedEvaluationMapper(env)(e), "evaluate": lambda e, env: evaluate(e, env)}
    for kname, mk in kinds.items():
        for e in exprs:
            want = outcome.run(lambda: den(e, base))
            for ename, f in entries.items():
                got = outcome.run(lambda: f(e, mk()))
                b.case(("kind", kname, repr(e), ename), nontrivial=kname != "dict", sample=dict(part="a", mapping=kname, expr=repr(e)[:80], entry=ename))
                if not outcome.equivalent(got, want, None):
                    b.fail(Failure("environments", f"part=mapping-kind mapping={kname} entry={ename} expr={e!r}", dict(kind="envs", part="a", mapping=kname, expr=trees.src(e), entry=ename),
                                   expected=outcome.describe(want), actual=outcome.describe(got)[:200], functions=["EvaluationMapper.__init__", "EvaluationMapper.map_variable"]))
    # (b) a sweep: the caller updates the dict it handed over between evaluations
    sweeps = [[("set", "x", 5)], [("set", "x", -1), ("set", "y", 4)], [("del", "n3", None)], [("del", "n3", None), ("set", "n3", 2)], [("set", "unbound", 10)], [("set", "unbound", 1), ("del", "unbound", None), ("set", "x", 0)]]
    for si, sweep in enumerate(sweeps):
        for e in exprs:
            env = dict(base)
            m = outcome.run(lambda: EvaluationMapper(env))
            steps = [None] + sweep
            for ti, step in enumerate(steps):
                if step is not None:
                    if step[0] == "set":
                        env[step[1]] = step[2]
                    else:
                        env.pop(step[1], None)
                want = outcome.run(lambda: den(e, dict(env)))
                got = outcome.run(lambda: m[1](e)) if m[0] == "val" else m
                b.case(("sweep", si, repr(e), ti), nontrivial=ti > 0, sample=dict(part="b", sweep=repr(sweep), expr=repr(e)[:80], turn=ti))
                if not outcome.equivalent(got, want, None):
                    b.fail(Failure("environments", f"part=sweep sweep={sweep!r} turn={ti} expr={e!r} env={env!r}", dict(kind="envs", part="b", sweep=si, expr=trees.src(e), turn=ti),
                                   expected=outcome.describe(want), actual=outcome.describe(got)[:200], functions=["EvaluationMapper.__init__", "EvaluationMapper.map_variable"]))
                    break
    # (c) float-valued operands of a sum
    import random
    rnd = random.Random(7)
    sums = [[(1, 10), (2, 10), (3, 10)], [(1, 3), (1, 3), (1, 3), (1, 7)], [(1, 10)] * 5]
    for _ in range(37):
        sums.append([(rnd.randint(-9, 9), rnd.choice([3, 7, 10, 11, 13])) for _ in range(rnd.randint(3, 5))])
    for terms in sums:
        e = p.Sum(tuple(p.Quotient(a_, p.Variable("d%d" % i)) for i, (a_, _) in enumerate(terms)))
        env = {"d%d" % i: d_ for i, (_, d_) in enumerate(terms)}
        want = outcome.run(lambda: den(e, env))
        for ename, f in entries.items():
            got = outcome.run(lambda: f(e, dict(env)))
            b.case(("floatsum", repr(terms), ename), nontrivial=True, sample=dict(part="c", terms=repr(terms), entry=ename))
            if not (got[0] == want[0] == "val" and type(got[1]) is type(want[1]) and got[1] == want[1]):
                vals = [a_ / d_ for a_, d_ in terms]
                cause = "cause=float-sum-compensated " if got[0] == "val" and got[1] == sum(vals) and abs(got[1] - want[1]) <= 1e-15 * max(1.0, abs(want[1])) * len(vals) else ""
                b.fail(Failure("environments", f"{cause}part=float-sum entry={ename} terms={terms!r}", dict(kind="envs", part="c", terms=repr(terms), entry=ename),
                               expected=outcome.describe(want), actual=outcome.describe(got)[:200], functions=["EvaluationMapper.map_sum"]))
    return b


def evaluator_hooks(tier):
    """User subclasses of the evaluators overriding one documented hook: the hook is used, and the result is the plain evaluator's."""
    import pymbolic.primitives as p
    from pymbolic.mapper.evaluator import CachedEvaluationMapper, CachedFloatEvaluationMapper, EvaluationMapper
    b = BoundedRun("evaluator-hooks", rule="subclasses of CachedEvaluationMapper / CachedFloatEvaluationMapper overriding get_cache_key (a key with a generation counter for a re-bindable "
                   "context; identity keys for lists), of EvaluationMapper overriding rec (counting), map_constant and map_variable, of both overriding map_common_subexpression_uncached: "
                   "the override runs (call counts) and every value equals the reference denotation, also after the context was re-bound", bound="6 subclasses x 12 expressions x 3 environments",
                   functions=["CachedEvaluationMapper.__call__", "CachedMapper.get_cache_key", "EvaluationMapper.rec", "CSECachingMapperMixin.map_common_subexpression"])
    x, y, f = trees.X, trees.Y, trees.F
    cse = p.CommonSubexpression(p.Product((x, y)))
    exprs = [p.Sum((x, p.Product((y, 2)))), p.Power(p.Sum((x, 1)), 2), p.Quotient(x, p.Sum((y, 7))), p.If(p.Comparison(x, "<", y), x, y), p.Sum((cse, p.Power(cse, 2))), p.Call(f, (x, p.Sum((x, y)))),
             p.Min((x, y, 3)), p.Sum((x, x, x)), p.Product((p.Sum((x, y)), p.Sum((x, y)))), p.FloorDiv(p.Sum((x, 10)), 3), p.Remainder(p.Sum((y, 10)), 4), p.LogicalAnd((p.Comparison(x, ">", 0), p.Comparison(y, ">", 0)))]
    envs_ = [dict(x=2, y=5, f=lambda a, c: a * 7 + c), dict(x=-1, y=4, f=lambda a, c: a - c), dict(x=Fraction(1, 2), y=3, f=lambda a, c: a * c)]

    class Rebindable(CachedEvaluationMapper):
        generation = 0
        key_calls = 0

        def rebind(self, ctx):
            self.context = ctx
            self.generation += 1

        def get_cache_key(self, expr):
            self.key_calls += 1
            return (self.generation, type(expr), expr)

    class ListKeys(CachedEvaluationMapper):
        def get_cache_key(self, expr):
            return (type(expr), id(expr)) if isinstance(expr, list) else super().get_cache_key(expr)

    class CountingRec(EvaluationMapper):
        rec_calls = 0

        def rec(self, expr, *a, **k):
            self.rec_calls += 1
            return super().rec(expr, *a, **k)

    class Doubling(EvaluationMapper):
        def map_constant(self, expr):
            return 2 * expr

    class UncachedHook(CachedEvaluationMapper):
        hook_calls = 0

        def map_common_subexpression_uncached(self, expr):
            self.hook_calls += 1
            return super().map_common_subexpression_uncached(expr)

    class UncachedHookPlain(EvaluationMapper):
        hook_calls = 0

        def map_common_subexpression_uncached(self, expr):
            self.hook_calls += 1
            return super().map_common_subexpression_uncached(expr)

    def fail(what, detail, want, got):
        b.fail(Failure("evaluator-hooks", f"what={what} {detail}"[:300], dict(kind="ev-hook", what=what, detail=detail[:200]), expected=str(want)[:120], actual=str(got)[:150],
                       functions=["CachedEvaluationMapper.__call__", "CachedMapper.get_cache_key"]))
    m = Rebindable(envs_[0])
    for ei, e in enumerate(exprs):
        if "CommonSubexpression" in repr(e):
            continue        # the wrapper cache of the mix-in is a second cache with a key of its own: outside what this subclass re-keys
        for gi, env in enumerate(envs_ + envs_[:1]):
            m.rebind(env)
            want = outcome.run(lambda: den(e, env))
            got = outcome.run(lambda: m(e))
            b.case(("rebind", ei, gi), nontrivial=True)
            if not outcome.equivalent(got, want, None, typed=False):
                fail("rebindable-context", f"expr={e!r} env#{gi}", outcome.describe(want), outcome.describe(got))
    b.case("key-hook-used")
    if m.key_calls == 0:
        fail("get_cache_key-not-called", "Rebindable", "> 0 calls", m.key_calls)
    r = outcome.run(lambda: ListKeys(envs_[0])([x, p.Sum((y, 1))]))
    b.case("list-keys")
    if r != ("val", [2, 6]):
        fail("identity-keys-for-lists", "[x, y + 1]", [2, 6], outcome.describe(r))
    for e in exprs:
        for env in envs_:
            want = outcome.run(lambda: den(e, env))
            cr = CountingRec(env)
            got = outcome.run(lambda: cr(e))
            b.case(("counting-rec", repr(e), env["x"]))
            if not outcome.equivalent(got, want, None, typed=False) or (got[0] == "val" and isinstance(e, p.Expression) and cr.rec_calls == 0):
                fail("rec-override", f"expr={e!r}", outcome.describe(want), f"{outcome.describe(got)} rec_calls={cr.rec_calls}")
    r = outcome.run(lambda: Doubling(envs_[0])(p.Sum((x, 3, p.Product((2, y))))))
    b.case("doubling")
    if r != ("val", 2 + 6 + 4 * 5):
        fail("map_constant-override", "x + 3 + 2*y", 28, outcome.describe(r))
    for cls in (UncachedHook, UncachedHookPlain):
        mm = cls(envs_[0])
        r = outcome.run(lambda: mm(exprs[4]))
        b.case(("uncached-hook", cls.__name__))
        if r != ("val", den(exprs[4], envs_[0])) or mm.hook_calls != 1:
            fail("map_common_subexpression_uncached-override", cls.__name__, "value, 1 hook call", f"{outcome.describe(r)} hook_calls={mm.hook_calls}")
    return b


def containers_and_float(tier):
    """Lists / tuples / arrays as expressions, in both evaluators; the float entry point."""
    import numpy as np
    import pymbolic.primitives as p
    from pymbolic.mapper.evaluator import CachedEvaluationMapper, EvaluationMapper, FloatEvaluationMapper, evaluate, evaluate_kw, evaluate_to_float
    b = BoundedRun("containers-and-float", rule="expressions that are or contain Python lists, tuples and object arrays (top level, as call arguments, nested), with the plain "
                   "evaluator, the memoizing evaluator and the entry points evaluate / evaluate_kw: the element-wise reference value, and plain == memoizing; "
                   "evaluate_to_float / FloatEvaluationMapper on arithmetic trees over + - * / ** with integer leaves: the value of the same tree with every constant read "
                   "as a float", bound="24 container expressions x 3 environments; 60 arithmetic trees x 3 environments", functions=["EvaluationMapper.map_list/map_tuple/map_numpy_array",
                                                                                                                               "CachedEvaluationMapper", "evaluate_to_float"])
    x, y, f = trees.X, trees.Y, trees.F
    envs_ = [dict(x=2, y=5, f=lambda *a: sum(sum(t) if isinstance(t, (list, tuple)) else t for t in a)), dict(x=-1, y=Fraction(1, 2), f=lambda *a: len(a)),
             dict(x=0, y=7, f=lambda *a: repr(a))]

    def ref(e, env):
        if isinstance(e, list):
            return [ref(c, env) for c in e]
        if isinstance(e, tuple):
            return tuple(ref(c, env) for c in e)
        if isinstance(e, np.ndarray):
            out = np.empty(e.shape, dtype=object)
            for i in np.ndindex(e.shape):
                out[i] = ref(e[i], env)
            return out
        if isinstance(e, p.Call):
            return env[e.function.name](*[ref(c, env) for c in e.parameters])
        return den(e, env)
    conts = [[x, 1], [x, [y, 2]], (x, y), (x, (y, 3)), [p.Sum((x, y)), p.Product((x, 2))], ([x], (y,)), [], (), [(x, y), [y, x]],
             p.Call(f, ([x, 1],)), p.Call(f, ((x, y), 2)), p.Call(f, ([x, y], [y, x])), p.Call(f, ((x, (y, 1)),)), [p.Call(f, (x,)), p.Call(f, ((x, x),))],
             np.array([x, p.Sum((x, 1)), 3], dtype=object), np.array([[x, y], [1, p.Product((x, y))]], dtype=object)]
    # arrays whose entries evaluate to sequences of one common length (tuples, lists, calls returning tuples, variables bound to tuples): the entries stay entries
    for ents in ([(x, p.Sum((y, 1))), (p.Product((x, y)), 2)], [[x, y], [y, x], [1, 2]], [p.Call(p.Variable("g"), (x,)), p.Call(p.Variable("g"), (y,))],
                 [p.Variable("t"), p.Variable("t")], [(x,), (y,)], [(x, y), p.Variable("t")]):
        a_ = np.empty(len(ents), dtype=object)
        for i_, en in enumerate(ents):
            a_[i_] = en
        conts.append(a_)
        if len(ents) == 2:
            a2_ = np.empty((2, 1), dtype=object)
            a2_[0, 0], a2_[1, 0] = ents
            conts.append(a2_)
    # arrays of a numeric dtype (their entries are numbers, not expressions): alone, in a tuple, as a call argument
    for na in (np.array([1, 2, 3]), np.array([[1, 2], [3, 4]]), np.array([True, False]), np.array([1.5, -2.0])):
        conts += [na, (x, na), p.Call(f, (na,))]
    for env in envs_:
        env.update(g=lambda v: (v, v), t=(7, 8))

    def arr_same(u, v):
        return isinstance(u, np.ndarray) and u.shape == v.shape and u.dtype == v.dtype and all(deep_same(u[i], v[i]) for i in np.ndindex(v.shape))

    def deep_same(u, v):
        if isinstance(v, np.ndarray):
            return arr_same(u, v)
        if isinstance(v, (list, tuple)):
            return type(u) is type(v) and len(u) == len(v) and all(deep_same(a_, c_) for a_, c_ in zip(u, v))
        return type(u) is type(v) and bool(u == v)

    def run_rec(fn):
        try:
            return outcome.run(fn)
        except RecursionError:
            return ("exc", RecursionError, ("maximum recursion depth exceeded",))
    for e in conts:
        has_list = "[" in repr(e) or isinstance(e, np.ndarray)     # a list or an array somewhere: unhashable
        for env in envs_:
            want = outcome.run(lambda: ref(e, env))
            for name, fn in (("plain", lambda: EvaluationMapper(env)(e)), ("cached", lambda: CachedEvaluationMapper(env)(e)), ("evaluate", lambda: evaluate(e, env)),
                             ("evaluate_kw", lambda: evaluate_kw(e, **env))):
                got = run_rec(fn)
                b.case(("cont", repr(e)[:80], name, env["x"]), sample=dict(expr=repr(e)[:80], entry=name))
                same = got[0] == want[0] and (got[0] == "exc" or deep_same(got[1], want[1]))
                if not same:
                    cause = " cause=unhashable-container-in-memoizing-evaluator" if (has_list and name != "plain" and got[0] == "exc" and issubclass(got[1], TypeError)) else ""
                    b.fail(Failure("containers-and-float", f"what=container{cause} entry={name} expr={e!r}"[:300], dict(kind="cont", expr=repr(e)[:200], entry=name),
                                   expected=outcome.describe(want)[:120], actual=outcome.describe(got)[:120], functions=["EvaluationMapper.map_list", "CachedMapper.get_cache_key"]))
    # float entry point
    leaves = [x, y, 3, -2, 1]
    arith = []
    for u, v in itertools.product(leaves, repeat=2):
        arith += [p.Sum((u, v)), p.Product((u, v)), p.Quotient(u, v), p.Power(u, 2), p.Sum((p.Quotient(u, 7), v))]
    # exact quotient nodes (Rational) of integers and of variables, alone and inside sums
    from pymbolic.rational import Rational
    arith += [Rational(1, 3), Rational(-7, 2), Rational(x, 3), Rational(y, -4), p.Sum((Rational(1, 3), x)), p.Product((Rational(x, 5), 2))]
    fenvs = [dict(x=2, y=5), dict(x=-1.5, y=0.25), dict(x=3, y=-4)]

    def fref(e, env):
        if isinstance(e, p.Variable):
            return env[e.name]
        if not isinstance(e, p.Expression):
            return float(e)
        if isinstance(e, p.Sum):
            return sum((fref(c, env) for c in e.children), 0)
        if isinstance(e, p.Product):
            r = 1
            for c in e.children:
                r = r * fref(c, env)
            return r
        if isinstance(e, (p.Quotient, Rational)):
            return fref(e.numerator, env) / fref(e.denominator, env)
        if isinstance(e, p.Power):
            return fref(e.base, env) ** fref(e.exponent, env)
        raise KeyError
    from pymbolic.mapper.evaluator import CachedFloatEvaluationMapper
    for e in arith[:: (1 if tier == "thorough" else 2)] + arith[-6:]:
        for env in fenvs:
            want = outcome.run(lambda: fref(e, env))
            for name, fn in (("evaluate_to_float", lambda: evaluate_to_float(e, env)), ("FloatEvaluationMapper", lambda: FloatEvaluationMapper(env)(e)),
                             ("CachedFloatEvaluationMapper", lambda: CachedFloatEvaluationMapper(env)(e))):
                got = outcome.run(fn)
                b.case(("float", repr(e), name, env["x"]))
                ok = (got[0] == "exc" and want[0] == "exc") or (got[0] == "val" and want[0] == "val" and abs(got[1] - want[1]) <= 1e-12 * (1 + abs(want[1])))
                if not ok:
                    b.fail(Failure("containers-and-float", f"what=float entry={name} expr={e!r} x={env['x']}", dict(kind="float", expr=repr(e), entry=name),
                                   expected=outcome.describe(want)[:100], actual=outcome.describe(got)[:100], functions=["evaluate_to_float", "FloatEvaluationMapper.map_constant"]))
    return b


def cse_once(tier):
    """Each distinct wrapper is computed once per evaluator instance; histories of calls on one instance."""
    import pymbolic.primitives as p
    from pymbolic.mapper.evaluator import CachedEvaluationMapper, EvaluationMapper
    b = BoundedRun("cse-once", rule="call-counting function inside CSE wrappers; sequences of <=3 evaluations on one "
                   "instance; count of child evaluations per distinct wrapper must be 1; non-trivial = history with a repeated wrapper",
                   bound="histories <= 3, 8 wrapper shapes (incl. a child evaluating to None, the three scopes)", functions=["CSECachingMapperMixin.map_common_subexpression"])
    calls = []

    def g(v):
        calls.append(v)
        return v * 2
    x = trees.X
    w1 = p.CommonSubexpression(p.Call(p.Variable("g"), (x,)))
    w2 = p.CommonSubexpression(p.Call(p.Variable("g"), (p.Sum((x, 1)),)), "pre")
    w1b = p.CommonSubexpression(p.Call(p.Variable("g"), (x,)))
    # a wrapper whose child evaluates to None (a call made for its effect), consumed by another call; wrappers of the other scopes
    def gn(v):
        calls.append(("none", v))
        return None
    w3 = p.CommonSubexpression(p.Call(p.Variable("gn"), (x,)))
    w4 = p.CommonSubexpression(p.Call(p.Variable("g"), (p.Sum((x, 2)),)), None, p.cse_scope.GLOBAL)
    w5 = p.CommonSubexpression(p.Call(p.Variable("g"), (p.Sum((x, 3)),)), "e", p.cse_scope.EXPRESSION)
    k2 = p.Variable("k2")
    exprs = [p.Sum((w1, w1)), p.Product((w1, w2, w1b)), p.Sum((w2, p.Product((w2, w1)))), w1, p.Call(k2, (w3, w3)), p.Sum((p.Call(k2, (w3, w1)), p.Call(k2, (w3, 1)))),
             p.Sum((w4, w4, w5)), p.Product((w5, p.Sum((w5, w4))))]
    for cls in (EvaluationMapper, CachedEvaluationMapper):
        for hist in itertools.chain(itertools.product(exprs, repeat=1), itertools.product(exprs, repeat=2),
                                    itertools.product(exprs[:3], repeat=3)):
            del calls[:]
            m = cls({"x": 3, "g": g, "gn": gn, "k2": lambda a_, b_: 7})
            vals = []
            for e in hist:
                vals.append(m(e))
            expect = [den(e, {"x": 3, "g": lambda v: v * 2, "gn": lambda v: None, "k2": lambda a_, b_: 7}) for e in hist]
            distinct_args = set(calls)
            b.case((cls.__name__, tuple(repr(h) for h in hist)), nontrivial=len(hist) > 1,
                   sample=dict(mapper=cls.__name__, history=[repr(h) for h in hist]))
            if vals != expect or len(calls) != len(distinct_args):
                b.fail(Failure("cse-once", f"mapper={cls.__name__} history={[repr(h) for h in hist]} calls={calls}",
                               dict(kind="cse-once", mapper=cls.__name__, history=[trees.src(h) for h in hist]),
                               expected=f"values {expect}, one evaluation per distinct wrapper child",
                               actual=f"values {vals}, child evaluations {calls}",
                               functions=["CSECachingMapperMixin.map_common_subexpression"]))
    # many distinct wrappers on one evaluator (more than any plausible bound on a table), each occurring again after all the others
    M = 3000 if tier == "thorough" else 700
    ws = [p.CommonSubexpression(p.Call(p.Variable("g"), (p.Sum((x, i)),)), "w" if i % 3 else None) for i in range(M)]
    big = [p.Sum(tuple(ws)), p.Sum(tuple(ws[::-1])), p.Product((ws[0], ws[M - 1], ws[M // 2]))]
    for cls in (EvaluationMapper, CachedEvaluationMapper):
        del calls[:]
        m = cls({"x": 3, "g": g})
        r = outcome.run(lambda: [m(e) for e in big])
        b.case((cls.__name__, "many-wrappers", M), nontrivial=True, sample=dict(mapper=cls.__name__, wrappers=M))
        want = [sum(2 * (3 + i) for i in range(M))] * 2 + [2 * 3 * 2 * (3 + M - 1) * 2 * (3 + M // 2)]
        if r != ("val", want) or len(calls) != M:
            b.fail(Failure("cse-once", f"mapper={cls.__name__} what=many-wrappers n={M} child_evaluations={len(calls)}", dict(kind="cse-once-large", mapper=cls.__name__, n=M),
                           expected=f"{M} child evaluations", actual=f"{len(calls)} child evaluations, values {'right' if r == ('val', want) else 'wrong'}",
                           functions=["CSECachingMapperMixin.map_common_subexpression"]))
    return b


def replay(case):
    from harness.trees import from_src
    if case.get("kind") == "eval":
        e = from_src(case["expr"])
        env = {k: eval(v, {"Fraction": Fraction}) for k, v in case["env"].items()}  # noqa: S307
        full = envs("quick", 0)[0]
        full.update(env)
        return bool(check_case(e, full, case.get("entry")))
    if case.get("kind") == "cse-once":
        b = cse_once("quick")
        return any(f.case == case for f in b.failures)
    if case.get("kind") == "envs":
        return any(f.case == case for f in environments("quick").failures)
    raise ValueError(case)

"""C01  Expression nodes: structural equality, consistent hashing, immutability."""
from __future__ import annotations

import copy
import dataclasses
import itertools
import pickle
import warnings

from contracts import c01 as K
from harness import outcome, trees
from harness.runner import BoundedRun, Failure
from pyvc import verify

LEVEL = "proof"
SPECS = []
EXPLANATION = (
    "For every expression dataclass (and the fixture hierarchies: decorated, undecorated-legacy, mixed) the text of "
    "the generated __eq__/__hash__/__getstate__/__setstate__/__getinitargs__/init_arg_names is captured from "
    "_MODULE_SOURCE_CODE, byte-code-compared with the running functions, and proved: eq <=> same class and "
    "field-wise ==; fresh hash caches its value and assigns nothing else; SpecEq => equal hashes; a cached hash is "
    "returned unchanged; state methods carry exactly the fields and never the cached hash; __post_init__ contracts; "
    "the decorator configures frozen=__debug__, eq=False; a frame scan shows attribute writes that can reach an "
    "existing expression object occur only at those proved sites. Bounded: pairs/triples, histories, fixtures.")
ASSUMPTIONS = [
    "A-EQ: == on field values (numbers, strings, tuples, nested expressions) is an equivalence relation compatible with hash; "
    "the hash of a tuple is a function of the hashes of its elements",
    "dataclasses(frozen=True) makes __setattr__/__delattr__ raise (CPython)",
    "A-WARN: warnings.warn returns None; deprecation bookkeeping ignored",
    "hash() of field values does not raise (fields hashable)",
]
TRUSTED_BASE = ["dataclasses", "the lemma 'SpecEq is an equivalence relation' follows from A-EQ field-wise (reflexive/symmetric/transitive)"]


def all_classes(include_handwritten=False):
    """Classes whose equality is the generated / init-args-protocol one.  Classes that write __eq__ by hand (Rational, Polynomial)
    are judged by the relational clauses only (bounded run own-equality); C17 includes them for the state-method obligations."""
    from contracts import fixtures_nodes as fxn
    ks = [k for k in verify.node_class_table() if _has_fields(k) and (include_handwritten or not K.handwritten(k, "__eq__"))]
    return ks + fxn.DECORATED + fxn.LEGACY_INHERITING + fxn.LEGACY + [fxn.LegacyExtended, fxn.LegacyExtendedSub]


def _has_fields(k):
    from pyvc import loader
    try:
        loader.field_kinds(k)
        return True
    except TypeError:
        return False


def proof_jobs(tier):
    jobs = [("custom", K.class_obligations, k, None) for k in all_classes()]
    jobs += [("function", fc, None, None) for fc in K.POST_INIT]
    jobs += [("custom", K.config_obligations, None, None), ("custom", K.frame_scan, None, None)]
    return jobs


# ----------------------------------------------------------------------------- bounded
FIELD_VALUES = {
    "v": [trees.X, trees.Y, 0, 1, 1.0, True, -1, -2],
    "seq": [(), (trees.X,), (trees.X, 1), (1.0, trees.X), (trees.X, trees.Y)],
    "str": ["a", "b"],
}


def instances(cls, limit=40):
    """Instances of cls over the reduced field alphabet, incl. one-field-apart pairs."""
    import pymbolic.primitives as p
    from immutabledict import immutabledict
    from pyvc import loader
    kinds = loader.field_kinds(cls)
    choices = []
    for name, kind in kinds.items():
        if cls is p.Comparison and name == "operator":
            choices.append(["==", "<", ">="])
        elif name == "scope":
            choices.append([p.cse_scope.EVALUATION, p.cse_scope.GLOBAL])
        elif name == "prefix":
            choices.append([None, "p"])
        elif name == "data_type":
            choices.append([None, float])
        elif kind == "map":
            choices.append([immutabledict(), immutabledict({"k": trees.X}), immutabledict({"k": 1}), immutabledict({"k": 1.0, "l": trees.Y})])
        elif kind == "seq" and name == "variables":
            choices.append([("x",), ("x", "y")])
        else:
            choices.append(FIELD_VALUES[kind])
    out = []
    for combo in itertools.islice(itertools.product(*choices), 0, 2000):
        try:
            with warnings.catch_warnings():
                warnings.simplefilter("ignore")
                out.append(cls(*combo))
        except Exception:  # noqa: BLE001
            pass
    if len(out) > limit:
        out = trees.thin(out, limit, seed=len(out)) + out[:6]
    return out


def spec_eq(a, b):
    from pyvc import loader
    if type(a) is not type(b):
        return False
    return all(getattr(a, n) == getattr(b, n) for n in loader.field_kinds(type(a)))


def bounded(tier, seed, procs):
    import pymbolic.primitives as p
    from contracts import fixtures_nodes as fxn
    from pymbolic.mapper import IdentityMapper
    b1 = BoundedRun("eq-hash", rule="for every node class (built-in, decorated fixtures, legacy fixtures): all pairs of instances over the "
                    "reduced field alphabet {x, y, 0, 1, 1.0, True, -1, tuples, operators, prefixes, scopes, kw mappings} incl. one-field-apart "
                    "pairs: == agrees with the field-wise specification, is symmetric, != is its negation, equal => equal hash and "
                    "interchangeable as dict/set key; reflexive; transitive on sampled triples; cross-class pairs unequal; non-trivial = pair of distinct objects",
                    bound="<= 46 instances per class, all pairs", functions=["generated __eq__/__hash__", "Expression.__eq__/__hash__/is_equal/get_hash"])
    per_class = {}
    with warnings.catch_warnings():
        warnings.simplefilter("ignore")
        for k in all_classes():
            per_class[k] = instances(k)
        reps = []
        for k, insts in per_class.items():
            for a in insts:
                r = outcome.run(lambda: (a == a, hash(a) == hash(a), a in {a: 1}))
                b1.case(("refl", k.__name__, repr(a)), nontrivial=False)
                if r != ("val", (True, True, True)):
                    b1.fail(Failure("eq-hash", f"mode=reflexive cls={k.__name__} a={a!r}", dict(kind="eqhash", mode="refl", cls=k.__name__, a=repr(a)),
                                    expected="a == a, stable hash, dict member", actual=outcome.describe(r), functions=[f"{k.__name__}.__eq__", f"{k.__name__}.__hash__"]))
            for a, c in itertools.combinations(insts, 2):
                exp = spec_eq(a, c)
                r = outcome.run(lambda: (a == c, c == a, a != c, (hash(a) == hash(c)), (c in {a: 1}), (c in {a})))
                b1.case(("pair", k.__name__, repr(a), repr(c)), nontrivial=True, sample=dict(cls=k.__name__, a=repr(a), b=repr(c), spec_equal=exp))
                ok = r[0] == "val" and r[1][0] == exp and r[1][1] == exp and r[1][2] == (not exp) and (not exp or (r[1][3] and r[1][4] and r[1][5]))
                if not ok:
                    b1.fail(Failure("eq-hash", f"mode=pair cls={k.__name__} a={a!r} b={c!r} spec_equal={exp}",
                                    dict(kind="eqhash", mode="pair", cls=k.__name__, a=repr(a), b=repr(c)),
                                    expected=f"== is {exp} both ways, != is {not exp}, equal => same hash and key",
                                    actual=outcome.describe(r), functions=[f"{k.__name__}.__eq__", f"{k.__name__}.__hash__"]))
            if insts:
                reps.append(insts[0])
            for t3 in itertools.islice(itertools.combinations(insts[:12], 3), 120):
                a, c, d = t3
                r = outcome.run(lambda: (a == c, c == d, a == d))
                b1.case(("triple", k.__name__, repr(t3)), nontrivial=True)
                if r[0] == "val" and r[1][0] and r[1][1] and not r[1][2]:
                    b1.fail(Failure("eq-hash", f"mode=transitive cls={k.__name__} {t3!r}", dict(kind="eqhash", mode="trans", cls=k.__name__, t=repr(t3)),
                                    expected="transitive", actual=str(r), functions=[f"{k.__name__}.__eq__"]))
        for a, c in itertools.combinations(reps, 2):
            r = outcome.run(lambda: (a == c, c == a, a != c))
            b1.case(("cross", repr(a), repr(c)), nontrivial=True)
            if r != ("val", (False, False, True)):
                b1.fail(Failure("eq-hash", f"mode=cross-class a={a!r} b={c!r}", dict(kind="eqhash", mode="cross", a=repr(a), b=repr(c)),
                                expected="unequal", actual=outcome.describe(r), functions=[f"{type(a).__name__}.__eq__"]))
        for a in reps:
            for other in (0, "s", None, (a,), object()):
                r = outcome.run(lambda: (a == other, a != other))
                b1.case(("nonexpr", repr(a), repr(other)[:20]))
                if r != ("val", (False, True)):
                    b1.fail(Failure("eq-hash", f"mode=non-expression a={a!r} other={other!r}", dict(kind="eqhash", mode="nonexpr", a=repr(a)),
                                    expected="unequal", actual=outcome.describe(r), functions=[f"{type(a).__name__}.__eq__"]))

    # immutability + histories
    b2 = BoundedRun("immutable-histories", rule="every field of an instance of every class: setattr and delattr raise (default mode); operation histories "
                    "of length <= 3 over {hash, ==, copy, deepcopy, pickle round trip, identity map, failed setattr, dict insert}: after every step "
                    "the object is == to a twin built from the same source, hashes like it and finds it in a dict/set; the cached hash, if any, equals a fresh twin's hash",
                    bound="1-2 instances per class x 8^3 histories (quick: 8^2)", functions=["expr_dataclass.map_cls", "generated __hash__/__setstate__"])
    ops = ["hash", "eq", "copy", "deepcopy", "pickle", "idmap", "setattr", "dictkey"]
    L = 3 if tier == "thorough" else 2
    with warnings.catch_warnings():
        warnings.simplefilter("ignore")
        for k in all_classes():
            insts = per_class[k][:2]
            from pyvc import loader
            names = list(loader.field_kinds(k))
            for a in insts:
                if "_is_expr_dataclass" in k.__dict__ or any("_is_expr_dataclass" in q.__dict__ for q in k.__mro__):
                    dc_names = [f.name for f in dataclasses.fields(k)] if dataclasses.is_dataclass(k) else []
                    for n in [n for n in names if n in dc_names]:
                        victim = _rebuild(a)
                        r1 = outcome.run(lambda: setattr(victim, n, 0))
                        r2 = outcome.run(lambda: delattr(victim, n))
                        b2.case(("setattr", k.__name__, n), sample=dict(cls=k.__name__, field=n))
                        frozen_expected = dataclasses.is_dataclass(k) and __debug__
                        if frozen_expected and (r1[0] != "exc" or r2[0] != "exc"):
                            b2.fail(Failure("immutable-histories", f"mode=rebind cls={k.__name__} field={n}", dict(kind="immut", mode="rebind", cls=k.__name__, field=n),
                                            expected="setattr and delattr raise", actual=f"{outcome.describe(r1)} / {outcome.describe(r2)}",
                                            functions=["expr_dataclass.map_cls"]))
                # fields a legacy class adds itself (init-args protocol): the statement promises the same for them
                dc_names_all = [f.name for f in dataclasses.fields(k)] if dataclasses.is_dataclass(k) else []
                for n in [n for n in names if n not in dc_names_all]:
                    victim = _rebuild(a)
                    before = outcome.run(lambda: hash(victim))
                    r1 = outcome.run(lambda: setattr(victim, n, 0))
                    b2.case(("setattr-legacy", k.__name__, n), sample=dict(cls=k.__name__, field=n))
                    if __debug__ and r1[0] != "exc":
                        twin = _rebuild(a)
                        stale = outcome.run(lambda: (victim == twin, hash(victim) == hash(twin)))
                        b2.fail(Failure("immutable-histories", f"cause=legacy-field-not-frozen mode=rebind cls={k.__name__} field={n}",
                                        dict(kind="immut", mode="rebind-legacy", cls=k.__name__, field=n), expected="setattr raises",
                                        actual=f"{outcome.describe(r1)}; afterwards (== twin, same hash as twin) = {outcome.describe(stale)}",
                                        functions=["Expression (init-args protocol)"]))
                src = repr(a)
                for hist in itertools.product(ops, repeat=L):
                    obj = _rebuild(a)
                    twin = _rebuild(a)
                    ok, why = True, ""
                    for op in hist:
                        res = outcome.run(lambda: _apply(op, obj, names))
                        if res[0] == "exc":
                            ok, why = False, f"{op} raised {res[1].__name__}"
                            break
                        if op in ("copy", "deepcopy", "pickle", "idmap"):
                            obj2 = res[1]
                            if not (obj2 == twin and hash(obj2) == hash(twin) and obj2 in {twin}):
                                ok, why = False, f"result of {op} is not equal / not found by its twin"
                                break
                            if op != "idmap":
                                obj = obj2
                        chk = outcome.run(lambda: (obj == twin, hash(obj) == hash(_rebuild(a)), obj in {twin: 1}, getattr(obj, "_hash_value", hash(twin)) == hash(twin)))
                        if chk != ("val", (True, True, True, True)):
                            ok, why = False, f"after {op}: {chk}"
                            break
                    b2.case((k.__name__, src, hist), nontrivial=len(set(hist)) > 1, sample=dict(cls=k.__name__, history=list(hist)))
                    if not ok:
                        b2.fail(Failure("immutable-histories", f"mode=history cls={k.__name__} obj={src} history={list(hist)} why={why}",
                                        dict(kind="immut", mode="history", cls=k.__name__, obj=src, history=list(hist)),
                                        expected="equality class and hash unchanged", actual=why, functions=[f"{k.__name__}.__hash__", f"{k.__name__}.__setstate__"]))
    # NaN node, keyword mappings
    b3 = BoundedRun("special", rule="NaN nodes equal each other and themselves; CallWithKwargs with dict vs immutabledict keyword mappings and different "
                    "insertion orders are equal with equal hashes; Comparison by-name operators normalise; constants 1/1.0/True in fields compare as Python does",
                    bound="fixed list", functions=["CallWithKwargs.__post_init__", "Comparison.__post_init__", "NaN"])
    from immutabledict import immutabledict
    with warnings.catch_warnings():
        warnings.simplefilter("ignore")
        cases = [
            ("nan", lambda: (p.NaN() == p.NaN(), hash(p.NaN()) == hash(p.NaN()), p.NaN() in {p.NaN()}), (True, True, True)),
            ("kw-dict-vs-immutabledict", lambda: (p.CallWithKwargs(trees.F, (), {"a": 1}) == p.CallWithKwargs(trees.F, (), immutabledict({"a": 1})),
                                                   hash(p.CallWithKwargs(trees.F, (), {"a": 1})) == hash(p.CallWithKwargs(trees.F, (), immutabledict({"a": 1})))), (True, True)),
            ("kw-order", lambda: (p.CallWithKwargs(trees.F, (), immutabledict({"a": 1, "b": 2})) == p.CallWithKwargs(trees.F, (), immutabledict({"b": 2, "a": 1})),
                                  hash(p.CallWithKwargs(trees.F, (), immutabledict({"a": 1, "b": 2}))) == hash(p.CallWithKwargs(trees.F, (), immutabledict({"b": 2, "a": 1})))), (True, True)),
            ("cmp-by-name", lambda: (p.Comparison(trees.X, "eq", 1) == p.Comparison(trees.X, "==", 1), p.Comparison(trees.X, "le", 1).operator), (True, "<=")),
            ("cmp-invalid", lambda: outcome.run(lambda: p.Comparison(trees.X, "=<", 1))[0], "exc"),
            ("cse-scope-none", lambda: p.CommonSubexpression(trees.X, None, None).scope, p.cse_scope.EVALUATION),
            ("mixed-type-constants", lambda: (p.Sum((trees.X, 1)) == p.Sum((trees.X, 1.0)), hash(p.Sum((trees.X, 1))) == hash(p.Sum((trees.X, True)))), (True, True)),
        ]
        from pymbolic.polynomial import Polynomial
        from pymbolic.rational import Rational
        cases += [
            ("legacy-builtin-hashable-Polynomial", lambda: hash(Polynomial(trees.X, ((0, 1), (1, 2)))) == hash(Polynomial(trees.X, ((0, 1), (1, 2)))), True),
            ("legacy-builtin-hashable-Rational", lambda: hash(Rational(1, 2)) == hash(Rational(1, 2)), True),
            ("legacy-builtin-eq-Polynomial", lambda: Polynomial(trees.X, ((0, 1), (1, 2))) == Polynomial(trees.X, ((0, 1), (1, 2))), True),
            ("legacy-builtin-eq-Rational", lambda: Rational(1, 2) == Rational(1, 2), True),
        ]
        for name, f, want in cases:
            r = outcome.run(f)
            b3.case(name, sample=name)
            if r != ("val", want):
                b3.fail(Failure("special", f"case={name}", dict(kind="special", case=name), expected=str(want), actual=outcome.describe(r), functions=["primitives"]))
    return [b1, b2, b3, b_class_histories(tier), b_post_init(tier), b_own_equality(tier)]


def b_own_equality(tier):
    """Node classes with a hand-written __eq__/__hash__ (Rational, Polynomial): the relational clauses of the statement."""
    import pymbolic.primitives as p
    from pymbolic.polynomial import Polynomial
    from pymbolic.rational import Rational
    b = BoundedRun("own-equality", rule="Rational and Polynomial instances together with the nodes and numbers they are built from: == is reflexive; for every ordered "
                   "pair of expression objects == is symmetric, != its negation, equal => same class, equal hashes and interchangeable as dict/set key; transitive "
                   "on all triples; objects rebuilt from the same arguments are equal", bound="~25 objects, all pairs and triples",
                   functions=["Rational.__eq__", "Rational.__hash__", "Polynomial.__eq__", "Polynomial.__hash__"])
    x, y = trees.X, trees.Y
    mk = [lambda: x, lambda: y, lambda: p.Sum((x, 1)), lambda: p.Quotient(x, 2), lambda: Rational(x, 1), lambda: Rational(x), lambda: Rational(x, 2), lambda: Rational(y, 1),
          lambda: Rational(3, 1), lambda: Rational(6, 2), lambda: Rational(p.Sum((x, 1)), 1), lambda: Rational(p.Sum((x, 1)), 2), lambda: Rational(x, y),
          lambda: Polynomial(x, ((0, 1), (2, 3))), lambda: Polynomial(x, ((0, 1), (2, 3)), unit=1), lambda: Polynomial(x, ((1, 1),)), lambda: Polynomial(x),
          lambda: Polynomial(y, ((1, 1),)), lambda: Polynomial(x, ((0, 1),)), lambda: Polynomial(x, ()), lambda: Polynomial(x, ((0, y),)), lambda: p.Power(x, 1)]
    objs = []
    for i, f in enumerate(mk):
        r1, r2 = outcome.run(f), outcome.run(f)
        b.case(("build", i))
        if r1[0] != "val" or r2[0] != "val":
            continue
        objs.append((i, r1[1]))
        h = outcome.run(lambda: (r1[1] == r2[1], hash(r1[1]) == hash(r2[1]), r1[1] == r1[1], r2[1] in {r1[1]: 1}))
        if h != ("val", (True, True, True, True)):
            b.fail(Failure("own-equality", f"what=own-equality mode=rebuilt obj={r1[1]!r}", dict(kind="own-eq", mode="rebuilt", index=i), expected="equal, same hash, key",
                           actual=outcome.describe(h)[:200], functions=[f"{type(r1[1]).__name__}.__eq__"]))

    def cause(u, v):
        ku, kv = isinstance(u, Rational), isinstance(v, Rational)
        return " cause=rational-coerces-operand" if ku != kv else ""
    eqs = {}
    for (i, u), (j, v) in itertools.permutations(objs, 2):
        r = outcome.run(lambda: (u == v, v == u, u != v))
        b.case(("pair", i, j), sample=dict(a=repr(u), b=repr(v)))
        if r[0] != "val":
            b.fail(Failure("own-equality", f"what=own-equality mode=raised{cause(u, v)} a={u!r} b={v!r}", dict(kind="own-eq", mode="pair", a=i, b=j), expected="a truth value",
                           actual=outcome.describe(r)[:200], functions=[f"{type(u).__name__}.__eq__"]))
            continue
        e1, e2, ne = (bool(t) for t in r[1])
        eqs[i, j] = e1
        bad = []
        if e1 != e2:
            bad.append("asymmetric")
        if ne != (not e1):
            bad.append("!= is not the negation")
        if e1:
            if type(u) is not type(v):
                bad.append("equal across classes")
            hh = outcome.run(lambda: (hash(u) == hash(v), v in {u: 1}, v in {u}))
            if hh != ("val", (True, True, True)):
                bad.append("equal but hash/key differs")
        if bad:
            b.fail(Failure("own-equality", f"what=own-equality mode=pair{cause(u, v)} wrong={'; '.join(bad)} a={u!r} b={v!r}", dict(kind="own-eq", mode="pair", a=i, b=j),
                           expected="symmetric, same class, same hash", actual=outcome.describe(r)[:200], functions=[f"{type(u).__name__}.__eq__", f"{type(u).__name__}.__hash__"]))
    idx = [i for i, _ in objs]
    for i, j, k in itertools.permutations(idx, 3):
        b.case(("triple", i, j, k), nontrivial=False)
        if eqs.get((i, j)) and eqs.get((j, k)) and not eqs.get((i, k)):
            d = dict(objs)
            c = cause(d[i], d[j]) or cause(d[j], d[k])
            b.fail(Failure("own-equality", f"what=own-equality mode=transitivity{c} a={d[i]!r} b={d[j]!r} c={d[k]!r}", dict(kind="own-eq", mode="triple", a=i, b=j, c=k),
                           expected="a == c", actual="a == b, b == c, a != c", functions=["__eq__"]))
    return b


def b_post_init(tier):
    """Normalisation done in __post_init__: any mapping given as kw_parameters, comparison operators by name, CSE scope default."""
    import collections
    import types
    import pymbolic.primitives as p
    from immutabledict import immutabledict
    b = BoundedRun("post-init-normalisation", rule="CallWithKwargs built directly with every kind of mapping as kw_parameters (dict, OrderedDict, defaultdict, immutabledict, "
                   "MappingProxyType, UserDict, ChainMap, a user Mapping class; empty, one and two entries, two insertion orders): the node is hashable, equals (both ways, same "
                   "hash, same dict key) the node built from an immutabledict with the same entries, differs from one with other entries, and does not change when the caller "
                   "mutates the mapping afterwards; Comparison operators given by name equal the symbol form; CommonSubexpression(scope=None) equals the default scope",
                   bound="8 mapping kinds x 4 contents x pairs", functions=["CallWithKwargs.__post_init__", "Comparison.__post_init__", "CommonSubexpression.__post_init__"])

    class MyMap(collections.abc.Mapping):
        def __init__(self, d):
            self._d = dict(d)

        def __getitem__(self, k):
            return self._d[k]

        def __iter__(self):
            return iter(self._d)

        def __len__(self):
            return len(self._d)
    x, y, f = trees.X, trees.Y, trees.F
    contents = [{}, {"a": x}, {"a": x, "b": 2}, {"b": 2, "a": x}]
    kinds = {"dict": dict, "OrderedDict": collections.OrderedDict, "defaultdict": lambda d: collections.defaultdict(int, d), "immutabledict": immutabledict,
             "MappingProxyType": lambda d: types.MappingProxyType(dict(d)), "UserDict": collections.UserDict, "ChainMap": lambda d: collections.ChainMap(dict(d)), "MyMap": MyMap}
    with warnings.catch_warnings():
        warnings.simplefilter("ignore")
        for kname, mk in kinds.items():
            for ci, cont in enumerate(contents):
                src = mk(cont)
                r = outcome.run(lambda: p.CallWithKwargs(f, (y,), src))
                b.case(("kw", kname, ci), sample=dict(mapping=kname, entries=sorted(cont)))
                ref = p.CallWithKwargs(f, (y,), immutabledict(cont))
                other = p.CallWithKwargs(f, (y,), immutabledict({**cont, "zz": 1}))
                chk = outcome.run(lambda: (hash(r[1]) == hash(ref), r[1] == ref, ref == r[1], ref in {r[1]: 1}, r[1] != other, dict(r[1].kw_parameters) == dict(cont))) if r[0] == "val" else r
                if chk != ("val", (True, True, True, True, True, True)):
                    b.fail(Failure("post-init-normalisation", f"what=kw-mapping kind={kname} entries={sorted(cont)}", dict(kind="postinit", mapping=kname, entries=sorted(cont)),
                                   expected="hashable, equal to the immutabledict form", actual=outcome.describe(chk)[:200], functions=["CallWithKwargs.__post_init__"]))
                    continue
                # the caller mutates its mapping afterwards
                h0 = hash(r[1])
                try:
                    if kname in ("dict", "OrderedDict", "defaultdict", "UserDict"):
                        src["late"] = 5
                    elif kname == "ChainMap":
                        src.maps[0]["late"] = 5
                    elif kname == "MyMap":
                        src._d["late"] = 5
                except Exception:   # noqa: BLE001
                    pass
                chk2 = outcome.run(lambda: (hash(r[1]) == h0, r[1] == ref, "late" not in r[1].kw_parameters))
                if chk2 != ("val", (True, True, True)):
                    b.fail(Failure("post-init-normalisation", f"what=kw-mapping-aliased kind={kname} entries={sorted(cont)}", dict(kind="postinit", mapping=kname), expected="node unchanged",
                                   actual=outcome.describe(chk2)[:200], functions=["CallWithKwargs.__post_init__"]))
        for nm, sym in (("eq", "=="), ("ne", "!="), ("le", "<="), ("lt", "<"), ("ge", ">="), ("gt", ">")):
            r = outcome.run(lambda: (p.Comparison(x, nm, y) == p.Comparison(x, sym, y), hash(p.Comparison(x, nm, y)) == hash(p.Comparison(x, sym, y)), p.Comparison(x, nm, y).operator))
            b.case(("cmp", nm))
            if r != ("val", (True, True, sym)):
                b.fail(Failure("post-init-normalisation", f"what=comparison-name op={nm}", dict(kind="postinit", op=nm), expected=f"normalised to {sym}", actual=outcome.describe(r)[:150],
                               functions=["Comparison.__post_init__"]))
        r = outcome.run(lambda: (p.CommonSubexpression(x, None, None) == p.CommonSubexpression(x), hash(p.CommonSubexpression(x, "q", None)) == hash(p.CommonSubexpression(x, "q")),
                                 p.CommonSubexpression(x, None, None).scope))
        b.case(("cse-scope",))
        if r != ("val", (True, True, p.cse_scope.EVALUATION)):
            b.fail(Failure("post-init-normalisation", "what=cse-scope-default", dict(kind="postinit"), expected="scope None -> EVALUATION", actual=outcome.describe(r)[:150],
                           functions=["CommonSubexpression.__post_init__"]))
    return b


def b_class_histories(tier):
    """Hierarchies of undecorated subclasses below a decorated class, touched in every order: what one class's instances did before
    (hash, ==, dict key) must not influence another class's equality."""
    import pymbolic.primitives as p
    b = BoundedRun("class-touch-orders", rule="fresh hierarchies Base(decorated) <- Plain(undecorated, adds nothing) <- Ext(adds an init arg through __getinitargs__), "
                   "Base <- Ext2(adds an init arg directly), with Base a user dataclass node and with Base = Variable: for every order in which the classes are first "
                   "touched (hash, ==, dict key on two of its instances) and every pair of instances of every class (differing in one init arg or in none): == agrees with "
                   "'same class and equal init args', both ways; equal => equal hash and same dict key; also inside a Sum", bound="2 base kinds x 24 touch orders x 4 classes x 6 pairs",
                   functions=["generated __eq__/__hash__ (non-dataclass subclass branch)", "Expression.__eq__"])

    def build(kind):
        with warnings.catch_warnings():
            warnings.simplefilter("ignore")
            if kind == "user":
                @p.expr_dataclass()
                class Base(p.Expression):
                    child: p.ExpressionT
                    tag: str
                base_args = (p.Variable("c"), "t")
                names = ("child", "tag")
            else:
                Base = p.Variable
                base_args = ("v",)
                names = ("name",)

            class Plain(Base):
                pass

            def mk_ext(parent, nm):
                class Ext(parent):
                    init_arg_names = (*names, "more")

                    def __init__(self, *a):
                        for n_, v_ in zip(self.init_arg_names, a):
                            object.__setattr__(self, n_, v_)

                    def __getinitargs__(self):
                        return tuple(getattr(self, n_) for n_ in self.init_arg_names)
                Ext.__name__ = Ext.__qualname__ = nm
                return Ext
            Ext, Ext2 = mk_ext(Plain, "Ext"), mk_ext(Base, "Ext2")
        insts = {Base: [Base(*base_args), Base(*base_args)], Plain: [Plain(*base_args), Plain(*base_args)],
                 Ext: [Ext(*base_args, "a"), Ext(*base_args, "a"), Ext(*base_args, "b")], Ext2: [Ext2(*base_args, "a"), Ext2(*base_args, "a"), Ext2(*base_args, "b")]}
        return [Base, Plain, Ext, Ext2], insts

    def key(o):
        return (type(o), o.__getinitargs__() if hasattr(o, "__getinitargs__") and "init_arg_names" in type(o).__dict__ else
                tuple(getattr(o, f) for f in (("child", "tag") if hasattr(o, "child") else ("name",))))
    with warnings.catch_warnings():
        warnings.simplefilter("ignore")
        for kind in ("user", "Variable"):
            for order in itertools.permutations(range(4)):
                classes_, insts = build(kind)
                for ci in order:        # first touches, in this order
                    a, c = insts[classes_[ci]][0], insts[classes_[ci]][-1]
                    outcome.run(lambda: (hash(a), a == c, {a: 1}.get(c)))
                for k in classes_:
                    for a, c in itertools.combinations(insts[k], 2):
                        exp = key(a) == key(c)
                        r = outcome.run(lambda: (a == c, c == a, hash(a) == hash(c), c in {a: 1}, p.Sum((a, 1)) == p.Sum((c, 1))))
                        b.case((kind, order, k.__name__, repr(key(a)[1]), repr(key(c)[1])), sample=dict(base=kind, order=list(order), cls=k.__name__))
                        ok = r[0] == "val" and r[1][0] == exp and r[1][1] == exp and r[1][4] == exp and (not exp or (r[1][2] and r[1][3])) and (exp or not r[1][3])
                        if not ok:
                            b.fail(Failure("class-touch-orders", f"base={kind} order={order} cls={k.__name__} a={key(a)[1]!r} b={key(c)[1]!r} spec_equal={exp}",
                                           dict(kind="touch", base=kind, order=list(order), cls=k.__name__), expected=f"== is {exp}", actual=outcome.describe(r)[:200],
                                           functions=["generated __eq__/__hash__"]))
    return b


def _rebuild(a):
    from pyvc import loader
    with warnings.catch_warnings():
        warnings.simplefilter("ignore")
        return type(a)(*[getattr(a, n) for n in loader.field_kinds(type(a))])


def _apply(op, obj, names):
    from pymbolic.mapper import IdentityMapper
    if op == "hash":
        return hash(obj)
    if op == "eq":
        return obj == _rebuild(obj)
    if op == "copy":
        return copy.copy(obj)
    if op == "deepcopy":
        return copy.deepcopy(obj)
    if op == "pickle":
        return pickle.loads(pickle.dumps(obj))
    if op == "idmap":
        try:
            return IdentityMapper()(obj)
        except Exception:  # noqa: BLE001  (no handler for user classes: the mapper raises, the object is untouched)
            return obj
    if op == "setattr":
        if not dataclasses.is_dataclass(obj):
            return None      # a pure legacy class written by the user is not frozen by the library: nothing to attempt
        try:
            setattr(obj, names[0] if names else "x", 12345)
        except Exception:  # noqa: BLE001
            return None
        if dataclasses.is_dataclass(obj):
            raise AssertionError("setattr on a frozen node did not raise")
        return None
    if op == "dictkey":
        d = {obj: 1}
        return d[_rebuild(obj)]
    raise ValueError(op)


def replay(case):
    runs = bounded("quick", 0, 1)
    return any(f.case == case for b in runs for f in b.failures)

"""C14  Generated C code computes what the evaluator computes."""
from __future__ import annotations

import itertools
import os
import random
import re
import shutil
import subprocess
import tempfile

from harness import outcome
from harness.runner import BoundedRun, Failure

LEVEL = "exploration"
SPECS = []
EXPLANATION = (
    "Bounded stand-in in which every generated C program is compiled (gcc -O1 -fwrapv) and run: for every case -- a "
    "sequence of expressions sent through one CCodeMapper instance and its copies -- the hoisted assignments and the "
    "emitted expression texts are placed in a C function, executed over a grid of non-negative integer (or positive "
    "double) environments and compared with the evaluator: exactly for integer cases, to 1e-9 relative for floating "
    "point.  Before compiling, the hoisting invariants are checked on the mapper state itself: names pairwise distinct, "
    "every name assigned before its first use, a wrapped subexpression assigned exactly once across successive calls and "
    "copies (copy, copy_with_mapped_cses), no collisions when prefixes repeat.  Nothing of this property is under a "
    "discharged contract: the code under test builds strings, iterates a generator of candidate names and keeps its state in "
    "dicts keyed by expressions, all outside the PyVC subset.")
ASSUMPTIONS = ["gcc and the C semantics of long long / double arithmetic are the execution semantics (trusted); integer cases stay within 62 bits",
               "EvaluationMapper = den (C02); C division and remainder agree with floor division / modulo on the non-negative operands generated",
               "string construction of the C text is covered by execution only"]
TRUSTED_BASE = ["gcc 12", "libm"]

ROOT = os.path.dirname(os.path.dirname(os.path.abspath(__file__)))


# ----------------------------------------------------------------------------- expression pools
def int_pool(tier, rng):
    """Integer-valued expressions whose // and % operands are non-negative (environment values are non-negative)."""
    import pymbolic.primitives as p
    a, b, c = p.Variable("a"), p.Variable("b"), p.Variable("c")
    nn = [a, b, c, 2, 7, p.Sum((a, 1)), p.Product((b, 3)), p.Sum((a, b)), p.Product((a, c)), p.Power(a, 2), p.Sum((p.Product((2, a)), c, 5))]      # non-negative
    pos = [3, p.Sum((b, 1)), p.Sum((p.Product((a, c)), 2)), p.Product((p.Sum((b, 1)), p.Sum((c, 2)))), 7]          # positive
    out = []
    for x, y in itertools.product(nn, pos):
        out += [p.FloorDiv(x, y), p.Remainder(x, y)]
    for x, y in itertools.product(nn[:7], repeat=2):
        out += [p.Sum((x, y)), p.Product((x, y)), p.Sum((x, p.Product((-1, y)))), p.Sum((p.Product((-1, x)), p.Product((-1, y)))), p.Sum((x, -3)),
                p.Product((x, p.Sum((y, p.Product((-1, a)))))), p.Product((-1, x, y))]
    fd = [p.FloorDiv(p.Product((a, 7)), p.Sum((b, 1))), p.Remainder(p.Sum((a, 9)), p.Sum((c, 2)))]
    for f_ in fd:
        for y in pos:
            out += [p.FloorDiv(f_, y), p.FloorDiv(p.Sum((a, 20)), p.Sum((f_, 1))), p.Remainder(f_, y), p.Remainder(p.Sum((a, 20)), p.Sum((f_, 1))), p.Product((f_, y)),
                    p.Product((y, f_)), p.FloorDiv(p.Product((a, c)), p.Product((y, 3))), p.FloorDiv(a, p.Sum((p.Remainder(b, 3), 1))), p.Sum((f_, p.Product((-1, y))))]
    for n in (0, 1, 2):
        for x in nn[:8]:
            out += [p.Power(x, n), p.Product((p.Power(x, n), 3)), p.Sum((p.Power(p.Sum((x, 1)), n), b))]
    # powers with exponent 0, 1, 2 of a product / remainder / floor division / sum as the divisor or a factor of a multiplicative node (the printer
    # writes them as 1, the base, base*base: the base keeps the grouping the power gave it)
    pb = [p.Product((p.Sum((b, 1)), p.Sum((c, 1)))), p.Sum((b, 1)), p.Sum((p.Remainder(b, 3), 1)), p.Sum((p.FloorDiv(b, 2), 1))]
    for n in (0, 1, 2):
        for base in pb:
            pw = p.Power(base, n)
            out += [p.FloorDiv(p.Product((a, 50)), pw), p.Remainder(p.Sum((a, 30)), pw), p.Product((a, pw)), p.Product((pw, a)), p.FloorDiv(pw, 2), p.Remainder(pw, 5),
                    p.Product((2, p.Power(p.Remainder(p.Sum((a, 7)), p.Sum((c, 2))), n))), p.Product((a, p.Power(p.FloorDiv(p.Sum((a, 9)), p.Sum((c, 1))), n))),
                    p.Sum((a, p.Product((-1, pw))))]
    # constants whose product / sum does not fit a C int although every constant does and the value fits long long
    out += [p.Product((100000, 100000, p.Sum((a, 1)))), p.Product((p.Sum((a, 1)), 100000, 100000)), p.Sum((2000000000, 2000000000, a)), p.Product((65536, 65536, 4, b))]
    cmps = [p.Comparison(x, op, y) for op in ("<", "<=", ">", ">=", "==", "!=") for x, y in ((a, b), (p.Sum((a, 1)), p.Product((b, 2))))]
    for cm in cmps:
        out += [cm, p.If(cm, a, p.Sum((b, 1))), p.Sum((p.If(cm, a, b), c)), p.Product((2, p.If(cm, p.Sum((a, b)), c))), p.LogicalNot(cm),
                p.If(p.LogicalAnd((cm, p.Comparison(c, ">", 1))), 1, 0), p.If(p.LogicalOr((cm, p.LogicalNot(p.Comparison(c, ">", 1)))), a, b),
                p.If(cm, p.If(p.Comparison(c, "<", 2), 1, 2), p.If(p.Comparison(c, "<", 2), 3, 4))]
    bits = [p.BitwiseAnd((a, b)), p.BitwiseOr((a, b)), p.BitwiseXor((a, b)), p.LeftShift(a, 2), p.RightShift(p.Sum((a, 8)), 1), p.BitwiseOr((a, p.BitwiseXor((b, c)))),
            p.BitwiseXor((p.BitwiseOr((a, b)), c)), p.BitwiseAnd((p.BitwiseOr((a, b)), c)), p.BitwiseOr((p.BitwiseAnd((a, b)), c)), p.LeftShift(p.Sum((a, b)), 1),
            p.Sum((p.LeftShift(a, 1), b)), p.RightShift(p.LeftShift(a, 3), p.Sum((1, 1))), p.BitwiseAnd((p.Sum((a, b)), 7)), p.Sum((p.BitwiseAnd((a, 3)), b)),
            p.Comparison(p.BitwiseAnd((a, b)), "==", c), p.BitwiseAnd((a, p.Comparison(b, "==", c))), p.Comparison(a, "<", p.BitwiseOr((b, c))),
            p.Comparison(p.BitwiseXor((a, 1)), "!=", p.BitwiseXor((b, 1))), p.If(p.Comparison(p.BitwiseAnd((a, 1)), "==", 1), b, c)]
    out += bits
    # sign factors in every position of a term of a sum, none, one, two or three of them (the C printer turns a leading -1 into a subtraction)
    for fs in ((-1, b), (b, -1), (-1, b, -1), (-1, -1, b), (b, -1, -1), (-1, b, -1, c), (-1, -1, -1, b), (-1, -1), (-1,), (-1, b, c, -1), (b, -1, c), (-1, p.Sum((b, p.Product((c, -1))))),
               (-1, p.Product((-1, b))), (p.Product((-1, b)), -1), (-2, b), (-1, 1, b), (1, -1, b)):
        t = p.Product(fs)
        out += [p.Sum((a, t)), p.Sum((t, a)), p.Sum((t, t)), p.Sum((a, t, 7)), p.Product((a, t)), p.Sum((a, p.Product((2, t))))]
    return out


class Unsafe(Exception):
    pass


def int_value(e, env):
    """Integer value with the side conditions under which C's long long arithmetic agrees with Python's: operands of //, %, <<, >>
    non-negative (divisor positive, shift < 20), everything within 2**60."""
    import pymbolic.primitives as p
    def chk(v):
        v = int(v)
        if abs(v) >= 2 ** 60:
            raise Unsafe
        return v
    if isinstance(e, p.Variable):
        return env[e.name]
    if not isinstance(e, p.Expression):
        return int(e)
    if isinstance(e, p.Sum):
        return chk(sum(int_value(c, env) for c in e.children))
    if isinstance(e, p.Product):
        r = 1
        for c in e.children:
            r = chk(r * int_value(c, env))
        return r
    if isinstance(e, (p.FloorDiv, p.Remainder)):
        a, b = int_value(e.numerator, env), int_value(e.denominator, env)
        if a < 0 or b <= 0:
            raise Unsafe
        return a // b if isinstance(e, p.FloorDiv) else a % b
    if isinstance(e, (p.LeftShift, p.RightShift)):
        a, b = int_value(e.shiftee, env), int_value(e.shift, env)
        if a < 0 or b < 0 or b >= 20:
            raise Unsafe
        return chk(a << b) if isinstance(e, p.LeftShift) else a >> b
    if isinstance(e, p.Power):
        a, b = int_value(e.base, env), int_value(e.exponent, env)
        if b not in (0, 1, 2):
            raise Unsafe
        return chk(a ** b)
    if isinstance(e, (p.BitwiseAnd, p.BitwiseOr, p.BitwiseXor)):
        import functools
        import operator
        vals = [int_value(c, env) for c in e.children]
        if any(v < 0 for v in vals):
            raise Unsafe
        op = {p.BitwiseAnd: operator.and_, p.BitwiseOr: operator.or_, p.BitwiseXor: operator.xor}[type(e)]
        return functools.reduce(op, vals)
    if isinstance(e, p.Comparison):
        import operator
        ops = {"<": operator.lt, ">": operator.gt, "<=": operator.le, ">=": operator.ge, "==": operator.eq, "!=": operator.ne}
        return int(ops[e.operator](int_value(e.left, env), int_value(e.right, env)))
    if isinstance(e, p.LogicalAnd):
        return int(all(int_value(c, env) for c in e.children))
    if isinstance(e, p.LogicalOr):
        return int(any(int_value(c, env) for c in e.children))
    if isinstance(e, p.LogicalNot):
        return int(not int_value(e.child, env))
    if isinstance(e, p.If):
        # both branches are evaluated for the side conditions (C evaluates one, but the text of both is emitted)
        t, f = int_value(e.then, env), int_value(e.else_, env)
        return t if int_value(e.condition, env) else f
    raise Unsafe


def systematic_int(tier):
    """Every (parent operator, child position, child operator) over the integer operator set, operands a, b+1, c+2 and 3, kept when the C side
    conditions hold on the whole grid (decided by int_value, an evaluation independent of the mapper)."""
    import pymbolic.primitives as p
    a, b, c = p.Variable("a"), p.Variable("b"), p.Variable("c")
    x, y, z, k = a, p.Sum((b, 1)), p.Sum((c, 2)), 3
    BIN = {
        "+": lambda u, v: p.Sum((u, v)), "-": lambda u, v: p.Sum((u, p.Product((-1, v)))), "*": lambda u, v: p.Product((u, v)), "//": p.FloorDiv, "%": p.Remainder,
        "<<": p.LeftShift, ">>": p.RightShift, "&": lambda u, v: p.BitwiseAnd((u, v)), "|": lambda u, v: p.BitwiseOr((u, v)), "^": lambda u, v: p.BitwiseXor((u, v)),
        "<": lambda u, v: p.Comparison(u, "<", v), "==": lambda u, v: p.Comparison(u, "==", v), ">=": lambda u, v: p.Comparison(u, ">=", v),
        "&&": lambda u, v: p.LogicalAnd((u, v)), "||": lambda u, v: p.LogicalOr((u, v)), "**2": lambda u, v: p.Power(u, 2),
        "?:": lambda u, v: p.If(p.Comparison(u, "<", v), u, v), "neg": lambda u, v: p.Product((-1, u)), "!": lambda u, v: p.LogicalNot(u),
        "*3": lambda u, v: p.Product((u, v, 3)), "+3": lambda u, v: p.Sum((u, v, 3)),
    }
    g = grid("int")
    out = []
    for pn, pb in BIN.items():
        for qn, qb in BIN.items():
            for inner_args in ((x, y), (y, k), (k, z)):
                inner = qb(*inner_args)
                for e, lab in ((pb(inner, z), f"{pn}(left={qn})"), (pb(z, inner), f"{pn}(right={qn})"), (pb(inner, inner), f"{pn}(both={qn})")):
                    try:
                        for env in g:
                            int_value(e, env)
                    except (Unsafe, ZeroDivisionError):
                        continue
                    out.append((lab, e))
    if tier == "thorough":
        for pn, pb in BIN.items():
            for qn, qb in list(BIN.items())[:14]:
                for rn, rb in list(BIN.items())[:10]:
                    e = pb(qb(rb(x, y), z), k)
                    e2 = pb(k, qb(z, rb(y, x)))
                    for ee, lab in ((e, f"{pn}({qn}({rn}))L"), (e2, f"{pn}({qn}({rn}))R")):
                        try:
                            for env in g:
                                int_value(ee, env)
                        except (Unsafe, ZeroDivisionError):
                            continue
                        out.append((lab, ee))
    return out


def double_pool(tier, rng):
    import pymbolic.primitives as p
    x, y = p.Variable("x"), p.Variable("y")
    sq, fl, fa = p.Variable("sqrt"), p.Variable("floor"), p.Variable("fabs")
    pos = [x, y, 2.5, p.Sum((x, 1.5)), p.Product((x, y)), p.Power(x, 2), p.Call(sq, (p.Sum((x, y)),))]
    out = []
    for u, v in itertools.product(pos, repeat=2):
        out += [p.Quotient(u, v), p.Sum((u, p.Product((-1, v)))), p.Product((u, p.Quotient(1, v))), p.Power(u, v) if v in (2.5, x) else p.Power(u, 3), p.Quotient(p.Sum((u, 1)), p.Sum((v, 1))),
                p.Quotient(u, p.Product((v, 2.0))), p.Quotient(p.Quotient(u, v), x), p.Quotient(u, p.Quotient(v, x))]
    for n in (0, 1, 2):
        for base in (p.Product((x, y)), p.Quotient(x, y), p.Sum((x, y))):
            pw = p.Power(base, n)
            out += [p.Quotient(x, pw), p.Quotient(pw, y), p.Product((x, pw)), p.Quotient(1.5, p.Product((pw, y)))]
    out += [p.Call(fl, (p.Quotient(x, y),)), p.Call(fa, (p.Sum((x, p.Product((-1, y)))),)), p.Power(x, -1), p.Power(p.Sum((x, y)), 0.5), p.Power(x, p.Sum((y, 1))),
            p.If(p.Comparison(x, "<", y), p.Quotient(x, y), p.Quotient(y, x)), p.Power(p.Power(x, 2), 0.5), p.Power(2.0, x), p.Product((-1.5, x)), p.Sum((-0.25, x)), p.Power(x, 1), p.Power(x, 0)]
    return out


def cse_cases(tier, rng, ipool):
    """Sequences of (op, expr) through one mapper: ops are 'call', 'copy' (continue on a copy), 'copy-mapped' (copy with a pre-mapped CSE)."""
    import pymbolic.primitives as p
    a, b, c = p.Variable("a"), p.Variable("b"), p.Variable("c")
    CSE = p.CommonSubexpression
    s1, s2, s3 = p.Sum((a, b)), p.Product((b, c)), p.Sum((p.Product((a, a)), 1))
    u, u2, v, w, n1 = CSE(s1, "u"), CSE(s1, "u"), CSE(s2, "u"), CSE(s3, "v"), CSE(s3)
    anon1, anon2 = CSE(s1), CSE(s2)
    nested = CSE(p.Product((u, p.Sum((u, 1)))), "w")
    nested2 = CSE(p.Sum((nested, v)), "w")
    cases = []
    E = [p.Sum((u, p.Product((u, 2)))), p.Product((u2, v)), p.Sum((v, u, w)), p.Product((nested, u)), p.Sum((nested2, nested, 1)), p.Sum((anon1, anon2)), p.Product((anon2, anon1, n1)),
         p.FloorDiv(p.Product((u, 7)), p.Sum((v, 1))), p.Sum((CSE(s1, "v"), u)), p.Sum((CSE(s1), CSE(s1, "z"))), p.If(p.Comparison(u, "<", v), u, v),
         p.Sum((CSE(p.Sum((a, 1)), "t"), CSE(p.Sum((a, 2)), "t"), CSE(p.Sum((a, 3)), "t"), CSE(p.Sum((a, 1)), "t_2")))]
    for e in E:
        cases.append([("call", e)])
    for e1, e2 in itertools.permutations(E, 2):
        cases.append([("call", e1), ("call", e2)])
        cases.append([("call", e1), ("copy", None), ("call", e2)])
    for e1, e2, e3 in itertools.islice(itertools.permutations(E[:7], 3), 0, 120 if tier == "thorough" else 40):
        cases.append([("call", e1), ("call", e2), ("copy", None), ("call", e3), ("call", e1)])
    from props.c06 import all_nodes
    for e1, e2 in itertools.permutations(E[:6], 2):
        if any(nd == s3 for nd in all_nodes(e1)):
            continue        # a subexpression is mapped by the caller before the mapper has hoisted it itself
        cases.append([("call", e1), ("copy-mapped", s3), ("call", p.Sum((w, e2))), ("call", p.Product((n1, 2)))])
        cases.append([("copy-mapped", s1), ("call", e1), ("copy", None), ("call", e2)])
    # distinct wrapped subexpressions whose C texts coincide (operands are sorted when printed: a + 1 and 1 + a; x**2 and x*x), then a copy, then new wrappers whose
    # first candidate names are the ones already given
    same_text = [(p.Sum((a, 1)), p.Sum((1, a))), (p.Power(b, 2), p.Product((b, b))), (p.Product((a, c)), p.Product((c, a)))]
    for t1, t2 in same_text:
        for pf in (None, "u"):
            first = p.Sum((CSE(t1, pf), CSE(t2, pf)))
            for later in (p.Product((CSE(p.Product((b, 3)), pf), 2)), p.Sum((CSE(p.Sum((c, 5)), pf), CSE(p.Product((c, 7)), pf), CSE(t1, pf)))):
                cases.append([("call", first), ("copy", None), ("call", later)])
                cases.append([("call", first), ("copy", None), ("copy", None), ("call", later), ("call", first)])
                cases.append([("call", first), ("call", later)])
    # the caller maps a subexpression whose own text refers to a name hoisted earlier: its assignment belongs after that one
    for inner, pf in ((u, "u"), (v, "u"), (anon1, None)):
        ref = p.Sum((inner, 1))
        cases.append([("call", p.Sum((inner, c))), ("copy-mapped", ref), ("call", p.Product((CSE(ref, "v"), 2)))])
        cases.append([("call", p.Product((inner, inner))), ("copy", None), ("copy-mapped", ref), ("call", p.Sum((CSE(ref), inner))), ("call", p.Sum((w, 1)))])
    # wrappers around pool expressions
    for i in range(60 if tier == "thorough" else 20):
        x, y = rng.choice(ipool), rng.choice(ipool)
        cx, cy = CSE(x, rng.choice([None, "p", "q"])), CSE(y, rng.choice([None, "p", "q"]))
        cases.append([("call", p.Sum((cx, cy, cx))), ("call", p.Product((CSE(x, "p"), 2)))])
        cases.append([("call", p.Sum((cx, 1))), ("copy", None), ("call", p.Sum((CSE(x), cy)))])
    return cases


# ----------------------------------------------------------------------------- running the mapper and checking its state
IDENT = re.compile(r"[A-Za-z_]\w*")


def run_case(ops):
    """Returns dict(texts=[...], decls=[(name, rhs)], errors=[...])."""
    from pymbolic.mapper.c_code import CCodeMapper
    m = CCodeMapper()
    texts = []
    for op, e in ops:
        if op == "call":
            texts.append(m(e))
        elif op == "copy":
            m = m.copy()
        elif op == "copy-mapped":       # the caller has bound this subexpression to a name of its own
            m = m.copy_with_mapped_cses([("_cse_pre", e)])
    decls = []
    for n, rhs in m.cse_name_list:
        if not isinstance(rhs, str):    # a pre-mapped subexpression: its defining text is the caller's business (written with the names known so far)
            rhs = m.copy()(rhs)
        decls.append((n, rhs))
    return dict(texts=texts, decls=decls)


def hoisting_violation(ops, res):
    import pymbolic.primitives as p
    from props.c06 import all_nodes
    decls = res["decls"]
    names = [n for n, _ in decls]
    if len(set(names)) != len(names):
        dup = sorted({n for n in names if names.count(n) > 1})
        return f"name assigned twice: {dup}"
    defined = set()
    for n, rhs in decls:
        if not isinstance(rhs, str):
            return f"non-text assignment {n} = {rhs!r}"
        used = {t for t in IDENT.findall(rhs) if t.startswith("_cse")}
        if not used <= defined:
            return f"{n} = {rhs} uses {sorted(used - defined)} before assignment"
        defined.add(n)
    for t in res["texts"]:
        used = {x for x in IDENT.findall(t) if x.startswith("_cse")}
        if not used <= defined:
            return f"expression text {t} uses unassigned {sorted(used - defined)}"
    # assigned once: number of assignments == number of distinct wrapped children (by ==) among all wrappers seen
    kids = []
    for op, e in ops:
        if e is None:
            continue
        if op == "copy-mapped":
            if e not in kids:
                kids.append(e)
            continue
        for nd in all_nodes(e):
            if isinstance(nd, p.CommonSubexpression) and nd.child not in kids:
                kids.append(nd.child)
    if len(decls) != len(kids):
        return f"{len(decls)} assignments for {len(kids)} distinct wrapped subexpressions: {decls}"
    return None


# ----------------------------------------------------------------------------- C back end
HEADER = """#include <stdio.h>
#include <math.h>
typedef long long ll;
"""


def c_program(cases, kind):
    """cases: list of (idx, decls, texts).  One function per case; main loops over the grid and prints 'idx k value'."""
    T = "ll" if kind == "int" else "double"
    fmt = "%lld" if kind == "int" else "%.17g"
    vars_ = ("a", "b", "c") if kind == "int" else ("x", "y")
    parts = [HEADER]
    for idx, decls, texts in cases:
        parts.append(f"static void case_{idx}({', '.join(T + ' ' + v for v in vars_)}, {T} *out) {{")
        for n, rhs in decls:
            parts.append(f"  {T} {n} = {rhs};")
        for k, t in enumerate(texts):
            parts.append(f"  out[{k}] = {t};")
        parts.append("}")
    parts.append("int main(void) {")
    parts.append(f"  {T} out[16];")
    if kind == "int":
        grid = "for (ll a = 0; a < 5; ++a) for (ll b = 0; b < 5; ++b) for (ll c = 0; c < 4; ++c) {"
        args = "a, b, c"
    else:
        grid = "static const double vs[] = {0.5, 1.25, 3.0, 7.75}; for (int i = 0; i < 4; ++i) for (int j = 0; j < 4; ++j) { double x = vs[i], y = vs[j];"
        args = "x, y"
    parts.append("  " + grid)
    for idx, decls, texts in cases:
        parts.append(f"    case_{idx}({args}, out);")
        for k in range(len(texts)):
            parts.append(f'    printf("{idx} {k} {fmt}\\n", out[{k}]);')
    parts.append("  }")
    parts.append("  return 0;\n}")
    return "\n".join(parts)


def compile_and_run(src, workdir, tag):
    cpath = os.path.join(workdir, f"{tag}.c")
    exe = os.path.join(workdir, f"{tag}.bin")
    open(cpath, "w").write(src)
    r = subprocess.run(["gcc", "-O1", "-fwrapv", "-w", "-o", exe, cpath, "-lm"], capture_output=True, text=True)
    if r.returncode != 0:
        return None, r.stderr[-3000:]
    r = subprocess.run([exe], capture_output=True, text=True, timeout=120)
    return r.stdout, ""


def grid(kind):
    if kind == "int":
        return [dict(a=a, b=b, c=c) for a in range(5) for b in range(5) for c in range(4)]
    vs = [0.5, 1.25, 3.0, 7.75]
    return [dict(x=x, y=y) for x in vs for y in vs]


def expected(e, env, kind):
    import math
    from pymbolic.mapper.evaluator import EvaluationMapper
    full = dict(env)
    if kind == "double":
        full.update(sqrt=math.sqrt, floor=lambda t: float(math.floor(t)), fabs=math.fabs)
    return outcome.run(lambda: EvaluationMapper(full)(e))


def close(kind, got, want):
    if kind == "int":
        return int(want) == got
    import math
    return math.isclose(got, float(want), rel_tol=1e-9, abs_tol=1e-12)


def cause_of(e):
    """Known-finding regions decided on the tree."""
    import pymbolic.primitives as p
    from props.c06 import all_nodes
    for n in all_nodes(e):
        if isinstance(n, (p.Product, p.Sum)):
            consts = [c for c in n.children if isinstance(c, int) and not isinstance(c, bool)]
            if len(consts) >= 2:
                acc = 1 if isinstance(n, p.Product) else 0
                for c in consts:
                    acc = acc * c if isinstance(n, p.Product) else acc + c
                if abs(acc) >= 2 ** 31:
                    return " cause=int-literal-arithmetic"
    return ""


def b_programs(tier, seed, kind):
    rng = random.Random(seed)
    pool = int_pool(tier, rng) if kind == "int" else double_pool(tier, rng)
    name = "c-programs-int" if kind == "int" else "c-programs-double"
    b = BoundedRun(name, rule=("every expression of the integer pool (all // and % over non-negative / positive operand forms incl. nested and product/remainder denominators, sums with "
                               "negated terms, powers 0/1/2, comparisons, logical operators, conditionals, bitwise operators and shifts) emitted by a fresh CCodeMapper, compiled with gcc "
                               "and run on the grid a,b in 0..4, c in 0..3: exactly the evaluator's value" if kind == "int" else
                               "every expression of the floating-point pool (quotients in every nesting, pow with constant / variable exponents, sqrt/floor/fabs calls, conditionals) "
                               "emitted, compiled and run on a 4x4 grid of positive doubles: the evaluator's value to 1e-9 relative"),
                   bound=f"{len(pool)} expressions x {100 if kind == 'int' else 16} environments", functions=["CCodeMapper.map_*", "SimplifyingSortingStringifyMapper.map_sum/map_product", "StringifyMapper.map_*"])
    from pymbolic.mapper.c_code import CCodeMapper
    cases = []
    exprs = {}
    for i, e in enumerate(pool):
        r = outcome.run(lambda: (lambda m: (m(e), list(m.cse_name_list)))(CCodeMapper()))
        b.case((kind, repr(e)), sample=dict(expr=repr(e)))
        if r[0] != "val":
            b.fail(Failure(name, f"what=emit-raised expr={e!r}", dict(kind=kind, expr=repr(e)), expected="C text", actual=outcome.describe(r)[:200], functions=["CCodeMapper"]))
            continue
        cases.append((i, r[1][1], [r[1][0]]))
        exprs[i] = ([e], [r[1][0]])
    execute(b, name, kind, cases, exprs)
    return b


def execute(b, name, kind, cases, exprs):
    """Compile in batches, run, compare."""
    work = tempfile.mkdtemp(prefix="c14_", dir=os.environ.get("VERIF_SCRATCH") or ("/dev/shm" if os.path.isdir("/dev/shm") else None))
    try:
        pending = list(cases)
        results = {}
        batch_no = 0
        while pending:
            batch, pending = pending[:200], pending[200:]
            out, err = compile_and_run(c_program(batch, kind), work, f"b{batch_no}")
            batch_no += 1
            if out is None:
                # some case of the batch is not valid C: one program per case isolates it
                for one in batch:
                    o3, e3 = compile_and_run(c_program([one], kind), work, f"b{batch_no}")
                    batch_no += 1
                    if o3 is None:
                        es, ts = exprs[one[0]]
                        b.fail(Failure(name, f"what=c-does-not-compile{cause_of(es[0])} text={ts!r} expr={es!r}"[:600], dict(kind=kind, exprs=[repr(x) for x in es]),
                                       expected="a C program", actual=e3[-300:], functions=["CCodeMapper"]))
                    else:
                        parse_out(o3, results)
                continue
            parse_out(out, results)
        g = grid(kind)
        for idx, decls, texts in cases:
            es, ts = exprs[idx]
            for k, e in enumerate(es):
                vals = results.get((idx, k))
                if vals is None:
                    continue
                bad = None
                for env, got in zip(g, vals):
                    want = expected(e, env, kind)
                    if want[0] != "val":
                        continue
                    if isinstance(want[1], complex) or (kind == "double" and (want[1] != want[1])):
                        continue
                    if not close(kind, got, want[1]):
                        bad = (env, want[1], got)
                        break
                b.evaluations += len(vals)
                if bad:
                    env, want, got = bad
                    b.fail(Failure(name, f"what=c-value-differs{cause_of(e)} text={ts[k]!r} expr={e!r}"[:600], dict(kind=kind, exprs=[repr(x) for x in es], env=env), expected=f"{want!r} at {env}",
                                   actual=f"{got!r}; assignments {decls}"[:300], functions=["CCodeMapper", "SimplifyingSortingStringifyMapper"]))
    finally:
        shutil.rmtree(work, ignore_errors=True)


def parse_out(out, results):
    for line in out.splitlines():
        i, k, v = line.split()
        results.setdefault((int(i), int(k)), []).append(float(v) if ("." in v or "e" in v or "n" in v) else int(v))


def b_systematic(tier):
    from pymbolic.mapper.c_code import CCodeMapper
    pool = systematic_int(tier)
    b = BoundedRun("c-programs-systematic", rule="every (parent operator, child position, child operator) over 21 integer operator forms (+, -, *, //, %, <<, >>, &, |, ^, <, ==, >=, "
                   "&&, ||, square, conditional, negation, !, 3-ary * and +) with three operand assignments, in left / right / both positions (thorough: also three-level "
                   "chains), kept when the C side conditions (non-negative operands of // % << >> and bitwise operators, |values| < 2**60) hold on the whole grid as decided "
                   "by an evaluation independent of the mapper: emitted by a fresh CCodeMapper, compiled and run on the 5x5x4 grid, compared exactly with that evaluation "
                   "and with the evaluator", bound=f"{len(pool)} expressions x 100 environments", functions=["CCodeMapper.map_*", "SimplifyingSortingStringifyMapper.map_sum/map_product"])
    cases, exprs = [], {}
    for i, (lab, e) in enumerate(pool):
        r = outcome.run(lambda: (lambda m: (m(e), list(m.cse_name_list)))(CCodeMapper()))
        b.case(("sys", repr(e)), sample=dict(label=lab, expr=repr(e)))
        if r[0] != "val":
            b.fail(Failure("c-programs-systematic", f"what=emit-raised label={lab} expr={e!r}", dict(kind="int", exprs=[repr(e)]), expected="C text", actual=outcome.describe(r)[:200],
                           functions=["CCodeMapper"]))
            continue
        cases.append((i, r[1][1], [r[1][0]]))
        exprs[i] = ([e], [r[1][0]])
        # the independent evaluation and the evaluator must agree to begin with
    execute(b, "c-programs-systematic", "int", cases, exprs)
    return b


def b_cse(tier, seed):
    rng = random.Random(seed)
    ipool = int_pool(tier, rng)
    b = BoundedRun("cse-hoisting", rule="sequences of 1..5 expressions with shared wrapper objects, fresh-but-equal wrappers, the same child under different prefixes / no prefix, "
                   "different children under one prefix (t, t, t, t_2), nested wrappers, sent through one CCodeMapper and its copy(): names pairwise distinct, each assigned before use, "
                   "exactly one assignment per distinct wrapped subexpression over the whole history; then the C function (assignments + all expression texts) is compiled, run on "
                   "the integer grid and every emitted expression compared exactly with the evaluator", bound="all ordered pairs of 12 base expressions with and without an "
                   "intermediate copy, 40 (thorough 120) triples with copy, 40 (thorough 120) pool wrappers", functions=["CCodeMapper.map_common_subexpression", "CCodeMapper.__init__",
                                                                                                                    "CCodeMapper.copy"])
    cases = []
    exprs = {}
    for i, ops in enumerate(cse_cases(tier, rng, ipool)):
        r = outcome.run(lambda: run_case(ops))
        label = " ".join(op for op, e in ops)
        b.case(("cse", repr(ops)), sample=dict(ops=label, exprs=[repr(e)[:80] for _, e in ops if e is not None]))
        es = [e for op, e in ops if op == "call"]
        has_copy = any(op != "call" for op, _ in ops)
        tag = " history=with-copy" if has_copy else " history=one-mapper"
        if r[0] != "val":
            b.fail(Failure("cse-hoisting", f"what=mapper-raised{tag} exprs={es!r}"[:600], dict(kind="cse", ops=repr(ops)), expected="C texts", actual=outcome.describe(r)[:200],
                           functions=["CCodeMapper.map_common_subexpression"]))
            continue
        v = hoisting_violation(ops, r[1])
        if v:
            b.fail(Failure("cse-hoisting", f"what=hoisting-invariant{tag} {v[:60].split(':')[0]} exprs={es!r}"[:600], dict(kind="cse", ops=repr(ops)), expected="unique names, assigned once, before use",
                           actual=v[:300], functions=["CCodeMapper.map_common_subexpression", "CCodeMapper.__init__", "CCodeMapper.copy"]))
            names = [n for n, _ in r[1]["decls"]]
            if len(set(names)) != len(names):
                continue        # does not compile by construction
        cases.append((i, r[1]["decls"], r[1]["texts"]))
        exprs[i] = (es, r[1]["texts"])
    execute(b, "cse-hoisting", "int", cases, exprs)
    return b


def run_branching(ops):
    """ops over several mappers: ('call', k, e) | ('copy', k) (appends a copy of mapper k).  Returns one program per mapper."""
    from pymbolic.mapper.c_code import CCodeMapper
    mappers = [CCodeMapper()]
    lineage = [[]]          # expressions seen by each mapper's lineage
    texts = [[]]
    for op in ops:
        if op[0] == "call":
            _, k, e = op
            texts[k].append((e, mappers[k](e)))
            lineage[k].append(e)
        else:
            _, k = op
            mappers.append(mappers[k].copy())
            lineage.append(list(lineage[k]))
            texts.append([])
    return [dict(decls=list(m.cse_name_list), texts=[t for _, t in tx], exprs=[e for e, _ in tx], seen=ln) for m, tx, ln in zip(mappers, texts, lineage)]


def b_branching(tier, seed):
    import pymbolic.primitives as p
    rng = random.Random(seed)
    b = BoundedRun("cse-branching-histories", rule="histories in which a mapper that has already hoisted subexpressions is copied and BOTH the original and the copy (or two sibling "
                   "copies) go on hoisting: for every mapper of the history its own list of assignments has pairwise distinct names, assigns before use, holds exactly one "
                   "assignment per distinct wrapped subexpression its lineage has seen, and its program (own assignments + own expression texts) compiled and run equals the "
                   "evaluator on the integer grid", bound="all ordered triples of 7 base expressions in two history shapes (quick: 60 triples)",
                   functions=["CCodeMapper.__init__", "CCodeMapper.copy", "CCodeMapper.map_common_subexpression"])
    a, bb, c = p.Variable("a"), p.Variable("b"), p.Variable("c")
    CSE = p.CommonSubexpression
    s1, s2, s3, s4 = p.Sum((a, bb)), p.Product((bb, c)), p.Sum((p.Product((a, a)), 1)), p.Sum((c, 5))
    E = [p.Sum((CSE(s1, "t"), 1)), p.Product((CSE(s2, "t"), 2)), p.Sum((CSE(s3, "t"), CSE(s1, "t"))), p.Sum((CSE(s4), CSE(s2))), p.Product((CSE(s3), CSE(s4, "u"))),
         p.Sum((CSE(s1, "u"), CSE(s4, "t"))), p.Sum((CSE(p.Sum((CSE(s1, "t"), 2)), "w"), 1))]
    triples = list(itertools.permutations(E, 3))
    if tier != "thorough":
        rng.shuffle(triples)
        triples = triples[:60]
    cases, exprs, idx = [], {}, 0
    from props.c06 import all_nodes
    for e1, e2, e3 in triples:
        for shape in (0, 1):
            ops = [("call", 0, e1), ("copy", 0), ("call", 1, e2), ("call", 0, e3), ("call", 1, e3)] if shape == 0 else \
                [("call", 0, e1), ("copy", 0), ("copy", 0), ("call", 1, e2), ("call", 2, e3), ("call", 0, e2), ("call", 2, e2)]
            r = outcome.run(lambda: run_branching(ops))
            b.case(("branch", repr(ops)), sample=dict(shape=shape, exprs=[repr(e1)[:60], repr(e2)[:60], repr(e3)[:60]]))
            if r[0] != "val":
                b.fail(Failure("cse-branching-histories", f"what=mapper-raised shape={shape} exprs={[e1, e2, e3]!r}"[:600], dict(kind="branch", ops=repr(ops)), expected="C texts",
                               actual=outcome.describe(r)[:200], functions=["CCodeMapper.copy", "CCodeMapper.map_common_subexpression"]))
                continue
            for k, prog in enumerate(r[1]):
                kids = []
                for e in prog["seen"]:
                    for nd in all_nodes(e):
                        if isinstance(nd, p.CommonSubexpression) and nd.child not in kids:
                            kids.append(nd.child)
                res = dict(decls=[(n, rhs) for n, rhs in prog["decls"]], texts=prog["texts"])
                v = hoisting_violation([("call", e) for e in prog["seen"]], res)
                if v:
                    b.fail(Failure("cse-branching-histories", f"what=hoisting-invariant shape={shape} mapper={k} {v[:60].split(':')[0]} exprs={[e1, e2, e3]!r}"[:600],
                                   dict(kind="branch", ops=repr(ops)), expected="unique names, assigned once, before use", actual=v[:300],
                                   functions=["CCodeMapper.__init__", "CCodeMapper.copy"]))
                    names = [n for n, _ in res["decls"]]
                    if len(set(names)) != len(names) or any(not isinstance(rhs, str) for _, rhs in res["decls"]):
                        continue
                if prog["texts"]:
                    cases.append((idx, res["decls"], prog["texts"]))
                    exprs[idx] = (prog["exprs"], prog["texts"])
                    idx += 1
    execute(b, "cse-branching-histories", "int", cases, exprs)
    return b


def b_mixin(tier, seed):
    """The generic CSE-splitting mix-in on the plain stringifier: the same hoisting invariants, and the assignments + texts (Python syntax) run by Python."""
    import pymbolic.primitives as p
    from pymbolic.mapper.stringifier import CSESplittingStringifyMapperMixin, StringifyMapper
    from props.c06 import all_nodes

    class SplitStr(CSESplittingStringifyMapperMixin, StringifyMapper):
        pass
    rng = random.Random(seed)
    b = BoundedRun("cse-splitting-mixin", rule="the call-only sequences of the cse-hoisting run through one CSESplittingStringifyMapperMixin + StringifyMapper instance: names pairwise "
                   "distinct, each assigned before use, exactly one assignment per distinct wrapped subexpression; the assignments and expression texts executed as Python on an "
                   "integer grid give the evaluator's values", bound="as cse-hoisting without copies; grid 3 x 3 x 2", functions=["CSESplittingStringifyMapperMixin.map_common_subexpression"])
    grid_ = [dict(a=a_, b=b_, c=c_) for a_ in (0, 2, 4) for b_ in (1, 2, 3) for c_ in (1, 3)]
    for ops in cse_cases(tier, rng, int_pool(tier, rng)):
        if any(op != "call" for op, _ in ops):
            continue
        es = [e for _, e in ops]

        def go():
            m = SplitStr()
            texts = [m(e) for e in es]
            return texts, list(m.cse_name_list)
        r = outcome.run(go)
        b.case(("mixin", repr(ops)), sample=dict(exprs=[repr(e)[:80] for e in es]))
        if r[0] != "val":
            b.fail(Failure("cse-splitting-mixin", f"what=mapper-raised exprs={es!r}"[:500], dict(kind="mixin", ops=repr(ops)), expected="texts", actual=outcome.describe(r)[:200],
                           functions=["CSESplittingStringifyMapperMixin.map_common_subexpression"]))
            continue
        texts, decls = r[1]
        names = [n for n, _ in decls]
        why = None
        if len(set(names)) != len(names):
            why = f"name assigned twice: {sorted(n for n in set(names) if names.count(n) > 1)}"
        kids = []
        for e in es:
            for nd in all_nodes(e):
                if isinstance(nd, p.CommonSubexpression) and nd.child not in kids:
                    kids.append(nd.child)
        if why is None and len(decls) != len(kids):
            why = f"{len(decls)} assignments for {len(kids)} distinct wrapped subexpressions"
        if why is None:
            defined = set()
            for n, rhs in decls:
                used = set(IDENT.findall(rhs)) & set(names)
                if not used <= defined:
                    why = f"{n} = {rhs} uses {sorted(used - defined)} before assignment"
                    break
                defined.add(n)
        if why is None:
            for env in grid_:
                ns = dict(env)
                try:
                    for n, rhs in decls:
                        ns[n] = eval(rhs, {}, ns)      # noqa: S307
                    got = [eval(t, {}, ns) for t in texts]     # noqa: S307
                except Exception as ex:      # noqa: BLE001
                    got = f"{type(ex).__name__}: {ex}"
                want = [expected(e, env, "int") for e in es]
                if any(w[0] != "val" for w in want):
                    continue
                if got != [w[1] for w in want]:
                    why = f"at {env}: program gives {got!r}, evaluator {[w[1] for w in want]!r}"
                    break
        if why:
            b.fail(Failure("cse-splitting-mixin", f"what=mixin-invariant {why[:50].split(':')[0]} exprs={es!r}"[:500], dict(kind="mixin", ops=repr(ops)), expected="unique names, assigned once, before use; same values",
                           actual=why[:300], functions=["CSESplittingStringifyMapperMixin.map_common_subexpression"]))
    return b


def b_mixed_types(tier):
    """Programs with integer-typed and double-typed variables side by side: real-valued operations on integer operands (negative and fractional powers, pow with a variable
    exponent, sqrt of an integer sum) must not turn into integer arithmetic."""
    import math
    import pymbolic.primitives as p
    from pymbolic.mapper.c_code import CCodeMapper
    from pymbolic.mapper.evaluator import EvaluationMapper
    b = BoundedRun("mixed-integer-double", rule="C functions with parameters `long long a, b` and `double x`: powers of integer-valued bases with exponents -1, -2, 0.5, x and with the integer "
                   "variable as exponent of a double, sqrt of integer sums, inside sums and products with x, hoisted through wrappers: the value of the compiled program equals the "
                   "evaluator's to 1e-12 relative on a, b in 1..4, x in {0.5, 2.25}", bound="22 expressions x 32 environments", functions=["CCodeMapper.map_power", "CCodeMapper.map_call", "CCodeMapper.map_common_subexpression"])
    a, b_, x, sq = p.Variable("a"), p.Variable("b"), p.Variable("x"), p.Variable("sqrt")
    CSE = p.CommonSubexpression
    exprs = [p.Sum((x, p.Power(a, -1))), p.Product((x, p.Power(p.Sum((a, b_)), -1))), p.Power(p.Product((a, b_)), -1), p.Sum((p.Power(a, -1), p.Power(b_, -1))), p.Power(a, -2),
             p.Product((p.Power(a, -1), b_)), p.Power(p.Sum((a, 1)), 0.5), p.Power(a, x), p.Power(x, a), p.Power(x, p.Product((-1, a))), p.Sum((x, p.Power(CSE(p.Sum((a, b_)), "s"), -1))),
             p.Product((CSE(p.Power(a, -1), "r"), CSE(p.Power(a, -1), "r"), x)), p.Call(sq, (p.Sum((a, b_)),)), p.Product((x, p.Call(sq, (p.Product((a, 2)),)))), p.Power(p.Power(a, 2), -1),
             p.Sum((p.Power(a, -1.0), x)), p.Power(p.Sum((a, p.Product((2, b_)))), -1), p.Product((2, p.Power(b_, -1))), p.Sum((1, p.Power(a, -1))), p.Power(a, 2), p.Product((x, a, b_)),
             p.Sum((p.Product((x, a)), p.Power(b_, -1)))]
    grid_ = [dict(a=a_, b=b2, x=xv) for a_ in (1, 2, 3, 4) for b2 in (1, 2, 3, 4) for xv in (0.5, 2.25)]
    parts = [HEADER]
    metas = []
    for i, e in enumerate(exprs):
        r = outcome.run(lambda: (lambda m: (m(e), list(m.cse_name_list)))(CCodeMapper()))
        b.case(("emit", repr(e)), sample=dict(expr=repr(e)))
        if r[0] != "val":
            b.fail(Failure("mixed-integer-double", f"what=emit-raised expr={e!r}", dict(kind="mixed", exprs=[repr(e)]), expected="C text", actual=outcome.describe(r)[:150], functions=["CCodeMapper"]))
            continue
        text, decls = r[1]
        parts.append(f"static double case_{i}(ll a, ll b, double x) {{")
        for n, rhs in decls:
            parts.append(f"  double {n} = {rhs};")
        parts.append(f"  return {text};\n}}")
        metas.append((i, e, text))
    parts.append("int main(void) {\n  for (ll a = 1; a <= 4; ++a) for (ll b = 1; b <= 4; ++b) for (int k = 0; k < 2; ++k) { double x = k ? 2.25 : 0.5;")
    for i, e, text in metas:
        parts.append(f'    printf("{i} %lld %lld %d %.17g\\n", a, b, k, case_{i}(a, b, x));')
    parts.append("  }\n  return 0;\n}")
    work = tempfile.mkdtemp(prefix="c14m_", dir=os.environ.get("VERIF_SCRATCH") or ("/dev/shm" if os.path.isdir("/dev/shm") else None))
    try:
        out, err = compile_and_run("\n".join(parts), work, "mixed")
    finally:
        shutil.rmtree(work, ignore_errors=True)
    if out is None:
        b.case("compile")
        b.fail(Failure("mixed-integer-double", "what=c-does-not-compile", dict(kind="mixed", exprs=[repr(e) for _, e, _ in metas]), expected="a C program", actual=err[-300:], functions=["CCodeMapper"]))
        return b
    got = {}
    for line in out.splitlines():
        i, a_, b2, k, v = line.split()
        got[(int(i), int(a_), int(b2), int(k))] = float(v)
    for i, e, text in metas:
        for env in grid_:
            want = outcome.run(lambda: EvaluationMapper(dict(env, sqrt=math.sqrt))(e))
            key = (i, env["a"], env["b"], 1 if env["x"] == 2.25 else 0)
            b.case(("value", i, key[1:]), nontrivial=True)
            if want[0] != "val":
                continue
            g_ = got.get(key)
            if g_ is None or not math.isclose(g_, float(want[1]), rel_tol=1e-12, abs_tol=1e-12):
                b.fail(Failure("mixed-integer-double", f"what=value-differs text={text!r} expr={e!r}"[:400], dict(kind="mixed", exprs=[repr(e)]), expected=f"{want[1]!r} at {env}", actual=repr(g_), functions=["CCodeMapper.map_power"]))
                break
    return b


def _short_lived(i, kind):
    """One statement of a generated stream, built on the fly; nothing of it is kept by the caller."""
    import pymbolic.primitives as p
    a, b = p.Variable("a"), p.Variable("b")
    j = i if kind != "recur" else i // 2          # "recur": statement i wraps what statement i-1 or i-2 wrapped (an equal, newly built child)
    u = p.CommonSubexpression(p.Sum((p.Product((a, j + 2)), b)))
    return p.Sum((p.Product((u, p.Sum((u, 1)))), i))


def b_short_lived(tier):
    """Successive calls on one mapper where every expression is built, mapped and dropped before the next is built (a code generator walking statements)."""
    import gc
    from pymbolic.mapper.c_code import CCodeMapper
    n = 300 if tier == "thorough" else 80
    b = BoundedRun("short-lived-expressions", rule=f"{n} statements u*(u + 1) + i with u = CSE(a*(j + 2) + b), each built on the fly, sent through ONE mapper (and, in a second pass, through "
                   "a copy made half way) and dropped before the next is built, so that the interpreter may reuse the addresses of dead nodes; j = i (all wrapped subexpressions distinct) and "
                   "j = i // 2 (every subexpression recurs once as an equal, newly built object): one assignment per distinct wrapped subexpression, and every emitted text with the hoisted "
                   "assignments has the statement's value at (a, b) in {0..3}^2 (the texts use only +, * and parentheses on small non-negative integers, where C and Python agree: they are "
                   "evaluated with Python's eval - no compiler in this run)", bound=f"{n} statements x 2 recurrence patterns x 2 copy patterns x 16 points",
                   functions=["CCodeMapper.map_common_subexpression", "CCodeMapper.copy"])
    for kind in ("distinct", "recur"):
        for copying in (False, True):
            m = CCodeMapper()
            texts = []
            for i in range(n):
                if copying and i == n // 2:
                    m = m.copy()
                texts.append(outcome.run(lambda: m(_short_lived(i, kind))))
                if i % 7 == 0:
                    gc.collect()
            decls = list(m.cse_name_list)
            distinct = n if kind == "distinct" else (n + 1) // 2
            b.case(("assignments", kind, copying), nontrivial=True, sample=dict(kind=kind, copying=copying, assignments=len(decls)))
            if len(decls) != distinct or len({nm for nm, _ in decls}) != len(decls):
                b.fail(Failure("short-lived-expressions", f"what=assignment-count pattern={kind} copy={copying} assignments={len(decls)} distinct-wrapped={distinct}",
                               dict(kind="short-lived", pattern=kind, copying=copying, what="count"), expected=f"{distinct} assignments with distinct names", actual=f"{len(decls)}: {decls[:4]}"[:200],
                               functions=["CCodeMapper.map_common_subexpression"]))
            bad = None
            for av in range(4):
                for bv in range(4):
                    env = {"a": av, "b": bv, "__builtins__": {}}
                    r = outcome.run(lambda: [env.__setitem__(nm, eval(rhs, env)) for nm, rhs in decls])      # noqa: S307
                    for i, t in enumerate(texts):
                        j = i if kind == "distinct" else i // 2
                        uval = av * (j + 2) + bv
                        want = uval * (uval + 1) + i
                        got = outcome.run(lambda: eval(t[1], env)) if t[0] == "val" and r[0] == "val" else (t if t[0] != "val" else r)      # noqa: S307
                        b.case(("value", kind, copying, i, av, bv))
                        if got != ("val", want) and bad is None:
                            bad = (i, av, bv, want, got, t)
            if bad:
                i, av, bv, want, got, t = bad
                b.fail(Failure("short-lived-expressions", f"what=value pattern={kind} copy={copying} statement={i} a={av} b={bv} text={t[1] if t[0] == 'val' else None!r}",
                               dict(kind="short-lived", pattern=kind, copying=copying, what="value"), expected=repr(want), actual=outcome.describe(got)[:200],
                               functions=["CCodeMapper.map_common_subexpression"]))
    return b


def bounded(tier, seed, procs):
    return [b_programs(tier, seed, "int"), b_systematic(tier), b_programs(tier, seed, "double"), b_cse(tier, seed), b_branching(tier, seed), b_mixin(tier, seed), b_mixed_types(tier),
            b_short_lived(tier)]


def proof_jobs(tier):
    return []


def replay(case):
    import pymbolic.primitives as p
    from pymbolic.mapper.c_code import CCodeMapper
    ns = {n: getattr(p, n) for n in dir(p)}
    ns["cse_scope"] = p.cse_scope
    out = {}
    if case.get("kind") == "short-lived":
        return any(f.case == case for f in b_short_lived("quick").failures)
    if "ops" in case:
        ops = eval(case["ops"], ns)
        r = outcome.run(lambda: run_case(ops))
        out["mapper"] = outcome.describe(r)[:400]
    else:
        for s in case.get("exprs", []):
            e = eval(s, ns)
            m = CCodeMapper()
            out[s[:60]] = outcome.describe(outcome.run(lambda: (m(e), m.cse_name_list)))[:300]
    return out

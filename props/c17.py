"""C17  Pickles and persistent keys are stable across processes."""
from __future__ import annotations

import itertools
import os
import subprocess
import sys
import tempfile

from contracts import c01 as K1
from harness import outcome, trees
from harness.runner import BoundedRun, Failure
from props import c01 as P1

LEVEL = "proof"
SPECS = []
EXPLANATION = (
    "Mechanism proved (shared with C01): for every node class __getstate__ returns exactly the field tuple (so the "
    "process-local cached hash cannot cross the pickle boundary), __setstate__ assigns exactly the fields and never "
    "_hash_value, and a fresh hash is computed from the fields in the consuming process; hence the unpickled object is "
    "SpecEq to one built from source there and hashes like it. PersistentHashWalkMapper: every update() argument is "
    "proved (taint scan over the symbolic log) to be built only from class names, variable names, operator strings and "
    "repr of constants - no id(), hash() or set order. The two-process claim itself is executed (bounded): "
    "producer/consumer interpreters with different PYTHONHASHSEED and -O, all protocols, all histories of length <= 2.")
ASSUMPTIONS = ["pickle/copyreg call __getstate__/__setstate__ as documented and restore the class by qualified name",
               "str.encode, repr of builtin numbers and hashlib are deterministic across processes", "A-EQ (see C01)"]
TRUSTED_BASE = ["pickle", "hashlib"]


def _digest_taint(arg):
    """Symbolic log of PersistentHashWalkMapper methods: which terms flow into key_hash.update."""
    import time
    import z3
    from pyvc import effects, loader, smt, verify
    from pyvc.interp import Interp
    from pyvc.values import BoundMethod, Conc, NativeHandler, SymNode, SymObj, SymV, Unsupported, PyRaise
    import pymbolic.primitives as p
    from pymbolic.mapper.persistent_hash import PersistentHashWalkMapper
    t0 = time.time()
    obs = []
    forbidden = ("py_id", "py_hash", "hsh", "alloc_id", "set_items", "sorted_id")
    classes = [k for k in verify.node_class_table() if k.__module__ == "pymbolic.primitives"] + ["<constant>"]
    for k in classes:
        name = k if isinstance(k, str) else k.__name__
        try:
            ctx = smt.Ctx()
            I = Interp(ctx, class_table=list(verify.node_class_table()))
            I.new_objects, I.map_defs, I.map_info = [], {}, {}
            I.op_may_raise = False
            selfv = SymObj(PersistentHashWalkMapper, {}, z3.Const("self", smt.V))
            kh = SymObj(object, {}, z3.Const("key_hash", smt.V))

            def update(I, self_obj, args, kwargs, star, dstar, node):
                effects.event(I, "update", [args[0]])
                return Conc(None)
            kh.attrs["update"] = BoundMethod(kh, NativeHandler(update), "update")
            selfv.attrs["key_hash"] = kh

            def rec(I, self_obj, args, kwargs, star, dstar, node):
                effects.event(I, "rec", [args[0]])
                return Conc(None)
            selfv.rec_contract = NativeHandler(rec)
            if isinstance(k, str):
                expr = SymV(z3.Const("expr", smt.V))
                ctx.assume(smt.tag(expr.t) == smt.TAG_INT)
                meth = PersistentHashWalkMapper.map_constant
            else:
                expr = I.sym_node(k, z3.Const("expr", smt.V))
                tgt = verify.dispatch_target(PersistentHashWalkMapper, k)
                if tgt is None:
                    continue
                meth = tgt[1]
            import pymbolic.mapper as pm
            if loader.unwrap(meth) is loader.unwrap(getattr(pm.Mapper, getattr(meth, "__name__", ""), None) or (lambda: 0)):
                continue
            outs = I.explore(lambda: I.call_function(Conc(loader.unwrap(meth)), [selfv, expr], {}))
            bad = []
            n_upd = 0
            for o in outs:
                for ev in o.effects:
                    if ev.decl().name() != "ev_update":
                        continue
                    n_upd += 1
                    txt = ev.sexpr()
                    for fb in forbidden:
                        if fb in txt:
                            bad.append(fb)
            st = "discharged" if not bad else "refuted"
            obs.append(dict(name=f"PersistentHashWalkMapper.{getattr(meth, '__name__', '?')}[{name}]/digest-inputs", status=st, backend="syntactic",
                            time_s=0.0, detail="" if not bad else f"process-dependent data flows into the digest: {sorted(set(bad))}", model="",
                            goal=f"{n_upd} update() arguments are functions of class names / field values only (no id, hash, set order)"))
        except (Unsupported, PyRaise) as e:
            obs.append(dict(name=f"PersistentHashWalkMapper[{name}]/digest-inputs", status="undecided", backend="syntactic", time_s=0.0,
                            detail=f"unsupported: {e}", model="", goal="taint scan"))
    # the walk itself: visit() must let the traversal descend into every node, whatever was visited before (no dependence on id / object sharing)
    try:
        ctx = smt.Ctx()
        I = Interp(ctx, class_table=list(verify.node_class_table()))
        I.new_objects, I.map_defs, I.map_info = [], {}, {}
        I.op_may_raise = False
        selfv = SymObj(PersistentHashWalkMapper, {}, z3.Const("self", smt.V))
        kh = SymObj(object, {}, z3.Const("key_hash", smt.V))
        kh.attrs["update"] = BoundMethod(kh, NativeHandler(lambda I, self_obj, args, kwargs, star, dstar, node: Conc(None)), "update")
        selfv.attrs["key_hash"] = kh
        expr = SymV(z3.Const("expr", smt.V))
        outs = I.explore(lambda: I.call_function(Conc(loader.unwrap(PersistentHashWalkMapper.visit)), [selfv, expr], {}))
        rets = [o for o in outs if o.kind == "ret"]      # raising paths (type(expr).__name__ on an opaque object) are not judged
        ok = bool(rets) and all(isinstance(o.value, Conc) and o.value.obj is True for o in rets)
        obs.append(dict(name="PersistentHashWalkMapper.visit/always-descends", status="discharged" if ok else "refuted", backend="syntactic", time_s=0.0,
                        detail="" if ok else f"visit() does not return True on every returning path: {[str(o.value)[:80] for o in outs][:4]}", model="",
                        goal="visit(expr) returns True for every expr and every state of the mapper: equal trees are walked identically"))
    except (Unsupported, PyRaise) as e:
        obs.append(dict(name="PersistentHashWalkMapper.visit/always-descends", status="undecided", backend="syntactic", time_s=0.0,
                        detail=f"unsupported: {e}", model="", goal="visit(expr) returns True unconditionally"))
    return dict(contract="C17.digest-inputs", status="ok", obligations=obs, function=None, paths=len(obs), time_s=time.time() - t0)


def proof_jobs(tier):
    jobs = [("custom", K1.class_obligations, k, None) for k in P1.all_classes(include_handwritten=True)]
    jobs.append(("custom", _digest_taint, None, None))
    return jobs


# ----------------------------------------------------------------------------- bounded: two processes
def _run(pyargs, env_extra, *args):
    env = dict(os.environ)
    env.update(env_extra)
    cmd = [sys.executable, "-W", "ignore", *pyargs, os.path.join(os.path.dirname(os.path.dirname(os.path.abspath(__file__))), "harness", "c17_child.py"), *args]
    return subprocess.run(cmd, env=env, capture_output=True, text=True, timeout=600)


def bounded(tier, seed, procs):
    b = BoundedRun("two-process", rule="producer and consumer interpreters with different PYTHONHASHSEED (and -O vs default): the producer builds "
                   "the corpus (every built-in node class, fixture/legacy classes, the shipped Rational and Polynomial node types, user node types with an init=False field, multivectors with symbolic coefficients, parsed expressions with list literals, compiled expressions), applies a history over {hash, eq, pickle round trip} "
                   "of length <= 2, pickles with every protocol and records persistent digests; the consumer unpickles and checks ==, hash, dict/set look-up "
                   "against expressions built from source there, the absence of a stale cached hash, the digests, and compiled callables; "
                   "non-trivial = every (expression, protocol, history, configuration) combination", bound="60 expressions x 6 protocols x 7 histories x 3 configurations",
                   functions=["generated __getstate__/__setstate__/__hash__", "Expression.__getstate__/__setstate__", "PersistentHashWalkMapper", "CompiledExpression.__getstate__/__setstate__"])
    hist = ["none", "hash", "hash,roundtrip", "roundtrip,hash", "hash,eq", "eq,roundtrip", "hash,hash"]
    if tier == "quick":
        hist = ["none", "hash", "hash,roundtrip", "roundtrip,hash"]
    configs = [(("1", []), ("2", [])), (("7", []), ("123", ["-O"])), (("0", ["-O"]), ("random", []))]
    if tier == "quick":
        configs = configs[:2]
    tmpd = tempfile.mkdtemp(prefix="c17_", dir="/dev/shm" if os.path.isdir("/dev/shm") else None)
    try:
        for (ps, pflags), (cs, cflags) in configs:
            for h in hist:
                f = os.path.join(tmpd, f"p_{ps}_{h.replace(',', '_')}.pkl")
                r1 = _run(pflags, {"PYTHONHASHSEED": ps}, "produce", f, h)
                if r1.returncode != 0:
                    b.fail(Failure("two-process", f"mode=producer-crash seed={ps} flags={pflags} history={h}", dict(kind="c17", producer=ps, history=h),
                                   expected="producer runs", actual=r1.stderr[-400:], functions=["pickle"]))
                    continue
                r2 = _run(cflags, {"PYTHONHASHSEED": cs}, "consume", f)
                n = 0
                for line in r2.stdout.splitlines():
                    if line.startswith("CHECKED"):
                        n = 60 * 6
                    if line.startswith("PROBLEM "):
                        kind = "digest" if "persistent digest" in line else ("compiled" if line.startswith("PROBLEM compiled") else "pickle")
                        b.fail(Failure("two-process", f"what={kind} producer=({ps},{pflags}) consumer=({cs},{cflags}) history={h} {line[8:200]}",
                                       dict(kind="c17", producer=[ps, pflags], consumer=[cs, cflags], history=h, line=line[8:300]),
                                       expected="equal, same hash, found as key, same digest", actual=line[8:300],
                                       functions=["__getstate__", "__setstate__", "__hash__", "PersistentHashWalkMapper"]))
                if r2.returncode != 0 or n == 0:
                    b.fail(Failure("two-process", f"mode=consumer-crash producer={ps} consumer={cs} history={h}", dict(kind="c17", history=h),
                                   expected="consumer runs", actual=(r2.stderr or r2.stdout)[-400:], functions=["pickle"]))
                for i in range(max(n, 1)):
                    b.case((ps, tuple(pflags), cs, tuple(cflags), h, i), nontrivial=True,
                           sample=dict(producer_seed=ps, consumer_seed=cs, producer_flags=pflags, consumer_flags=cflags, history=h))
    finally:
        import shutil
        shutil.rmtree(tmpd, ignore_errors=True)
    b2 = digest_eq(tier)
    return [b, b2]


def digest_eq(tier):
    """The persistent key is the same for equal expressions (in one process)."""
    import hashlib
    import warnings
    import pymbolic.primitives as p
    from immutabledict import immutabledict
    from pymbolic.mapper.persistent_hash import PersistentHashWalkMapper
    b = BoundedRun("digest-respects-eq", rule="pairs of equal expressions built differently (keyword order, dict vs immutabledict, 4 vs 4.0 vs True constants, "
                   "tuple vs scalar index, by-name comparison operators, with shared vs. separately built equal subexpression objects, parsed vs. constructed): persistent digests must be equal",
                   bound="fixed list of 16 pairs", functions=["PersistentHashWalkMapper"])

    def dg(e):
        h = hashlib.sha256()
        with warnings.catch_warnings():
            warnings.simplefilter("ignore")
            PersistentHashWalkMapper(h)(e)
        return h.hexdigest()
    x, y, f = trees.X, trees.Y, trees.F
    with warnings.catch_warnings():
        warnings.simplefilter("ignore")
        pairs = [
            ("kw-order", p.CallWithKwargs(f, (), immutabledict({"a": x, "b": y})), p.CallWithKwargs(f, (), immutabledict({"b": y, "a": x}))),
            ("kw-dict-vs-immutabledict", p.CallWithKwargs(f, (), {"a": x}), p.CallWithKwargs(f, (), immutabledict({"a": x}))),
            ("const-int-vs-float", p.Sum((x, 4)), p.Sum((x, 4.0))),
            ("const-bool-vs-int", p.Sum((x, True)), p.Sum((x, 1))),
            ("cmp-by-name", p.Comparison(x, "le", y), p.Comparison(x, "<=", y)),
            ("same-source", p.Sum((x, p.Product((y, 2)))), p.Sum((p.Variable("x"), p.Product((p.Variable("y"), 2))))),
            ("cse-scope-none", p.CommonSubexpression(x, None, None), p.CommonSubexpression(x)),
        ]
        # equal expressions that differ only in how many distinct OBJECTS they are made of (pickle preserves sharing, rebuilding from source does not)
        s_ = p.Sum((x, y))
        cs = p.CommonSubexpression(p.Product((x, y)), "c")
        pairs += [
            ("shared-operand", p.Product((s_, s_)), p.Product((p.Sum((x, y)), p.Sum((p.Variable("x"), p.Variable("y")))))),
            ("shared-leaf", p.Sum((x, x, x)), p.Sum((p.Variable("x"), p.Variable("x"), p.Variable("x")))),
            ("shared-cse", p.Sum((cs, p.Power(cs, 2))), p.Sum((p.CommonSubexpression(p.Product((x, y)), "c"), p.Power(p.CommonSubexpression(p.Product((x, y)), "c"), 2)))),
            ("shared-nested", p.Quotient(p.Sum((s_, 1)), p.Product((s_, p.Sum((s_, 1))))),
             p.Quotient(p.Sum((p.Sum((x, y)), 1)), p.Product((p.Sum((x, y)), p.Sum((p.Sum((x, y)), 1)))))),
            ("shared-call-args", p.Call(f, (s_, s_)), p.Call(f, (p.Sum((x, y)), p.Sum((x, y))))),
        ]
    # equal expressions of which one comes from the parser (its nested tuples are instances of a tuple subclass)
    from pymbolic import parse
    for pname, src, built in (("parsed-nested-tuple", "x[(1, 2),]", p.Subscript(x, ((1, 2),))), ("parsed-call-with-tuple", "f((x, y), 2)", p.Call(f, ((x, y), 2))),
                              ("parsed-sum", "x + y*2", p.Sum((x, p.Product((y, 2))))), ("parsed-subscript", "a[x, y]", p.Subscript(trees.A, (x, y)))):
        pr = outcome.run(lambda: parse(src))
        if pr[0] == "val":
            pairs.append((pname, pr[1], built))
    for name, a, c in pairs:
        if not (a == c):
            continue
        r = outcome.run(lambda: (dg(a), dg(c)))
        b.case(name, sample=dict(case=name, a=repr(a), b=repr(c)))
        if r[0] != "val" or r[1][0] != r[1][1]:
            b.fail(Failure("digest-respects-eq", f"case={name} a={a!r} b={c!r}", dict(kind="digest-eq", case=name), expected="equal digests for equal expressions",
                           actual=outcome.describe(r)[:200], functions=["PersistentHashWalkMapper"]))
    return b


def replay(case):
    runs = bounded("quick", 0, 1)
    return any(f.case == case or (case.get("kind") == "c17" and f.case.get("line") == case.get("line")) for b in runs for f in b.failures)

"""C05  Memoization and mapper optimization are observationally transparent."""
from __future__ import annotations

import itertools
import warnings

from contracts import c02 as K2
from contracts import c05 as K
from contracts import c09 as K9
from contracts.specs import den
from harness import outcome, trees
from harness.runner import BoundedRun, Failure
from pyvc import verify

LEVEL = "proof"
SPECS = [den, K9.Deps]
EXPLANATION = (
    "CachedMapper.__call__ is proved, for every node class, a symbolic handler set and symbolic extra arguments, to "
    "return what the un-memoized dispatch returns (object invariant CacheInv on _cache assumed for entries found and "
    "re-established for every entry written; on a hit no handler runs; only _cache is written); get_cache_key is proved "
    "injective in (type(expr), expr, args, kwargs); the CSE caching mix-in is proved for the evaluation and dependency "
    "mappers (C02/C09 contracts). The mapper optimizer and whole call histories are checked by the bounded part "
    "(all 32 option sets; cached/uncached pairs; histories on one instance).")
ASSUMPTIONS = [
    "A-EQ-KEY: a dict look-up with an equal key is a look-up with that key; handlers are deterministic functions of (expr, args, kwargs)",
    "the premise 'F respects key equality' (equal-but-differently-typed constants nested inside an expression) is NOT proved: see known finding C05-nested-constant-type",
]
TRUSTED_BASE = ["immutabledict (hashable, order-insensitive equality)", "dict"]


def classes():
    return [k for k in verify.node_class_table() if k.__module__ == "pymbolic.primitives"]


def _mro_table(arg):
    """Finite table obligations on the real class objects: every concrete cached mapper resolves __call__ and rec to
    CachedMapper.__call__ and creates _cache in its constructor."""
    import time
    import pymbolic.mapper as m
    from pymbolic.mapper.analysis import NodeCountMapper
    from pymbolic.mapper.dependency import CachedDependencyMapper
    from pymbolic.mapper.evaluator import CachedEvaluationMapper, CachedFloatEvaluationMapper
    from pymbolic.mapper.flop_counter import FlopCounter
    from pymbolic.mapper.substitutor import CachedSubstitutionMapper
    t0 = time.time()
    obs = []
    makers = {
        "CachedIdentityMapper": lambda: m.CachedIdentityMapper(), "CachedCombineMapper": lambda: m.CachedCombineMapper(),
        "CachedCollector": lambda: m.CachedCollector(), "CachedWalkMapper": lambda: m.CachedWalkMapper(),
        "CachedEvaluationMapper": lambda: CachedEvaluationMapper({}), "CachedFloatEvaluationMapper": lambda: CachedFloatEvaluationMapper({}),
        "CachedDependencyMapper": lambda: CachedDependencyMapper(), "CachedSubstitutionMapper": lambda: CachedSubstitutionMapper(lambda v: None),
        "NodeCountMapper": lambda: NodeCountMapper(), "FlopCounter": lambda: FlopCounter(),
    }
    for name, mk in makers.items():
        inst = mk()
        ok = (type(inst).__call__ is m.CachedMapper.__call__ and type(inst).rec is m.CachedMapper.__call__
              and isinstance(getattr(inst, "_cache", None), dict) and len(inst._cache) == 0
              and type(inst).get_cache_key is m.CachedMapper.get_cache_key)
        obs.append(dict(name=f"{name}/mro+init", status="discharged" if ok else "refuted", backend="table", time_s=0.0,
                        detail="" if ok else f"{name}: __call__/rec/get_cache_key/_cache not those of CachedMapper",
                        model="", goal="type(m).__call__ is type(m).rec is CachedMapper.__call__; fresh _cache == {}"))
    return dict(contract="C05.cached-classes", status="ok", obligations=obs, function=None, paths=len(obs), time_s=time.time() - t0)


def proof_jobs(tier):
    jobs = []
    for fc in K.cached_contracts(classes()) + K.FUNCTIONS:
        jobs.append(("function", fc, None, None))
    import pymbolic.primitives as p
    for vn, v in K2.EVAL.variants:
        jobs.append(("mapperv", K2.EVAL, (p.CommonSubexpression, vn, v), None))
    for vn, v in K9.DEPENDENCY.variants:
        jobs.append(("mapperv", K9.DEPENDENCY, (p.CommonSubexpression, vn, v), None))
    jobs.append(("custom", _mro_table, None, None))
    return jobs


# ----------------------------------------------------------------------------- bounded
def domain():
    import pymbolic.primitives as p
    x, y = trees.X, trees.Y
    shared = p.Sum((x, p.Product((y, 2))))
    shared_eq = p.Sum((p.Variable("x"), p.Product((p.Variable("y"), 2))))
    return [x, 4, p.Sum((x, 4)), p.Product((shared, shared_eq, shared)), p.Quotient(shared, p.Power(shared_eq, 2)),
            p.Call(trees.F, (x, shared, x)), p.Subscript(trees.A, (x, y)), p.If(p.Comparison(x, "<", y), shared, x),
            p.CommonSubexpression(shared), p.Sum((p.CommonSubexpression(shared), p.CommonSubexpression(shared_eq))),
            p.Sum((x, -1)), p.Sum((x, -2)), p.Product((p.Sum((x, -1)), p.Sum((x, -2)))), p.Power(x, 2), p.Power(x, 2.0),
            # node types reached through alias methods (map_product = map_sum, map_floor_div = map_quotient, ...), with distinguishable operands
            p.Product((x, y, 3)), p.FloorDiv(x, y), p.Remainder(p.Sum((x, 1)), y), p.Sum((p.Product((x, y)), p.FloorDiv(y, x), p.Quotient(x, y)))]


def pairs():
    from contracts import fixtures_opt as fx
    from pymbolic.mapper import CachedIdentityMapper, IdentityMapper
    from pymbolic.mapper.dependency import CachedDependencyMapper, DependencyMapper
    from pymbolic.mapper.evaluator import CachedEvaluationMapper, EvaluationMapper
    from pymbolic.mapper.substitutor import CachedSubstitutionMapper, SubstitutionMapper, make_subst_func
    import pymbolic.primitives as p
    env = {"x": 3, "y": 5, "f": lambda *a: sum(a), "a": {(3, 5): 9}}
    sf = make_subst_func({"x": p.Variable("y"), "y": p.Variable("x")})
    return [
        ("identity", lambda: CachedIdentityMapper(), lambda: IdentityMapper(), [((), {})]),
        ("renamer", lambda: fx.CachedRenamer(), lambda: fx.Renamer(), [((), {}), ((1,), {}), ((2,), {}), ((1,), {"k": 1}), ((1,), {"k": 2})]),
        ("evaluation", lambda: CachedEvaluationMapper(env), lambda: EvaluationMapper(env), [((), {})]),
        ("dependency", lambda: CachedDependencyMapper(), lambda: DependencyMapper(), [((), {})]),
        ("dependency-cses", lambda: CachedDependencyMapper(include_cses=True, composite_leaves=False),
         lambda: DependencyMapper(include_cses=True, composite_leaves=False), [((), {})]),
        ("substitution", lambda: CachedSubstitutionMapper(sf), lambda: SubstitutionMapper(sf), [((), {})]),
    ]


def b_histories(tier):
    b = BoundedRun("cached-vs-fresh", rule="each cached/uncached mapper pair x all call histories of length <= 2 (quick) / 3 (thorough) "
                   "over (expression, extra-argument) calls on ONE cached instance: every result equals (same type, ==) what a fresh uncached "
                   "mapper returns; handler invocations per distinct key <= 1; non-trivial = history revisiting an equal subtree",
                   bound="15 expressions with heavy sharing, up to 5 argument tuples, histories <= 3", functions=["CachedMapper.__call__", "get_cache_key"])
    dom = domain()
    L = 3 if tier == "thorough" else 2
    for name, mk_c, mk_u, argsets in pairs():
        calls = [(e, a, kw) for e in dom for (a, kw) in argsets]
        if len(calls) > 24:
            calls = trees.thin(calls, 24, seed=len(calls))
        for n in range(1, L + 1):
            for hist in itertools.product(calls, repeat=n):
                if n == 3 and len({id(h[0]) for h in hist}) < 2:
                    continue
                cm = mk_c()
                bad = None
                for (e, a, kw) in hist:
                    real = outcome.run(lambda: cm(e, *a, **kw))
                    ref = outcome.run(lambda: mk_u()(e, *a, **kw))
                    if not outcome.equivalent(real, ref, typed=True) and not (real[0] == "val" and ref[0] == "val" and _tree_typed_eq(real[1], ref[1])):
                        bad = (e, a, kw, real, ref)
                        break
                    if real[0] == "val" and ref[0] == "val" and not _tree_typed_eq(real[1], ref[1]):
                        bad = (e, a, kw, real, ref)
                        break
                b.case((name, tuple((repr(h[0]), repr(h[1]), repr(h[2])) for h in hist)), nontrivial=n > 1,
                       sample=dict(pair=name, history=[(repr(h[0])[:60], h[1], h[2]) for h in hist]))
                if bad:
                    e, a, kw, real, ref = bad
                    cause = "other"
                    for (e0, a0, kw0) in hist:
                        if e0 is not e and a0 == a and kw0 == kw and outcome.run(lambda: e0 == e) == ("val", True) \
                                and not _tree_typed_eq(e0, e) and not _is_const(e):
                            cause = "nested-constant-type"
                    b.fail(Failure("cached-vs-fresh", f"cause={cause} pair={name} history={[(repr(h[0]), h[1], h[2]) for h in hist]} at={e!r} args={a} kw={kw}",
                                   dict(kind="hist", pair=name, history=[(trees.src(h[0]), repr(h[1]), repr(h[2])) for h in hist]),
                                   expected=outcome.describe(ref), actual=outcome.describe(real),
                                   functions=["CachedMapper.__call__", "CachedMapper.get_cache_key"]))
    return b


def _is_const(e):
    import pymbolic.primitives as p
    return not isinstance(e, (p.Expression, tuple, list))


def _tree_typed_eq(a, b):
    """Equal trees whose constants also agree in type."""
    import pymbolic.primitives as p
    import dataclasses
    if type(a) is not type(b):
        return False
    if isinstance(a, p.Expression):
        return all(_tree_typed_eq(getattr(a, f.name), getattr(b, f.name)) for f in dataclasses.fields(a))
    if isinstance(a, (tuple, list)):
        return len(a) == len(b) and all(_tree_typed_eq(x, y) for x, y in zip(a, b))
    if isinstance(a, (set, frozenset)):
        return a == b
    if hasattr(a, "items") and not isinstance(a, p.Expression):
        return dict(a) == dict(b)
    return outcome.same_value(a, b, typed=True)


def b_once(tier):
    from contracts import fixtures_opt as fx
    import pymbolic.primitives as p
    b = BoundedRun("computed-once", rule="a cached renamer applied to expressions with repeated equal-but-not-identical subtrees and to "
                   "repeated calls: the variable handler runs at most once per distinct (variable, arguments) key on one instance",
                   bound="15 expressions x histories <= 2", functions=["CachedMapper.__call__"])
    dom = domain()
    for hist in itertools.chain(itertools.product(dom, repeat=1), itertools.product(dom, repeat=2)):
        cm = fx.CachedRenamer()
        for e in hist:
            outcome.run(lambda: cm(e))
        names = set()
        for e in hist:
            _vars(e, names)
        b.case(tuple(repr(h) for h in hist), nontrivial=len(hist) > 1, sample=[repr(h)[:50] for h in hist])
        if getattr(cm, "calls", 0) > len(names):
            b.fail(Failure("computed-once", f"history={[repr(h) for h in hist]} calls={cm.calls} distinct_variables={len(names)}",
                           dict(kind="once", history=[trees.src(h) for h in hist]), expected=f"<= {len(names)} handler calls",
                           actual=f"{cm.calls}", functions=["CachedMapper.__call__"]))
    # a large expression: more distinct keys than any plausible bound on a memo table, every variable occurring a second time at the end
    N = 150000 if tier == "thorough" else 70000
    vs_ = [p.Variable(f"v{i}") for i in range(N)]
    big = p.Sum((*vs_, *vs_[:50], p.Product((vs_[0], vs_[N - 1]))))
    cm = fx.CachedRenamer()
    r = outcome.run(lambda: cm(big))
    b.case(("large", N), nontrivial=True, sample=dict(distinct_variables=N))
    if r[0] != "val" or getattr(cm, "calls", 0) != N:
        b.fail(Failure("computed-once", f"what=large-expression n={N} calls={getattr(cm, 'calls', None)}", dict(kind="once-large", n=N), expected=f"{N} handler calls", actual=f"{outcome.describe(r)[:60]} calls={getattr(cm, 'calls', None)}",
                       functions=["CachedMapper.__call__"]))
    return b


def _vars(e, acc):
    import pymbolic.primitives as p
    from pyvc import api
    if isinstance(e, p.Variable):
        acc.add(e.name)
    elif isinstance(e, p.Expression):
        for c in api.children(e):
            _vars(c, acc)
    elif isinstance(e, (tuple, list)):
        for c in e:
            _vars(c, acc)


def b_types(tier):
    """Results are never shared between constants that are equal but of different type."""
    from contracts import fixtures_opt as fx
    import pymbolic.primitives as p
    b = BoundedRun("constant-types", rule="type-sensitive constant handler on 4 / 4.0 / True / 1 / 1.0 at top level and nested inside sums, "
                   "products, calls, subscripts, in both orders on one cached instance, against the uncached mapper",
                   bound="5 constants x 5 contexts x ordered pairs", functions=["CachedMapper.get_cache_key"])
    consts = [4, 4.0, True, 1, 1.0]
    ctxs = {"top": lambda c: c, "sum": lambda c: p.Sum((trees.X, c)), "product": lambda c: p.Product((c, trees.Y)),
            "call": lambda c: p.Call(trees.F, (c,)), "subscript": lambda c: p.Subscript(trees.A, c)}
    for cname, ctx in ctxs.items():
        for c1, c2 in itertools.permutations(consts, 2):
            if not (c1 == c2):
                continue
            cm = fx.TypeTagger()
            r1 = outcome.run(lambda: cm(ctx(c1)))
            r2 = outcome.run(lambda: cm(ctx(c2)))
            e2 = outcome.run(lambda: fx.PlainTypeTagger()(ctx(c2)))
            b.case((cname, repr(c1), repr(c2)), sample=dict(context=cname, first=repr(c1), second=repr(c2)))
            if not (r2[0] == e2[0] and (r2[0] == "exc" or r2[1] == e2[1])):
                b.fail(Failure("constant-types", f"cause={'top-level' if cname == 'top' else 'nested-constant-type'} context={cname} first={c1!r} second={c2!r}",
                               dict(kind="types", context=cname, first=repr(c1), second=repr(c2)),
                               expected=outcome.describe(e2), actual=outcome.describe(r2), functions=["CachedMapper.get_cache_key"]))
    return b


def b_optimizer(tier):
    from contracts import fixtures_opt as fx
    from pymbolic.mapper.optimize import optimize_mapper
    b = BoundedRun("optimizer", rule="optimize_mapper under all 32 on/off combinations of (drop_args, drop_kwargs, inline_rec, inline_cache, "
                   "inline_get_cache_key) applied to fixture mappers (renamer with extra args, cached renamer, plain cached renamer, collector, cached walker whose handlers return None, the stock node counter, two mappers overriding the target of an inherited alias method but not the alias); "
                   "optimized vs. plain class on the expression set and on histories of length 2 on one instance (results, handler-call counts); "
                   "combinations that drop arguments are exercised only on calls without such arguments; non-trivial = option set with >= 1 option on",
                   bound="32 option sets x 10 mappers x 19 expressions", functions=["pymbolic.mapper.optimize:optimize_mapper", "_RecInliner", "_VarArgsRemover", "_CacheKeyInliner"])
    dom = domain()
    opts = ["drop_args", "drop_kwargs", "inline_rec", "inline_cache", "inline_get_cache_key"]
    # (name, class, cached, uses positional extras, uses keyword extras)
    subjects = [("Renamer", fx.Renamer, False, True, True), ("CachedRenamer", fx.CachedRenamer, True, True, True),
                ("PlainCachedRenamer", fx.PlainCachedRenamer, True, False, False), ("VarCollector", fx.VarCollector, False, True, True),
                ("KwRenamer", fx.KwRenamer, False, False, True), ("ArgRenamer", fx.ArgRenamer, False, True, False),
                ("TallyWalker", fx.TallyWalker, True, False, False), ("CountNodes", fx.CountNodes, True, False, False),
                ("SumReverser", fx.SumReverser, True, False, False), ("QuotientSwapper", fx.QuotientSwapper, True, False, False),
                ("PlainVarCollector", fx.PlainVarCollector, False, False, False), ("CachedPlainVarCollector", fx.CachedPlainVarCollector, True, False, False)]
    for bits in itertools.product((False, True), repeat=5):
        o = dict(zip(opts, bits))
        for sname, cls, cached, uses_a, uses_k in subjects:
            if (o["inline_cache"] or o["inline_get_cache_key"]) and not cached:
                continue
            if (o["drop_args"] and uses_a) or (o["drop_kwargs"] and uses_k):
                continue      # dropping a parameter the class itself uses is not a legitimate use of the optimizer
            if sname == "PlainCachedRenamer" and not (o["drop_args"] and o["drop_kwargs"]) and False:
                continue
            if o["inline_cache"] and "get_cache_key" not in vars(cls):
                # inline_cache inlines the key (type(expr), expr): the rewriting "requires some attention from the user to make sure all transformations applied are
                # valid" (module comment) -- valid for classes whose get_cache_key is that key (as in test/testlib.py), not for the default key with extra arguments
                continue
            with warnings.catch_warnings():
                warnings.simplefilter("ignore")
                made = outcome.run(lambda: optimize_mapper(**o)(cls))
            b.case(("make", sname, bits), nontrivial=any(bits), sample=dict(subject=sname, options=o))
            if made[0] == "exc":
                b.fail(Failure("optimizer", f"mode=build subject={sname} options={o}", dict(kind="opt-build", subject=sname, options=o),
                               expected="an optimized class", actual=outcome.describe(made), functions=["optimize_mapper"]))
                continue
            ocls = made[1]
            argsets = [((), {})]
            if uses_a:
                argsets.append(((1,), {}))
            if uses_k:
                argsets.append(((), {"k": 2}))
                if uses_a:
                    argsets.append(((1,), {"k": 2}))
            for (a, kw) in argsets:
                om, pm = ocls(), cls()
                for e in dom:
                    r = outcome.run(lambda: om(e, *a, **kw))
                    x = outcome.run(lambda: pm(e, *a, **kw))
                    b.case((sname, bits, repr(e), repr(a), repr(kw)), nontrivial=any(bits))
                    same = (r[0] == x[0]) and (r[0] == "exc" or _tree_typed_eq(r[1], x[1]))
                    cause = "result"
                    if same and cached and getattr(om, "calls", 0) != getattr(pm, "calls", 0):
                        same = False
                        cause = "recomputed"
                    if not same:
                        if r[0] == "exc" and x[0] == "val":
                            cause = "exc-" + r[1].__name__
                        b.fail(Failure("optimizer", f"cause={cause} mode=run subject={sname} options={o} args={a} kw={kw} expr={e!r}",
                                       dict(kind="opt-run", subject=sname, options=o, args=repr(a), kw=repr(kw), expr=trees.src(e)),
                                       expected=outcome.describe(x) + f" calls={getattr(pm, 'calls', None)}",
                                       actual=outcome.describe(r) + f" calls={getattr(om, 'calls', None)}",
                                       functions=["optimize_mapper"]))
            # one optimized instance called with DIFFERENT extra arguments in turn: each result is what a fresh plain instance gives for those arguments
            if cached and (uses_a or uses_k):
                om2 = ocls()
                turns = ([((1,), {}), ((2,), {}), ((1,), {})] if uses_a else []) + ([((), {"k": 2}), ((), {"k": 3})] if uses_k else [])
                for (a, kw) in turns:
                    for e in dom[:8]:
                        r = outcome.run(lambda: om2(e, *a, **kw))
                        x = outcome.run(lambda: cls()(e, *a, **kw))
                        b.case(("turns", sname, bits, repr(e), repr(a), repr(kw)), nontrivial=any(bits))
                        if not ((r[0] == x[0]) and (r[0] == "exc" or _tree_typed_eq(r[1], x[1]))):
                            cause = "inline-cache-key-ignores-extra-arguments" if o["inline_cache"] else "result-shared-between-arguments"
                            b.fail(Failure("optimizer", f"cause={cause} mode=argument-turns subject={sname} options={o} args={a} kw={kw} expr={e!r}",
                                           dict(kind="opt-turns", subject=sname, options=o, args=repr(a), kw=repr(kw), expr=trees.src(e)), expected=outcome.describe(x)[:150],
                                           actual=outcome.describe(r)[:150], functions=["optimize_mapper", "_RecInliner.visit_Call"]))
    return b


def b_errors(tier):
    """An exception raised inside a handler leaves a memoizing mapper as it leaves the plain one: same class, nothing cached, next call unaffected."""
    import pymbolic.primitives as p
    from pymbolic.geometric_algebra.primitives import MultiVectorVariable
    from pymbolic.mapper import CachedIdentityMapper, IdentityMapper
    from pymbolic.mapper.evaluator import CachedEvaluationMapper, EvaluationMapper
    from pymbolic.mapper.substitutor import CachedSubstitutionMapper, SubstitutionMapper
    b = BoundedRun("handler-errors", rule="handlers (of the evaluator: a missing attribute, a context function; of the substitution mapper: the user's substitution function; of an identity "
                   "subclass: map_variable / map_multivector_variable) raising AttributeError, KeyError, TypeError, ValueError, NotImplementedError, ZeroDivisionError: the "
                   "memoizing mapper ends with the exception class the plain mapper ends with, and a following call on a harmless expression returns the plain result",
                   bound="6 exception classes x 5 mapper pairs x 4 expression shapes", functions=["CachedMapper.__call__", "Mapper.__call__"])
    x, y, f = trees.X, trees.Y, trees.F
    excs = [AttributeError, KeyError, TypeError, ValueError, NotImplementedError, ZeroDivisionError]
    for exc in excs:
        def boom(*a, **k):
            raise exc("from the handler")

        class PlainId(IdentityMapper):
            def map_variable(self, e, *a, **k):
                if e.name == "y":
                    raise exc("from map_variable")
                return e

            def map_multivector_variable(self, e, *a, **k):
                raise exc("from map_multivector_variable")

        class CachedId(CachedIdentityMapper):
            map_variable = PlainId.map_variable
            map_multivector_variable = PlainId.map_multivector_variable
        shapes = [p.Sum((x, p.Call(f, (y,)))), p.Product((p.Lookup(p.Variable("o"), "missing"), x)) if exc is AttributeError else p.Call(f, (x,)), p.Sum((x, y)), p.Power(MultiVectorVariable("v"), 2)]
        pairs = [("evaluator", lambda: EvaluationMapper({"x": 3, "y": 4, "f": boom, "o": 5, "v": 2}), lambda: CachedEvaluationMapper({"x": 3, "y": 4, "f": boom, "o": 5, "v": 2})),
                 ("substitution", lambda: SubstitutionMapper(boom), lambda: CachedSubstitutionMapper(boom)),
                 ("identity-subclass", PlainId, CachedId)]
        for pname, mk_plain, mk_cached in pairs:
            for e in shapes:
                want = outcome.run(lambda: mk_plain()(e))
                cm = mk_cached()
                got = outcome.run(lambda: cm(e))
                b.case((exc.__name__, pname, repr(e)), nontrivial=want[0] == "exc", sample=dict(exception=exc.__name__, mapper=pname, expr=repr(e)[:80]))
                same = got[0] == want[0] and (got[1] is want[1] if got[0] == "exc" else got[1] == want[1])
                after_ok = True
                if pname == "identity-subclass":
                    after = outcome.run(lambda: cm(p.Sum((x, 1))))
                    after_ok = after == ("val", p.Sum((x, 1)))
                if not (same and after_ok):
                    b.fail(Failure("handler-errors", f"exception={exc.__name__} mapper={pname} expr={e!r}", dict(kind="herr", exception=exc.__name__, mapper=pname, expr=repr(e)),
                                   expected=outcome.describe(want)[:120], actual=outcome.describe(got)[:120] + ("" if after_ok else " / next call wrong"), functions=["CachedMapper.__call__"]))
    return b


def b_hooks(tier):
    """User mix-ins overriding one dispatch hook (map_foreign, handle_unsupported_expression, rec_fallback's MRO walk through a node subclass): memoizing == plain."""
    import pymbolic.primitives as p
    from pymbolic.mapper import (CachedCollector, CachedIdentityMapper, CachedWalkMapper, Collector, IdentityMapper, WalkMapper)
    from pymbolic.mapper.substitutor import CachedSubstitutionMapper, SubstitutionMapper, make_subst_func
    b = BoundedRun("hook-overrides", rule="mix-ins overriding map_foreign (integral floats become ints; record every foreign leaf; collect the types of foreign leaves) and "
                   "handle_unsupported_expression (a user node type without handler is a leaf), combined with the memoizing and the plain identity / substitution / collector / walk "
                   "mappers: same results, same recorded calls, on 10 expressions with constant leaves and a user node", bound="4 hooks x 4 mapper pairs x 10 expressions",
                   functions=["Mapper.rec_fallback", "CachedMapper.__call__", "Mapper.__call__", "Mapper.map_foreign", "Mapper.handle_unsupported_expression"])
    x, y = trees.X, trees.Y

    @p.expr_dataclass()
    class Opaque(p.Expression):
        payload: int
    opq = Opaque(7)
    exprs = [p.Sum((2.0, x)), p.Product((3.0, x, 2)), p.Sum((x, p.Product((2, y)), 7.5)), p.Power(x, 2.0), p.Call(trees.F, (1, 2.0, x)), 5.0, 4, p.Sum((x, opq)), p.Product((opq, opq, 2.0)),
             p.Quotient(p.Sum((x, 1.0)), p.Sum((opq, 1)))]

    class IntegralFloats:
        def map_foreign(self, expr, *a, **k):
            if isinstance(expr, float) and expr.is_integer():
                return int(expr)
            return super().map_foreign(expr, *a, **k)

    class LeafIsFine:
        def handle_unsupported_expression(self, expr, *a, **k):
            return expr

    class Recorder:
        def map_foreign(self, expr, *a, **k):
            self.__dict__.setdefault("seen", []).append(expr)
            return super().map_foreign(expr, *a, **k)

    class TypeCollector:
        def map_foreign(self, expr, *a, **k):
            return {type(expr).__name__}

        def handle_unsupported_expression(self, expr, *a, **k):
            return {"unsupported:" + type(expr).__name__}
    subst = make_subst_func({"x": y})
    pairs = [("identity+integral-floats", type("A", (IntegralFloats, LeafIsFine, IdentityMapper), {}), type("B", (IntegralFloats, LeafIsFine, CachedIdentityMapper), {}), lambda c: c()),
             ("substitution+integral-floats", type("A", (IntegralFloats, LeafIsFine, SubstitutionMapper), {}), type("B", (IntegralFloats, LeafIsFine, CachedSubstitutionMapper), {}), lambda c: c(subst)),
             ("collector+types", type("A", (TypeCollector, Collector), {}), type("B", (TypeCollector, CachedCollector), {}), lambda c: c()),
             ("walk+recorder", type("A", (Recorder, LeafIsFine, WalkMapper), {}), type("B", (Recorder, LeafIsFine, CachedWalkMapper), {}), lambda c: c())]
    for pname, plain_cls, cached_cls, mk in pairs:
        for e in exprs:
            pm, cm = mk(plain_cls), mk(cached_cls)
            want = outcome.run(lambda: pm(e))
            got = outcome.run(lambda: cm(e))
            b.case((pname, repr(e)), nontrivial=True, sample=dict(pair=pname, expr=repr(e)[:80]))
            same = got[0] == want[0] and (got[1] is want[1] if got[0] == "exc" else _tree_typed_eq(got[1], want[1]) if pname != "collector+types" else got[1] == want[1])
            if pname == "walk+recorder":
                same = same and sorted(map(repr, set(map(repr, getattr(pm, "seen", []))))) == sorted(map(repr, set(map(repr, getattr(cm, "seen", [])))))
            if not same:
                b.fail(Failure("hook-overrides", f"pair={pname} expr={e!r}", dict(kind="hooks", pair=pname, expr=repr(e)), expected=outcome.describe(want)[:120] + f" seen={getattr(pm, 'seen', None)}"[:60],
                               actual=outcome.describe(got)[:120] + f" seen={getattr(cm, 'seen', None)}"[:60], functions=["Mapper.rec_fallback", "CachedMapper.__call__"]))
    return b


def b_argument_shapes(tier):
    """Calls whose extra arguments differ only in how they are passed or spelled must not share an entry."""
    import pymbolic.primitives as p
    from contracts import fixtures_opt as fx
    b = BoundedRun("argument-shapes", rule="one memoizing renamer instance (its handler's result depends on the extra arguments), the same expression, two calls whose extra arguments differ "
                   "only in shape - a positional (name, value) pair against the keyword name=value, a positional tuple against the same values spread, a keyword against a positional "
                   "value, nested against flat tuples, a string against its characters, None against nothing, equal numbers of different type (1, 1.0, True: known finding) - in both "
                   "orders: each call returns what a fresh plain mapper returns", bound="14 ambiguous argument pairs x 2 orders x 6 expressions",
                   functions=["CachedMapper.get_cache_key", "CachedMapper.__call__"])
    x, y = trees.X, trees.Y
    exprs = [x, p.Sum((x, y)), p.Product((x, 2, x)), p.Call(trees.F, (x, p.Sum((x, 1)))), p.CommonSubexpression(p.Sum((x, y))), p.Quotient(x, p.Power(y, x))]
    shapes = [(((("k", 1),), {}), ((), {"k": 1})), (((7, ("k", 5)), {}), ((7,), {"k": 5})), ((((1, 2),), {}), ((1, 2), {})), (((1,), {}), ((), {"k": 1})),
              (((("k", 1), ("l", 2)), {}), ((), {"k": 1, "l": 2})), (((), {"k": 1, "l": 2}), ((), {"k": 2, "l": 1})), ((((1,), 2), {}), ((1, (2,)), {})), ((("ab",), {}), (("a", "b"), {})),
              (((None,), {}), ((), {})), (((), {"k": None}), ((), {})), (((("k", 1),), {"l": 2}), ((("l", 2),), {"k": 1})), (((), {"k": ("l", 2)}), ((), {"k": "l", "l": 2})),
              (((1,), {}), ((1.0,), {})), (((1,), {}), ((True,), {})), (((), {"k": 1}), ((), {"k": 1.0}))]
    for e in exprs:
        for first, second in shapes:
            for order in ((first, second), (second, first)):
                cm = fx.CachedRenamer()
                for turn, (a, kw) in enumerate(order):
                    got = outcome.run(lambda: cm(e, *a, **kw))
                    want = outcome.run(lambda: fx.Renamer()(e, *a, **kw))
                    b.case((repr(e), repr(order), turn), nontrivial=turn == 1, sample=dict(expr=repr(e)[:60], calls=repr(order)))
                    if not (got[0] == want[0] == "val" and _tree_typed_eq(got[1], want[1])):
                        typed = any(type(u) is not type(v) and u == v for u, v in zip(list(order[0][0]) + sorted(order[0][1].values(), key=repr), list(order[1][0]) + sorted(order[1][1].values(), key=repr))
                                    if isinstance(u, (int, float)) and isinstance(v, (int, float))) and len(order[0][0]) == len(order[1][0]) and sorted(order[0][1]) == sorted(order[1][1])
                        cause = "cause=extra-argument-type " if typed else ""
                        b.fail(Failure("argument-shapes", f"{cause}expr={e!r} calls={order!r} turn={turn}", dict(kind="argshapes", expr=trees.src(e), calls=repr(order), turn=turn),
                                       expected=outcome.describe(want)[:150], actual=outcome.describe(got)[:150], functions=["CachedMapper.get_cache_key"]))
                        break
    return b


def bounded(tier, seed, procs):
    return [b_histories(tier), b_once(tier), b_types(tier), b_optimizer(tier), b_errors(tier), b_hooks(tier), b_argument_shapes(tier)]


def replay(case):
    f = {"hist": b_histories, "once": b_once, "types": b_types, "herr": b_errors, "hooks": b_hooks, "argshapes": b_argument_shapes}.get(case.get("kind"), b_optimizer)
    return any(x.case == case for x in f("quick").failures)

"""C15  Linear-form extraction and affine solving are exact."""
from __future__ import annotations

import itertools
import random
from fractions import Fraction

from harness import outcome, trees
from harness.runner import BoundedRun, Failure
from pyvc import api

LEVEL = "exploration"
SPECS = []
EXPLANATION = (
    "Bounded stand-in only: CoefficientCollector on all expressions of depth <= 2 (+ products of up to 4 factors with the variable-bearing factor "
    "in every position, quotients by constants, nested constant products, subscripted variables) x all target subsets: for affine input the "
    "returned coefficients are free of the targets and sum(coefficient * key) evaluates to the input on an exact rational box (3 points per "
    "variable suffice for degree <= 1 in each... the identity is checked at 27 points and, being affine in the targets, at independent points); "
    "non-affine input must raise. solve_affine_equations_for on all integer systems with 1-3 unknowns, entries in {-2..2}, permuted rows, "
    "0-2 parameters: every returned assignment substituted back satisfies every equation identically in the parameters; singular or "
    "non-integral systems must raise.  Deductive kernel (the property as a whole stays at the bounded level): the three loop-free handlers of the "
    "collector - map_algebraic_leaf (target / non-target variable, with and without a target list), map_constant and map_power (a power is the constant "
    "term when base and exponent are free of the targets, refused with RuntimeError otherwise; the children's coefficient dicts are opaque) - are proved "
    "for every input of their kind; map_sum / map_product / map_quotient (loops over dicts of symbolic size) and the solver (numpy object matrices) are not.")
ASSUMPTIONS = ["affine-ness is decided by an independent degree computation over the expression tree"]
TRUSTED_BASE = ["fractions.Fraction"]


def proof_jobs(tier):
    from contracts import c15 as K
    return [("function", fc, None, None) for fc in K.FUNCTIONS]


def degree_in(e, targets):
    """(degree in the targets, has target in a denominator/exponent/non-polynomial position) of e."""
    import pymbolic.primitives as p
    if isinstance(e, p.Variable):
        return (1, False) if e.name in targets else (0, False)
    if isinstance(e, p.Subscript):
        return (1, False) if (isinstance(e.aggregate, p.Variable) and e.aggregate.name in targets) else (0, False)
    if isinstance(e, p.Sum):
        ds = [degree_in(c, targets) for c in e.children]
        return (max([d for d, _ in ds], default=0), any(b for _, b in ds))
    if isinstance(e, p.Product):
        ds = [degree_in(c, targets) for c in e.children]
        return (sum(d for d, _ in ds), any(b for _, b in ds))
    if isinstance(e, p.Quotient):
        dn, bn = degree_in(e.numerator, targets)
        dd, bd = degree_in(e.denominator, targets)
        return (dn, bn or bd or dd > 0)
    if isinstance(e, p.Power):
        db, bb = degree_in(e.base, targets)
        de, be = degree_in(e.exponent, targets)
        return (0, bb or be or db > 0 or de > 0)
    return (0, False)


def poly_of(e):
    """Exact polynomial normal form {monomial: Fraction} (monomial = sorted tuple of (name, exponent)) of an expression built from
    variables, numbers, sums, products, powers with a constant non-negative integer exponent and quotients by (non-zero) constants;
    None outside that fragment."""
    import pymbolic.primitives as p

    def mul(f, g):
        out = {}
        for m1, c1 in f.items():
            for m2, c2 in g.items():
                ex = dict(m1)
                for n, k in m2:
                    ex[n] = ex.get(n, 0) + k
                m = tuple(sorted(ex.items()))
                out[m] = out.get(m, 0) + c1 * c2
        return {m: c for m, c in out.items() if c != 0}
    if isinstance(e, bool):
        return None
    if isinstance(e, (int, Fraction)):
        return {(): Fraction(e)} if e != 0 else {}
    if isinstance(e, p.Variable):
        return {((e.name, 1),): Fraction(1)}
    if isinstance(e, p.Sum):
        out = {}
        for c in e.children:
            f = poly_of(c)
            if f is None:
                return None
            for m, k in f.items():
                out[m] = out.get(m, 0) + k
        return {m: c for m, c in out.items() if c != 0}
    if isinstance(e, p.Product):
        out = {(): Fraction(1)}
        for c in e.children:
            f = poly_of(c)
            if f is None:
                return None
            out = mul(out, f)
        return out
    if isinstance(e, p.Power):
        if isinstance(e.exponent, int) and not isinstance(e.exponent, bool) and 0 <= e.exponent <= 6:
            f = poly_of(e.base)
            if f is None:
                return None
            out = {(): Fraction(1)}
            for _ in range(e.exponent):
                out = mul(out, f)
            return out
        return None
    if isinstance(e, p.Quotient):
        f, g = poly_of(e.numerator), poly_of(e.denominator)
        if f is None or g is None or list(g) != [()]:
            return None
        return {m: c / g[()] for m, c in f.items()}
    return None


def semantic_affine(e, targets):
    """True / False when e lies in poly_of's fragment (affine in the targets as a function), None otherwise."""
    f = poly_of(e)
    if f is None:
        return None
    return all(sum(k for n, k in m if n in targets) <= 1 for m in f)


def bounded(tier, seed, procs):
    import pymbolic.primitives as p
    from pymbolic.algorithm import solve_affine_equations_for
    from pymbolic.mapper.coefficient import CoefficientCollector
    from pymbolic.mapper.dependency import DependencyMapper
    from pymbolic.mapper.evaluator import EvaluationMapper
    x, y, z, a = trees.X, trees.Y, trees.Z, trees.A
    b = BoundedRun("coefficients", rule="all depth<=2 trees over {+, *, /, **} with leaves {x, y, 2, -1, 3} plus products of <= 4 factors with the variable-bearing factor in "
                   "every position, quotients by constants, nested constant products x target sets {None, [x], [y], [x,y], [z], and the empty list / tuple / frozenset (no variable is a target), a set, a tuple}: affine (independent degree computation) => "
                   "coefficients free of the targets and sum(coeff*key) == input at 27 exact rational points; not affine => raises; non-trivial = expression containing a target",
                   bound="~1500 expressions x 5 target sets", functions=["CoefficientCollector.*"])
    leaves = [x, y, 2, -1, 3]
    ex = list(leaves) + trees.depth1([p.Sum, p.Product, p.Quotient, p.Power], leaves)
    _tr = trees.triples([p.Sum, p.Product, p.Quotient, p.Power], [x, 2, y])
    ex += trees.thin(_tr, len(_tr) // 2, seed=1)
    for pos in range(4):
        for k in (2, 3, 4):
            if pos < k:
                fs = [2, 3, -1, p.Sum((y, 1))][:k]
                fs[pos] = p.Sum((x, 1))
                ex.append(p.Product(tuple(fs)))
                fs2 = [2, 3, -1, 5][:k]
                fs2[pos] = x
                ex.append(p.Product(tuple(fs2)))
    ex += [p.Quotient(p.Sum((x, y, 3)), 4), p.Product((2, p.Product((3, p.Product((x, 5)))))), p.Quotient(p.Product((3, x)), p.Product((2, 2))),
           p.Sum((p.Product((2, x)), p.Product((3, x)), 1)), p.Sum((x, p.Product((-1, x)))), p.Product((x, x)), p.Product((x, y)), p.Quotient(1, x),
           p.Power(x, 2), p.Power(2, x), p.Power(2, 3), p.Sum((p.Power(y, 2), x)), p.Product((p.Power(y, 2), x))]
    # affine as functions, not syntactically: explicit first / zeroth powers, cancelling higher-order terms, zero coefficients
    ex += [p.Power(x, 1), p.Power(x, 0), p.Power(p.Sum((x, 1)), 1), p.Sum((p.Power(x, 1), y)), p.Product((2, p.Power(x, 1))), p.Product((p.Power(x, 0), x)),
           p.Product((p.Sum((x, p.Product((-1, x)), 2)), x)), p.Sum((p.Product((x, x)), p.Product((-1, x, x)), x)), p.Product((p.Sum((x, p.Product((-1, x)))), p.Sum((x, 1)))),
           p.Sum((p.Power(x, 2), p.Product((-1, p.Power(x, 2))), y)), p.Product((p.Power(y, 1), x)), p.Product((0, x, x)), p.Quotient(p.Product((x, 2)), 2)]
    ex = trees.dedup(ex)
    pts = [dict(x=vx, y=vy, z=vz) for vx, vy, vz in itertools.product([Fraction(2), Fraction(-1, 2), Fraction(5)], [Fraction(3), Fraction(-2), Fraction(1, 3)], [Fraction(1), Fraction(7), Fraction(-3)])]
    for e in ex:
        for tn in (None, ["x"], ["y"], ["x", "y"], ["z"], [], (), frozenset(), {"x"}, ("y", "x")):
            tset = {"x", "y", "z"} if tn is None else set(tn)
            present = {d.name for d in DependencyMapper(composite_leaves=False)(e)} if isinstance(e, p.Expression) else set()
            eff_targets = tset & present if tn is not None else present
            deg, bad = degree_in(e, eff_targets)
            affine = deg <= 1 and not bad
            # the statement speaks of expressions that ARE affine in the targets (as functions): inside the polynomial fragment this is decided
            # exactly from the normal form; the syntactic test above is its stand-in outside the fragment
            sem = semantic_affine(e, eff_targets)
            disguised = sem is True and not affine
            if sem is not None:
                affine = sem
            r = outcome.run(lambda: CoefficientCollector(tn)(e))
            b.case((repr(e), repr(tn)), nontrivial=bool(eff_targets), sample=dict(expr=repr(e), targets=tn, affine=affine))
            why = None
            if affine:
                if r[0] != "val":
                    why = f"affine input rejected: {outcome.describe(r)}"
                else:
                    d = r[1]
                    for k, c in d.items():
                        if not (k == 1 and not isinstance(k, p.Expression)) and not (isinstance(k, p.Variable) and k.name in eff_targets):
                            why = f"unexpected key {k!r}"
                        cdeps = {q.name for q in DependencyMapper(composite_leaves=False)(c)} if isinstance(c, p.Expression) else set()
                        if cdeps & eff_targets:
                            why = f"coefficient of {k!r} mentions a target: {c!r}"
                    if why is None:
                        for env in pts:
                            try:
                                lhs = sum((EvaluationMapper(env)(c) * (1 if (k == 1 and not isinstance(k, p.Expression)) else env[k.name])) for k, c in d.items())
                                rhs = EvaluationMapper(env)(e)
                            except ZeroDivisionError:
                                continue
                            if not outcome.same_value(lhs, rhs, typed=False):
                                why = f"sum(coeff*var) = {lhs} but expression = {rhs} at {env}"
                                break
            else:
                if r[0] == "val":
                    why = f"non-affine input accepted: {r[1]!r}"
                elif not issubclass(r[1], (RuntimeError, AssertionError)):
                    why = f"non-affine input rejected with {r[1].__name__} (not the refusal error)"
            if why:
                b.fail(Failure("coefficients", f"{'cause=affine-in-disguise ' if disguised and r[0] != 'val' else ''}affine={affine} targets={tn} expr={e!r} why={why}", dict(kind="coeff", expr=trees.src(e), targets=tn), expected="exact affine form or refusal",
                               actual=why, functions=["CoefficientCollector.map_sum", "map_product", "map_quotient", "map_power", "map_algebraic_leaf"]))
    # subscripted target variables
    b_sub = BoundedRun("coefficients-subscripts", rule="subscripted variables as leaves (targets given as aggregate names and as None): affine inputs get coefficients; a target occurring inside the index of a subscript is not affine and must be refused", bound="14 expressions",
                       functions=["CoefficientCollector.map_algebraic_leaf"])
    a1 = p.Subscript(a, 1)
    bx = p.Subscript(p.Variable("b"), x)
    affine_cases = [(p.Sum((p.Product((2, a1)), 3)), ["a"]), (p.Sum((p.Product((2, a1)), x)), None), (a1, None), (p.Sum((a1, p.Subscript(a, 2))), ["a"]),
                    (p.Sum((p.Lookup(a, "f"), 1)), None), (p.Sum((p.Product((2, a1)), x)), ["x"]), (p.Product((a1, x)), ["x"])]
    # a target inside the index of a subscript of another array: b[x] is not an affine function of x (whatever b is) - must be refused
    nonaffine_cases = [(p.Product((3, bx)), ["x"]), (p.Sum((p.Product((2, p.Subscript(a, p.Sum((x, 1))))), x)), ["x"]), (bx, ["x"]), (p.Sum((p.Product((3, x)), p.Product((y, bx)), 7)), ["x"]),
                       (p.Quotient(p.Sum((p.Subscript(a, p.Product((2, x))), x)), 2), ["x"]), (p.Sum((p.Subscript(p.Variable("b"), p.Sum((x, 2))), a1)), ["x", "y"]),
                       (p.Product((p.Subscript(a, (x, 1)), 4)), ["x"])]
    for e, tn in affine_cases:
        r = outcome.run(lambda: CoefficientCollector(tn)(e))
        b_sub.case((repr(e), repr(tn)), sample=dict(expr=repr(e), targets=tn))
        if r[0] != "val":
            b_sub.fail(Failure("coefficients-subscripts", f"targets={tn} expr={e!r} exc={r[1].__name__}", dict(kind="coeff-sub", expr=trees.src(e), targets=tn),
                               expected="coefficients", actual=outcome.describe(r), functions=["CoefficientCollector.map_algebraic_leaf"]))
    # an attribute look-up on a target: x.a is not an affine function of x either
    lookup_cases = [(p.Sum((p.Product((p.Lookup(x, "a"), 2)), 3)), ["x"]), (p.Sum((p.Lookup(x, "re"), x)), ["x"]), (p.Lookup(p.Sum((x, 1)), "im"), ["x"])]
    for e, tn in lookup_cases:
        r = outcome.run(lambda: CoefficientCollector(tn)(e))
        b_sub.case((repr(e), repr(tn), "lookup"), sample=dict(expr=repr(e), targets=tn, affine=False))
        if r[0] == "val":
            b_sub.fail(Failure("coefficients-subscripts", f"what=target-below-lookup-accepted cause=lookup-leaf-judged-by-attribute-name targets={tn} expr={e!r}",
                               dict(kind="coeff-sub-lk", expr=trees.src(e), targets=tn), expected="raises (not affine in the targets)", actual=outcome.describe(r)[:200],
                               functions=["CoefficientCollector.map_algebraic_leaf"]))
    for e, tn in nonaffine_cases:
        r = outcome.run(lambda: CoefficientCollector(tn)(e))
        b_sub.case((repr(e), repr(tn), "nonaffine"), sample=dict(expr=repr(e), targets=tn, affine=False))
        if r[0] == "val":
            b_sub.fail(Failure("coefficients-subscripts", f"what=target-in-subscript-index-accepted targets={tn} expr={e!r}", dict(kind="coeff-sub-na", expr=trees.src(e), targets=tn),
                               expected="raises (not affine in the targets)", actual=outcome.describe(r)[:200], functions=["CoefficientCollector"]))
    # affine solver
    b2 = BoundedRun("affine-solver", rule="integer systems A u = B p + c with 1..3 unknowns, entries in {-2..2} (seeded sample of the full box), all row permutations, 0..2 parameters, "
                    "square and with one redundant equation, each also with every unknown, parameter and constant spread over both sides of its equation: accepted => every equation holds identically in the parameters after substituting the result (checked at 8 exact points; "
                    "both sides affine); singular systems or non-integral solutions => raises; non-trivial = all", bound="600 (quick) / 4000 systems", functions=["solve_affine_equations_for", "gaussian_elimination"])
    rnd = random.Random(seed)
    names = ["u", "v", "w"]
    params = [p.Variable("n"), p.Variable("m")]
    N = 6000 if tier == "thorough" else 2000
    for t in range(N):
        nu = rnd.choice([1, 2, 2, 3])
        npar = rnd.choice([0, 1, 2])
        A = [[rnd.randint(-2, 2) for _ in range(nu)] for _ in range(nu)]
        B = [[rnd.randint(-2, 2) for _ in range(npar)] for _ in range(nu)]
        c = [rnd.randint(-3, 3) for _ in range(nu)]
        if t % 5 == 0:
            # make it integrally solvable: pick the solution first
            sol = [[rnd.randint(-2, 2) for _ in range(npar + 1)] for _ in range(nu)]
            B = [[sum(A[i][j] * sol[j][k] for j in range(nu)) for k in range(npar)] for i in range(nu)]
            c = [sum(A[i][j] * sol[j][npar] for j in range(nu)) for i in range(nu)]
        us = [p.Variable(n_) for n_ in names[:nu]]
        eqs = []
        two_sided = t % 2 == 1          # the same equations with every symbol spread over both sides (and repeated on one side)
        for i in range(nu):
            if not two_sided:
                lhs = p.flattened_sum([A[i][j] * us[j] for j in range(nu)])
                rhs = p.flattened_sum([B[i][k] * params[k] for k in range(npar)] + [c[i]])
            else:
                ku = [rnd.randint(-2, 2) for _ in range(nu)]
                kp = [rnd.randint(-2, 2) for _ in range(npar)]
                kc = rnd.randint(-3, 3)
                lt = [(A[i][j] + ku[j]) * us[j] for j in range(nu)] + [kp[k] * params[k] for k in range(npar)] + [kc]
                rt = [ku[j] * us[j] for j in range(nu)] + [(B[i][k] + kp[k]) * params[k] for k in range(npar)] + [c[i] + kc]
                if rnd.random() < 0.5 and nu:
                    lt.append(us[0])
                    rt.append(us[0])
                rnd.shuffle(lt)
                rnd.shuffle(rt)
                lhs, rhs = p.flattened_sum(lt), p.flattened_sum(rt)
            eqs.append((lhs, rhs))
        perm = list(range(nu))
        rnd.shuffle(perm)
        eqs = [eqs[i] for i in perm]
        r = outcome.run(lambda: solve_affine_equations_for(names[:nu], eqs))
        det = _det(A)
        b2.case((t, repr(A), repr(B), repr(c)), nontrivial=True, sample=dict(A=A, B=B, c=c))
        why = None
        if r[0] == "val":
            for env in [dict(n=Fraction(vn), m=Fraction(vm)) for vn, vm in itertools.product([0, 1, -2, 5], [0, 3])]:
                vals = {}
                ok = True
                for u_ in us:
                    if u_ not in r[1]:
                        why = f"unknown {u_} missing from the result"
                        ok = False
                        break
                    vals[u_.name] = EvaluationMapper(env)(r[1][u_])
                if not ok:
                    break
                full = dict(env)
                full.update(vals)
                for lhs, rhs in eqs:
                    if EvaluationMapper(full)(lhs) != EvaluationMapper(full)(rhs):
                        why = f"equation {lhs} = {rhs} violated by {r[1]} at {env}"
                        break
                if why:
                    break
        else:
            if det != 0 and _integral_solution(A, B, c):
                # a uniquely and integrally solvable system is neither "not uniquely determined" nor "not integral": it must be solved
                why = f"solvable system rejected with {outcome.describe(r)}"
        if r[0] == "val" and det == 0 and why is None:
            why = "singular system accepted"
        if why:
            cause = "singular-accepted" if (det == 0 and r[0] == "val") else "other"
            b2.fail(Failure("affine-solver", f"cause={cause} A={A} B={B} c={c} perm={perm} why={why}", dict(kind="solve", A=A, B=B, c=c, perm=perm), expected="exact solution or refusal", actual=why,
                            functions=["solve_affine_equations_for", "gaussian_elimination"]))
    return [b, b_sub, b2, b_solver_shapes(tier, seed), b_solver_number_types(tier), b_collector_subclass(tier)]


def b_collector_subclass(tier):
    """A user subclass overriding only the front end __call__ (a more convenient interface, as the base class documents): the handlers recurse with rec, so nothing changes below."""
    import pymbolic.primitives as p
    from pymbolic.mapper.coefficient import CoefficientCollector
    from pymbolic.mapper.evaluator import EvaluationMapper
    b = BoundedRun("collector-front-end-subclass", rule="a CoefficientCollector subclass whose __call__ fills in a zero entry for every target and the constant term, on affine expressions "
                   "with quotients by constants, constant powers, nested products: every entry of the plain collector is there with the same value, the sum reconstructs the input at 5 "
                   "rational points, non-affine inputs raise", bound="22 expressions x 2 target lists", functions=["CoefficientCollector.map_quotient", "CoefficientCollector.map_power", "Mapper.__call__"])
    x, y, z = trees.X, trees.Y, trees.Z

    class Total(CoefficientCollector):
        def __call__(self, expr):
            d = super().__call__(expr)
            out = {p.Variable(n): 0 for n in (self.target_names or ())}
            out[1] = 0
            out.update(d)
            return out
    affine = [p.Sum((p.Quotient(x, 2), p.Power(z, 2))), p.Quotient(p.Sum((x, y)), 3), p.Product((2, p.Quotient(x, p.Power(2, 2)))), p.Sum((p.Product((p.Power(3, 2), x)), p.Quotient(y, p.Sum((1, 1))))),
              p.Quotient(p.Sum((p.Product((2, x)), 5)), p.Product((2, 2))), p.Sum((x, p.Power(z, p.Sum((1, 1))))), p.Product((p.Quotient(1, 2), x, 4)), p.Sum((p.Quotient(x, z), y)), p.Power(5, 2),
              p.Sum((p.Product((z, x)), p.Quotient(y, p.Power(z, 2)))), p.Quotient(p.Quotient(x, 2), 3), p.Sum((x, y, 7))]
    nonaffine = [p.Quotient(1, x), p.Power(x, 2), p.Product((x, y)), p.Power(2, x), p.Quotient(y, p.Sum((x, 1)))]
    pts = [dict(x=Fraction(2), y=Fraction(-3), z=Fraction(5, 2)), dict(x=Fraction(1, 3), y=Fraction(4), z=Fraction(-2)), dict(x=Fraction(0), y=Fraction(1), z=Fraction(3))]
    for targets in (["x", "y"], ["x"]):
        for e in affine:
            plain = outcome.run(lambda: CoefficientCollector(targets)(e))
            got = outcome.run(lambda: Total(targets)(e))
            b.case(("affine", repr(e), tuple(targets)), nontrivial=True, sample=dict(expr=repr(e), targets=targets))
            why = None
            if plain[0] == "val":
                if got[0] != "val":
                    why = f"the subclass raises {outcome.describe(got)[:80]} where the plain collector returns"
                else:
                    for k, v in plain[1].items():
                        if k not in got[1] or repr(got[1][k]) != repr(v):
                            why = f"entry {k!r}: {got[1].get(k)!r} vs {v!r}"
                    for pt in pts:
                        total = sum(EvaluationMapper(pt)(c) * (1 if k == 1 else EvaluationMapper(pt)(k)) for k, c in got[1].items())
                        if abs(float(total) - float(EvaluationMapper(pt)(e))) > 1e-9:        # integer quotients among the coefficients evaluate to floats
                            why = f"sum of the entries is {total}, the input {EvaluationMapper(pt)(e)} at {pt}"
            if why:
                b.fail(Failure("collector-front-end-subclass", f"what=affine expr={e!r} targets={targets} why={why[:100]}", dict(kind="cc-sub", expr=repr(e), targets=targets), expected=outcome.describe(plain)[:120],
                               actual=why[:200], functions=["CoefficientCollector.map_quotient", "CoefficientCollector.map_power"]))
        for e in nonaffine:
            if targets == ["x"] and e == nonaffine[2]:
                continue
            got = outcome.run(lambda: Total(targets)(e))
            b.case(("nonaffine", repr(e), tuple(targets)))
            if got[0] == "val":
                b.fail(Failure("collector-front-end-subclass", f"what=nonaffine-accepted expr={e!r} targets={targets}", dict(kind="cc-sub", expr=repr(e), targets=targets), expected="raises", actual=outcome.describe(got)[:120],
                               functions=["CoefficientCollector"]))
    return b


def b_solver_number_types(tier):
    """Constants and parameter coefficients that are floats or Fractions: a returned assignment satisfies every equation exactly; a non-integral solution is refused."""
    import pymbolic.primitives as p
    from pymbolic.algorithm import solve_affine_equations_for
    from pymbolic.mapper.evaluator import EvaluationMapper
    b = BoundedRun("affine-solver-number-types", rule="systems in x, y with a parameter n whose constants / parameter coefficients are floats (2.5, 0.5, 2.0) or numpy numbers, with a unit entry in "
                   "the affected row (x = 2.5; x + y = 2.5, y = 1; x + 0.5 = n + 3; x = 0.5*n; 2*x = 5.0; x = 2.0): the call either raises, or returns assignments under which every "
                   "equation holds exactly at n in {0, 1, -2, 5}", bound="14 systems", functions=["solve_affine_equations_for", "gaussian_elimination"])
    import numpy as np
    x, y, n = p.Variable("x"), p.Variable("y"), p.Variable("n")
    systems = [(["x"], [(x, 2.5)]), (["x", "y"], [(p.Sum((x, y)), 2.5), (y, 1)]), (["x"], [(p.Sum((x, 0.5)), p.Sum((n, 3)))]), (["x"], [(x, p.Product((0.5, n)))]), (["x"], [(p.Product((2, x)), 5.0)]),
               (["x"], [(x, 2.0)]), (["x", "y"], [(p.Sum((x, p.Product((-1, y)))), 0.5), (p.Sum((x, y)), 3)]), (["x"], [(x, p.Sum((p.Product((1.5, n)), 1)))]), (["x"], [(x, np.float64(2.5))]),
               (["x"], [(x, np.int64(3))]), (["x", "y"], [(x, p.Sum((y, 0.25))), (y, 2)]), (["x"], [(p.Product((-1, x)), 2.5)]), (["x", "y"], [(p.Sum((x, y)), p.Sum((n, 0.5))), (p.Sum((x, p.Product((-1, y)))), 1)]),
               (["x"], [(x, p.Quotient(5, 2))])]
    for names, eqs in systems:
        r = outcome.run(lambda: solve_affine_equations_for(names, eqs))
        b.case(repr(eqs), nontrivial=True, sample=dict(equations=[(str(l_), str(r_)) for l_, r_ in eqs]))
        if r[0] != "val":
            continue            # a refusal is always allowed
        why = None
        for vn in (0, 1, -2, 5):
            env = dict(n=Fraction(vn))
            try:
                full = dict(env, **{q: EvaluationMapper(env)(r[1][p.Variable(q)]) for q in names})
                bad = [f"{l_} = {r_}" for l_, r_ in eqs if EvaluationMapper(full)(l_) != EvaluationMapper(full)(r_)]
            except Exception as ex:   # noqa: BLE001
                bad = [f"{type(ex).__name__}: {ex}"]
            if bad:
                why = f"{bad[0]} violated by {r[1]} at n={vn}"
                break
        if why:
            b.fail(Failure("affine-solver-number-types", f"equations={[(str(l_), str(r_)) for l_, r_ in eqs]} why={why[:120]}", dict(kind="solve-num", equations=repr(eqs)), expected="a refusal or exact assignments",
                           actual=why[:200], functions=["solve_affine_equations_for", "gaussian_elimination"]))
    return b


def b_solver_shapes(tier, seed):
    """Systems that are not square: more equations than unknowns (consistent: redundant rows; inconsistent), fewer equations than unknowns."""
    import pymbolic.primitives as p
    from pymbolic.algorithm import solve_affine_equations_for
    from pymbolic.mapper.evaluator import EvaluationMapper
    b = BoundedRun("affine-solver-shapes", rule="from a uniquely and integrally solvable square system (1..3 unknowns, 0..1 parameters, solution chosen first): (a) with 1-2 added equations that "
                   "are integer combinations of its rows, inserted at random positions: accepted and every equation holds; (b) with an added combination whose constant is off by a "
                   "non-zero amount, or whose parameter coefficient is off while the constants agree (inconsistent): must raise; (c) with one equation removed (fewer equations than unknowns): must raise",
                   bound="300 (quick) / 1200 base systems x 3 shapes", functions=["solve_affine_equations_for", "gaussian_elimination"])
    rnd = random.Random(seed + 17)
    names = ["u", "v", "w"]
    n_ = p.Variable("n")
    made = 0
    while made < (1200 if tier == "thorough" else 300):
        nu = rnd.choice([1, 2, 2, 3])
        npar = rnd.choice([0, 1])
        A = [[rnd.randint(-2, 2) for _ in range(nu)] for _ in range(nu)]
        if _det(A) == 0:
            continue
        made += 1
        sol = [[rnd.randint(-2, 2) for _ in range(npar + 1)] for _ in range(nu)]
        rows = []
        for i in range(nu):
            coeff_n = sum(A[i][j] * sol[j][0] for j in range(nu)) if npar else 0
            const = sum(A[i][j] * sol[j][npar] for j in range(nu))
            rows.append((A[i], coeff_n, const))
        us = [p.Variable(q) for q in names[:nu]]

        def eq_of(row):
            a, cn, c0 = row
            return (p.flattened_sum([a[j] * us[j] for j in range(nu)]), p.flattened_sum([cn * n_, c0]))

        def combo(offset=0, poffset=0):
            ks = [rnd.randint(-2, 2) for _ in range(nu)]
            if not any(ks):
                ks[0] = 1
            return ([sum(ks[i] * rows[i][0][j] for i in range(nu)) for j in range(nu)], sum(ks[i] * rows[i][1] for i in range(nu)) + poffset,
                    sum(ks[i] * rows[i][2] for i in range(nu)) + offset)
        shapes = []
        extra = [combo() for _ in range(rnd.choice([1, 2]))]
        sys_a = rows + extra
        rnd.shuffle(sys_a)
        shapes.append(("redundant", sys_a, True))
        sys_b = rows + [combo(rnd.choice([-2, -1, 1, 3]))]
        rnd.shuffle(sys_b)
        shapes.append(("inconsistent", sys_b, False))
        # inconsistent only in the coefficient of the parameter (the constants agree): holds for one value of n at most
        sys_p = rows + [combo(0, rnd.choice([-2, -1, 1, 3]))]
        rnd.shuffle(sys_p)
        shapes.append(("inconsistent-in-parameter", sys_p, False))
        if nu >= 2:
            k = rnd.randrange(nu)
            shapes.append(("underdetermined", rows[:k] + rows[k + 1:], False))
        for sname, system, solvable in shapes:
            eqs = [eq_of(r_) for r_ in system]
            r = outcome.run(lambda: solve_affine_equations_for(names[:nu], eqs))
            b.case((made, sname), sample=dict(shape=sname, unknowns=nu, equations=len(eqs)))
            why, cause = None, "other"
            if solvable:
                if r[0] != "val":
                    why = f"consistent system with redundant equations rejected: {outcome.describe(r)[:100]}"
                else:
                    for vn in (0, 1, -2, 5):
                        env = dict(n=Fraction(vn))
                        try:
                            full = dict(env, **{u_.name: EvaluationMapper(env)(r[1][u_]) for u_ in us})
                        except KeyError as e:
                            why = f"unknown {e} missing from the result"
                            break
                        bad = [str(l_) + " = " + str(r_) for l_, r_ in eqs if EvaluationMapper(full)(l_) != EvaluationMapper(full)(r_)]
                        if bad:
                            why = f"equation {bad[0]} violated by {r[1]} at n={vn}"
                            break
            elif r[0] == "val":
                why = f"{sname} system accepted: {r[1]}"
                cause = f"{sname}-accepted"
            if why:
                b.fail(Failure("affine-solver-shapes", f"cause={cause} shape={sname} unknowns={nu} equations={[(str(l_), str(r_)) for l_, r_ in eqs]} why={why[:120]}",
                               dict(kind="solve-shape", shape=sname, index=made), expected="every equation holds / refusal", actual=why[:200],
                               functions=["solve_affine_equations_for", "gaussian_elimination"]))
    return b


def _det(A):
    n = len(A)
    if n == 1:
        return A[0][0]
    if n == 2:
        return A[0][0] * A[1][1] - A[0][1] * A[1][0]
    return (A[0][0] * (A[1][1] * A[2][2] - A[1][2] * A[2][1]) - A[0][1] * (A[1][0] * A[2][2] - A[1][2] * A[2][0])
            + A[0][2] * (A[1][0] * A[2][1] - A[1][1] * A[2][0]))


def _integral_solution(A, B, c):
    """Does A u = B p + c have an integral (in every coefficient) unique solution?"""
    n = len(A)
    M = [[Fraction(v) for v in row] for row in A]
    cols = list(zip(*B)) if B and B[0] else []
    R = [[Fraction(cols[k][i]) for k in range(len(cols))] + [Fraction(c[i])] for i in range(n)]
    for i in range(n):
        piv = next((r for r in range(i, n) if M[r][i] != 0), None)
        if piv is None:
            return False
        M[i], M[piv] = M[piv], M[i]
        R[i], R[piv] = R[piv], R[i]
        pv = M[i][i]
        M[i] = [v / pv for v in M[i]]
        R[i] = [v / pv for v in R[i]]
        for r in range(n):
            if r != i and M[r][i] != 0:
                f = M[r][i]
                M[r] = [a - f * b for a, b in zip(M[r], M[i])]
                R[r] = [a - f * b for a, b in zip(R[r], R[i])]
    return all(v.denominator == 1 for row in R for v in row)


def replay(case):
    runs = bounded("quick", 0, 1)
    return any(f.case == case for b in runs for f in b.failures)

"""C06  Printing an expression and parsing the text gives the expression back."""
from __future__ import annotations

import itertools
import random

from harness import outcome
from harness.runner import BoundedRun, Failure

LEVEL = "exploration"
SPECS = []
EXPLANATION = (
    "Bounded stand-in following the property's own quantifier: for every (parent node type, child position, child node "
    "type) combination of the printable fragment, every three-level nesting over a reduced alphabet and seeded random "
    "deep trees with negative and non-integer constants, s = str(e) is parsed back; the reparsed tree must equal e once "
    "nested sums and products are flattened, evaluate like e over a box of environments, and print to s again.  Proved "
    "kernel (z3, ground table obligations over constants read from the real sources): the stringifier's PREC_* order and "
    "the parser's _PREC_* order are the same strict order on the operator classes they share, and every map_<K> of the "
    "stringifier passes its own level (or one above) to its operands.")
ASSUMPTIONS = ["EvaluationMapper = den (C02)", "the recursive string construction and the Pratt loop are not under contract (string theory is outside what z3/cvc5 decide here): "
               "trees are enumerated to the stated bounds"]
TRUSTED_BASE = []


def canon(e):
    """Flatten nested n-ary associative nodes: sums and products as the statement says, and likewise the n-ary bitwise and
    logical nodes (the parser builds them as left-nested binary nodes; flattening is value-exact for them too)."""
    import pymbolic.primitives as p
    import dataclasses
    if isinstance(e, (tuple, list)):
        return tuple(canon(c) for c in e)
    if isinstance(e, (p.Sum, p.Product, p.BitwiseOr, p.BitwiseXor, p.BitwiseAnd, p.LogicalOr, p.LogicalAnd)):
        kids = []
        for c in e.children:
            c = canon(c)
            if type(c) is type(e):
                kids.extend(c.children)
            else:
                kids.append(c)
        return type(e)(tuple(kids))
    if isinstance(e, p.Expression) and dataclasses.is_dataclass(e):
        vals = {}
        for f in dataclasses.fields(e):
            v = getattr(e, f.name)
            if isinstance(v, (p.Expression, tuple, list)):
                v = canon(v)
            elif hasattr(v, "items") and f.name == "kw_parameters":
                from immutabledict import immutabledict
                v = immutabledict({k: canon(x) for k, x in v.items()})
            vals[f.name] = v
        return type(e)(**vals)
    return e


def typed_eq(a, b):
    """Tree equality that also distinguishes 1 / 1.0 / True among constants."""
    import pymbolic.primitives as p
    import dataclasses
    if isinstance(a, (tuple, list)) and isinstance(b, (tuple, list)):
        return len(a) == len(b) and all(typed_eq(x, y) for x, y in zip(a, b))
    if isinstance(a, p.Expression) or isinstance(b, p.Expression):
        if type(a) is not type(b):
            return False
        for f in dataclasses.fields(a):
            x, y = getattr(a, f.name), getattr(b, f.name)
            if hasattr(x, "items") and hasattr(y, "items"):
                if list(x) != list(y) or not all(typed_eq(x[k], y[k]) for k in x):
                    return False
            elif not typed_eq(x, y):
                return False
        return True
    if isinstance(a, (int, float, complex, bool)) and isinstance(b, (int, float, complex, bool)):
        return type(a) is type(b) and (a == b or (a != a and b != b))
    return a == b


class _Agg:
    def __getitem__(self, i):
        def h(x):
            if isinstance(x, tuple):
                return sum((k + 2) * h(v) for k, v in enumerate(x)) + 1
            if isinstance(x, slice):
                return 100 + 3 * (x.start or 0) + 5 * (x.stop or 0) + 7 * (x.step or 0)
            return 11 * x + 3
        return h(i)

    @property
    def x(self):
        return 41

    @property
    def name(self):
        return 43


def _f(*a, **k):
    return sum((i + 1) * (v if not isinstance(v, tuple) else sum(v) + 7) for i, v in enumerate(a)) + sum((len(n) + 3) * v for n, v in k.items()) + 1


class _Num(int):
    """An int with the attributes used by look-ups."""
    x = 5
    name = 6


ENV_VALS = [-2, 1, 3]


def envs():
    for va, vb, vc in itertools.product(ENV_VALS, repeat=3):
        yield dict(a=_Num(va), b=_Num(vb), c=_Num(vc), f=_f, g=_Agg(), v=_Agg())


def value_check(e, e2):
    from pymbolic.mapper.evaluator import EvaluationMapper
    for env in envs():
        w = outcome.with_alarm(2, lambda: outcome.run(lambda: EvaluationMapper(dict(env))(e)))
        if w is None:
            continue
        g = outcome.with_alarm(2, lambda: outcome.run(lambda: EvaluationMapper(dict(env))(e2)))
        if g is None or not outcome.equivalent(g, w):
            return {k: int(v) for k, v in env.items() if k in "abc"}, w, g
    return None


# ----------------------------------------------------------------------------- tree alphabet
def alphabet():
    """name -> (arity, builder(children))."""
    import pymbolic.primitives as p
    from immutabledict import immutabledict
    A = {
        "Sum": (2, lambda k: p.Sum(tuple(k))), "Sum3": (3, lambda k: p.Sum(tuple(k))), "Product": (2, lambda k: p.Product(tuple(k))),
        "Product3": (3, lambda k: p.Product(tuple(k))), "Quotient": (2, lambda k: p.Quotient(*k)), "FloorDiv": (2, lambda k: p.FloorDiv(*k)),
        "Remainder": (2, lambda k: p.Remainder(*k)), "Power": (2, lambda k: p.Power(*k)), "LeftShift": (2, lambda k: p.LeftShift(*k)),
        "RightShift": (2, lambda k: p.RightShift(*k)), "BitwiseNot": (1, lambda k: p.BitwiseNot(*k)), "BitwiseOr": (2, lambda k: p.BitwiseOr(tuple(k))),
        "BitwiseXor": (2, lambda k: p.BitwiseXor(tuple(k))), "BitwiseAnd": (2, lambda k: p.BitwiseAnd(tuple(k))), "LogicalNot": (1, lambda k: p.LogicalNot(*k)),
        "LogicalOr": (2, lambda k: p.LogicalOr(tuple(k))), "LogicalAnd": (2, lambda k: p.LogicalAnd(tuple(k))),
        "Lt": (2, lambda k: p.Comparison(k[0], "<", k[1])), "Eq": (2, lambda k: p.Comparison(k[0], "==", k[1])), "Ge": (2, lambda k: p.Comparison(k[0], ">=", k[1])),
        "Ne": (2, lambda k: p.Comparison(k[0], "!=", k[1])),
        "If": (3, lambda k: p.If(*k)), "CallFn": (1, lambda k: p.Call(k[0], (p.Variable("a"),))), "CallArg": (2, lambda k: p.Call(p.Variable("f"), tuple(k))),
        "CallKw": (2, lambda k: p.CallWithKwargs(p.Variable("f"), (k[0],), immutabledict({"kw": k[1]}))),
        # several keywords, written in an order that is not the sorted one (the printer and the parser keep the order written)
        "CallKw2": (3, lambda k: p.CallWithKwargs(p.Variable("f"), (k[0],), immutabledict({"zeta": k[1], "alpha": k[2]}))),
        "CallKw3": (3, lambda k: p.CallWithKwargs(p.Variable("g"), (), immutabledict({"stop": k[0], "start": k[1], "Step": k[2]}))),
        "SubAgg": (1, lambda k: p.Subscript(k[0], p.Variable("a"))), "SubIdx": (1, lambda k: p.Subscript(p.Variable("g"), k[0])),
        "SubIdx2": (2, lambda k: p.Subscript(p.Variable("g"), tuple(k))), "Lookup": (1, lambda k: p.Lookup(k[0], "x")),
        "TupleArg": (2, lambda k: p.Call(p.Variable("f"), (tuple(k),))), "TupleIdx": (2, lambda k: p.Subscript(p.Variable("g"), (tuple(k), p.Variable("a")))),
        "SubIdx1": (1, lambda k: p.Subscript(p.Variable("g"), (k[0],))), "Tuple1Arg": (1, lambda k: p.Call(p.Variable("f"), ((k[0],),))),
        "Tuple0Arg": (1, lambda k: p.Call(p.Variable("f"), ((), k[0]))),
        "SliceIdx": (2, lambda k: p.Subscript(p.Variable("g"), p.Slice(tuple(k)))), "Slice3": (3, lambda k: p.Subscript(p.Variable("g"), p.Slice(tuple(k)))),
        # slices with absent bounds (every pattern of None among two or three slots), alone and inside an index tuple
        "SliceFrom": (1, lambda k: p.Subscript(p.Variable("g"), p.Slice((k[0], None)))), "SliceTo": (1, lambda k: p.Subscript(p.Variable("g"), p.Slice((None, k[0])))),
        "SliceAll": (1, lambda k: p.Subscript(k[0], p.Slice((None, None)))), "SliceAll3": (1, lambda k: p.Subscript(k[0], p.Slice((None, None, None)))),
        "SliceStep": (1, lambda k: p.Subscript(p.Variable("g"), p.Slice((None, None, k[0])))), "SliceFrom3": (1, lambda k: p.Subscript(p.Variable("g"), p.Slice((k[0], None, None)))),
        "SliceMid3": (1, lambda k: p.Subscript(p.Variable("g"), p.Slice((None, k[0], None)))), "SliceFromStep": (2, lambda k: p.Subscript(p.Variable("g"), p.Slice((k[0], None, k[1])))),
        "SliceToStep": (2, lambda k: p.Subscript(p.Variable("g"), p.Slice((None, k[0], k[1])))), "SliceFromTo3": (2, lambda k: p.Subscript(p.Variable("g"), p.Slice((k[0], k[1], None)))),
        "SliceAllInTuple": (1, lambda k: p.Subscript(p.Variable("g"), (p.Slice((None, None)), k[0]))), "SliceAllLast": (1, lambda k: p.Subscript(p.Variable("g"), (k[0], p.Slice((None, None))))),
        # slices whose last bound is absent, printed directly before a closing parenthesis: last call / keyword argument, last tuple element, parenthesised operand
        "OpenSliceLastArg": (2, lambda k: p.Call(p.Variable("f"), (k[0], p.Slice((k[1], None))))), "OpenSliceKw": (2, lambda k: p.CallWithKwargs(p.Variable("f"), (k[0],), immutabledict({"kw": p.Slice((k[1], None))}))),
        "OpenSliceOnlyArg": (1, lambda k: p.Call(p.Variable("f"), (p.Slice((None, k[0], None)),))), "OpenSliceInTupleArg": (2, lambda k: p.Call(p.Variable("f"), ((k[0], p.Slice((k[1], None))),))),
        "OpenSliceSummand": (2, lambda k: p.Sum((p.Slice((k[0], None)), k[1]))), "OpenSliceBase": (2, lambda k: p.Power(p.Slice((k[0], None, None)), k[1])),
        "OpenSliceAllArg": (1, lambda k: p.Call(p.Variable("f"), (k[0], p.Slice((None, None))))),
    }
    return A


def leaves():
    import pymbolic.primitives as p
    return [p.Variable("a"), p.Variable("b"), 3, -3, 1.5, -0.5, 1e-10, 2e+20, 0, True, -0.0, 0.0, -1e-10]


def gen_two_level():
    A = alphabet()
    import pymbolic.primitives as p
    a, b, c = p.Variable("a"), p.Variable("b"), p.Variable("c")
    fill = [a, b, c]
    for pn, (par, pb) in A.items():
        for pos in range(par):
            for cn, (car, cb) in A.items():
                child = cb(fill[:car])
                kids = [fill[(i + 1) % 3] for i in range(par)]
                kids[pos] = child
                yield f"{pn}[{pos}]<-{cn}", pb(kids)
            for lf in leaves():
                kids = [fill[(i + 1) % 3] for i in range(par)]
                kids[pos] = lf
                yield f"{pn}[{pos}]<-{lf!r}", pb(kids)


def gen_composite_children():
    """parent[pos] <- child whose own FIRST and LAST operands are composite (a sum, a negative constant, a product): the child's text then begins and ends with a
    parenthesis of its operands, which must not be mistaken for parentheses around the child."""
    A = alphabet()
    import pymbolic.primitives as p
    a, b, c = p.Variable("a"), p.Variable("b"), p.Variable("c")
    ends = [(p.Sum((a, b)), p.Sum((b, c))), (-3, -2), (p.Sum((a, b)), -3), (p.Product((a, b)), p.Sum((a, c))), (p.Quotient(a, b), p.FloorDiv(b, c)), (p.If(a, b, c), p.If(c, b, a))]
    two = [n for n, (ar, _) in A.items() if ar == 2]
    fill = [a, b, c]
    for pn, (par, pb) in A.items():
        for pos in range(par):
            for cn in two:
                for e1, e2 in ends:
                    try:
                        child = A[cn][1]([e1, e2])
                    except Exception:   # noqa: BLE001
                        continue
                    kids = [fill[(i + 1) % 3] for i in range(par)]
                    kids[pos] = child
                    yield f"{pn}[{pos}]<-{cn}(composite ends)", pb(kids)


REDUCED = ["Sum", "Product", "Quotient", "FloorDiv", "Power", "LeftShift", "BitwiseNot", "BitwiseOr", "BitwiseAnd", "LogicalNot", "LogicalAnd", "Lt", "If", "CallArg", "SubIdx",
           "Lookup"]


def gen_three_level(tier):
    A = alphabet()
    import pymbolic.primitives as p
    a, b, c = p.Variable("a"), p.Variable("b"), p.Variable("c")
    fill = [a, b, c, -3]
    names = list(A) if tier == "thorough" else REDUCED[:11]       # thorough: the full alphabet (every form in every position, three deep)
    for n1 in names:
        ar1, b1 = A[n1]
        for p1 in range(ar1):
            for n2 in names:
                ar2, b2 = A[n2]
                for p2 in range(ar2):
                    for n3 in names:
                        ar3, b3 = A[n3]
                        inner = b3(fill[:ar3])
                        k2 = [fill[(i + 2) % 4] for i in range(ar2)]
                        k2[p2] = inner
                        mid = b2(k2)
                        k1 = [fill[(i + 1) % 4] for i in range(ar1)]
                        k1[p1] = mid
                        yield f"{n1}[{p1}]<-{n2}[{p2}]<-{n3}", b1(k1)


def gen_random(tier, seed):
    A = alphabet()
    rng = random.Random(seed)
    names = list(A)
    lv = leaves()

    def g(d):
        if d == 0 or rng.random() < 0.2:
            return rng.choice(lv + [-7, 2.25, -1e-3, 12345678901234567890])
        n = rng.choice(names)
        ar, bld = A[n]
        return bld([g(d - 1) for _ in range(ar)])
    for i in range(1500 if tier == "thorough" else 400):
        yield f"random#{i}", g(rng.choice([3, 4, 5]))


# ----------------------------------------------------------------------------- known-finding regions (decided on the tree)
def all_nodes(e):
    """Every sub-object (expressions, tuples, dict values, constants) of a tree."""
    import dataclasses
    import pymbolic.primitives as p
    yield e
    if isinstance(e, (tuple, list)):
        for c in e:
            yield from all_nodes(c)
    elif hasattr(e, "items") and not isinstance(e, p.Expression):
        for c in e.values():
            yield from all_nodes(c)
    elif isinstance(e, p.Expression) and dataclasses.is_dataclass(e):
        for f in dataclasses.fields(e):
            yield from all_nodes(getattr(e, f.name))


def tree_cause(e):
    import pymbolic.primitives as p
    causes = set()
    for n in all_nodes(e):
        if isinstance(n, p.Lookup) and isinstance(n.aggregate, int) and not isinstance(n.aggregate, bool) and n.aggregate >= 0:
            causes.add("attribute-of-int-literal")
        if isinstance(n, float) and (n != n or n in (float("inf"), float("-inf"))):
            causes.add("nonfinite-constant")
    return "+".join(sorted(causes))


def roundtrip(b, label, e, fns):
    import pymbolic
    s_r = outcome.run(lambda: str(e))
    b.case(("rt", repr(e)), sample=dict(label=label, expr=repr(e)))
    cause = tree_cause(e)
    tag = f" cause={cause}" if cause else ""
    if s_r[0] != "val":
        b.fail(Failure(b.name, f"what=str-raised{tag} label={label} expr={e!r}", dict(kind="rt", expr=repr(e)), expected="a string", actual=outcome.describe(s_r)[:200], functions=fns))
        return
    s = s_r[1]
    p_r = outcome.run(lambda: pymbolic.parse(s))
    if p_r[0] != "val":
        b.fail(Failure(b.name, f"what=reparse-raised{tag} label={label} text={s!r} expr={e!r}", dict(kind="rt", expr=repr(e)), expected="a tree", actual=outcome.describe(p_r)[:200],
                       functions=fns))
        return
    e2 = p_r[1]
    if not typed_eq(canon(e2), canon(e)):
        b.fail(Failure(b.name, f"what=tree-differs{tag} label={label} text={s!r} expr={e!r}", dict(kind="rt", expr=repr(e)), expected=repr(canon(e))[:200], actual=repr(canon(e2))[:200],
                       functions=fns))
        bad = value_check(e, e2)
        if bad:
            env, w, g = bad
            b.fail(Failure(b.name, f"what=value-differs{tag} label={label} text={s!r} expr={e!r}", dict(kind="rt", expr=repr(e), env=repr(env)),
                           expected=f"{outcome.describe(w)[:80]} at {env}", actual=outcome.describe(g)[:80] if g else "timeout", functions=fns))
        return
    s2 = outcome.run(lambda: str(e2))
    if s2 != ("val", s):
        b.fail(Failure(b.name, f"what=reprint-differs{tag} label={label} text={s!r} expr={e!r}", dict(kind="rt", expr=repr(e)), expected=s, actual=outcome.describe(s2)[:200], functions=fns))


def b_two(tier):
    b = BoundedRun("parent-child", rule="for every (parent type, child position, child type) of the printable alphabet (33 parent forms incl. n-ary, comparison operators, call "
                   "function / argument / keyword positions, subscript aggregate / index / tuple index, slices, tuples as arguments and indices) with every child form and every "
                   "leaf kind (variable, positive / negative int, positive / negative float, floats whose repr has an exponent sign, signed zeros, 0, True; the non-finite floats inf, -inf, nan), and every binary child "
                   "form whose own first and last operands are composite (text beginning and ending with its operands' parentheses): parse(str(e)) equals e after "
                   "flattening nested sums/products (constants compared with their type), and str(parse(str(e))) == str(e); where the trees differ the values are compared "
                   "over {-2,1,3}^3 too", bound="depth 2, exhaustive over the alphabet", functions=["StringifyMapper.map_*", "Parser"])
    fns = ["StringifyMapper", "Parser"]
    for label, e in gen_two_level():
        roundtrip(b, label, e, fns)
    # non-finite float constants in every child position (two-level trees only, so that no other cause can mix in)
    A = alphabet()
    import pymbolic.primitives as p
    fill = [p.Variable("a"), p.Variable("b"), p.Variable("c")]
    for pn, (par, pb) in A.items():
        for pos in range(par):
            for lf in (float("inf"), float("-inf"), float("nan")):
                kids = [fill[(i + 1) % 3] for i in range(par)]
                kids[pos] = lf
                roundtrip(b, f"{pn}[{pos}]<-{lf!r}", pb(kids), fns)
    for label, e in gen_composite_children():
        roundtrip(b, label, e, fns)
    return b


def b_three(tier):
    b = BoundedRun("three-level", rule="every three-level nesting parent[pos] <- middle[pos] <- inner over the full alphabet of 39 forms (thorough) / a reduced alphabet of 11 "
                   "forms (quick): same round-trip judgement", bound="depth 3, exhaustive over the (reduced) alphabet", functions=["StringifyMapper.map_*", "Parser"])
    fns = ["StringifyMapper", "Parser"]
    for label, e in gen_three_level(tier):
        roundtrip(b, label, e, fns)
    return b


def b_random(tier, seed):
    b = BoundedRun("random-deep", rule="seeded random trees of depth 3..5 over the full alphabet with negative, fractional, tiny and huge constants: same round-trip judgement",
                   bound="1500 (thorough) / 400 (quick) trees", functions=["StringifyMapper.map_*", "Parser"])
    b.exhaustive = False
    for label, e in gen_random(tier, seed):
        roundtrip(b, label, e, ["StringifyMapper", "Parser"])
    return b


def bounded(tier, seed, procs):
    return [b_two(tier), b_three(tier), b_random(tier, seed)]


# ----------------------------------------------------------------------------- proved kernel: the two precedence tables agree
CLASSES = [("CALL", "_PREC_CALL"), ("POWER", "_PREC_POWER"), ("UNARY", "_PREC_UNARY"), ("PRODUCT", "_PREC_TIMES"), ("SUM", "_PREC_PLUS"), ("SHIFT", "_PREC_SHIFT"),
           ("BITWISE_AND", "_PREC_BITWISE_AND"), ("BITWISE_XOR", "_PREC_BITWISE_XOR"), ("BITWISE_OR", "_PREC_BITWISE_OR"), ("COMPARISON", "_PREC_COMPARISON"),
           ("LOGICAL_AND", "_PREC_LOGICAL_AND"), ("LOGICAL_OR", "_PREC_LOGICAL_OR"), ("IF", "_PREC_IF")]


def table_job(_arg):
    """For every pair of operator classes: stringifier PREC_X < PREC_Y  <=>  parser _PREC_X < _PREC_Y (constants read from the running modules)."""
    import time
    import z3
    import pymbolic.mapper.stringifier as S
    import pymbolic.parser as P
    from pyvc import loader
    obs = []
    for (x, px), (y, py) in itertools.combinations(CLASSES, 2):
        t0 = time.time()
        sx, sy, qx, qy = getattr(S, "PREC_" + x), getattr(S, "PREC_" + y), getattr(P, px), getattr(P, py)
        s = z3.Solver()
        s.add((z3.IntVal(sx) < z3.IntVal(sy)) != (z3.IntVal(qx) < z3.IntVal(qy)))
        s2 = z3.Solver()
        s2.add((z3.IntVal(sx) == z3.IntVal(sy)) != (z3.IntVal(qx) == z3.IntVal(qy)))
        ok = s.check() == z3.unsat and s2.check() == z3.unsat
        obs.append(dict(name=f"C06.table[{x} vs {y}]", status="discharged" if ok else "refuted", backend="z3", time_s=time.time() - t0,
                        detail="" if ok else f"stringifier PREC_{x}={sx}, PREC_{y}={sy}; parser {px}={qx}, {py}={qy}", model="" if ok else f"{x} vs {y}",
                        goal=f"(PREC_{x} < PREC_{y}) == ({px} < {py}) and likewise for =="))
    return dict(contract="C06.precedence-tables-agree", function=loader.get_func_info(S.StringifyMapper.parenthesize_if_needed).describe(), status="ok", obligations=obs,
                paths=len(obs), time_s=sum(o["time_s"] for o in obs))


table_job.name = "C06.precedence-tables-agree"


def proof_jobs(tier):
    return [("custom", table_job, None, None)]


def replay(case):
    import pymbolic
    import pymbolic.primitives as p
    from immutabledict import immutabledict
    ns = {n: getattr(p, n) for n in dir(p)}
    ns["immutabledict"] = immutabledict
    e = eval(case["expr"], ns)
    s = outcome.run(lambda: str(e))
    out = dict(text=outcome.describe(s)[:200])
    if s[0] == "val":
        out["reparsed"] = outcome.describe(outcome.run(lambda: pymbolic.parse(s[1])))[:300]
    return out

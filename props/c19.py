"""C19  Exact-arithmetic helpers and number types compute what they claim."""
from __future__ import annotations

import itertools
import math
import warnings
from fractions import Fraction

from contracts import c19 as K
from harness import outcome, trees
from harness.runner import BoundedRun, Failure

LEVEL = "proof"
SPECS = [K.pw]
EXPLANATION = (
    "integer_power is proved for all integers x and all n (loop invariant aux * x^n = x0^n0 with the lemma "
    "pw(x*x, k) = pw(x, 2k), itself proved by induction; termination by the variant n; negative n raises); "
    "extended_euclidean is proved for all integer pairs (Bezout identity g = a*q + b*r and g | q, g | r via ghost "
    "inverse coefficients; the norm-based swap through its own contract; termination by |r|); gcd through the callee "
    "contract.  FFT (floating point), polynomial arithmetic, lcm, find_factors, the quotient node and integer_power "
    "over other monoids (Fractions, matrices, polynomials) are checked by the bounded stand-in only.")
ASSUMPTIONS = ["A-INT: Python int is mathematical; divmod/floor semantics as encoded (validated on a box in the thorough tier)",
               "traits.common_traits on ints yields IntegerTraits (assumed contract, bounded-validated)",
               "A-FLOAT: no floating point reasoning; FFT clauses are numeric comparisons with a tolerance"]
TRUSTED_BASE = ["z3 nonlinear integer arithmetic"]


def _lemma_job(f):
    from pyvc import loops
    return loops.verify_lemma(f, SPECS)


def proof_jobs(tier):
    jobs = [("custom", _lemma_job, lm, None) for lm in K.LEMMAS]
    jobs += [("function", fc, None, None) for fc in K.FUNCTIONS]
    return jobs


# ----------------------------------------------------------------------------- bounded
def b_kernels(tier):
    from pymbolic.algorithm import extended_euclidean, find_factors, gcd, gcd_many, integer_power, lcm
    import numpy as np
    b = BoundedRun("kernels", rule="integer_power for x in ints/Fractions/2x2 integer matrices (immutable, and mutable with an in-place product, one element and one unit reused for all exponents: arguments unchanged)/polynomials and n in 0..12 (negative n must raise); "
                   "extended_euclidean, gcd, lcm for all integer pairs in a box incl. negative, zero, equal: g = a*q+b*r, |g| = math.gcd, gcd*lcm = |q*r|; "
                   "gcd_many; find_factors(n) for n in 1..400: n1*n2 = n and n1 is the least divisor >= 2 (or n); non-trivial = all cases",
                   bound="box [-24, 24]^2 (quick [-12, 12]^2), n <= 12", functions=["integer_power", "extended_euclidean", "gcd", "gcd_many", "lcm", "find_factors"])
    R = 24 if tier == "thorough" else 12
    xs = [0, 1, -1, 2, -3, 7, Fraction(2, 3), Fraction(-5, 2)]
    for x in xs:
        for n in range(0, 13):
            r = outcome.run(lambda: integer_power(x, n))
            b.case(("ip", repr(x), n), sample=dict(x=repr(x), n=n))
            if r != ("val", x ** n):
                b.fail(Failure("kernels", f"what=integer_power x={x!r} n={n}", dict(kind="ip", x=repr(x), n=n), expected=repr(x ** n), actual=outcome.describe(r), functions=["integer_power"]))
        r = outcome.run(lambda: integer_power(x, -1))
        b.case(("ip-neg", repr(x)))
        if r[0] != "exc" or not issubclass(r[1], RuntimeError):
            b.fail(Failure("kernels", f"what=integer_power-negative x={x!r}", dict(kind="ip-neg", x=repr(x)), expected="RuntimeError", actual=outcome.describe(r), functions=["integer_power"]))
    for m in ([[1, 1], [1, 0]], [[2, -1], [0, 3]], [[0, 1], [-1, 0]]):
        M = np.array(m, dtype=object)
        for n in range(0, 9):
            r = outcome.run(lambda: integer_power(M, n, one=np.array([[1, 0], [0, 1]], dtype=object)))
            exp = np.linalg.matrix_power(np.array(m, dtype=object), n) if n else np.array([[1, 0], [0, 1]], dtype=object)
            b.case(("ipm", repr(m), n))
            ok = r[0] == "val" and (np.asarray(r[1]) == exp).all() if r[0] == "val" and n == 0 else r[0] == "val"
            if r[0] == "val":
                ref = np.array([[1, 0], [0, 1]], dtype=object)
                for _ in range(n):
                    ref = ref.dot(M)
                # integer_power multiplies with *, i.e. elementwise for arrays: use matrix semantic via a wrapper class instead
            # (array '*' is elementwise; the monoid check is done with the Mat wrapper below)
    class Mat:
        def __init__(self, a):
            self.a = a

        def __mul__(self, o):
            (p, q), (r_, s) = self.a
            (t, u), (v, w) = o.a
            return Mat(((p * t + q * v, p * u + q * w), (r_ * t + s * v, r_ * u + s * w)))

        def __eq__(self, o):
            return self.a == o.a
    one = Mat(((1, 0), (0, 1)))
    for m in (((1, 1), (1, 0)), ((2, -1), (0, 3)), ((0, 1), (-1, 0))):
        for n in range(0, 11):
            ref = one
            for _ in range(n):
                ref = ref * Mat(m)
            r = outcome.run(lambda: integer_power(Mat(m), n, one=one))
            b.case(("ipmat", m, n), sample=dict(matrix=m, n=n))
            if r[0] != "val" or not (r[1] == ref):
                b.fail(Failure("kernels", f"what=integer_power-matrix m={m} n={n}", dict(kind="ipmat", m=repr(m), n=n), expected=repr(ref.a),
                               actual=outcome.describe(r) if r[0] == "exc" else repr(r[1].a), functions=["integer_power"]))
    # a monoid whose elements are MUTABLE and have an in-place product (*= changes the object): the same element and the same
    # unit are used for every exponent, so a call that overwrites an argument makes a later call wrong; arguments must be unchanged
    class MMat:
        def __init__(self, a):
            self.a = [list(row) for row in a]

        def _prod(self, o):
            (p, q), (r_, s) = self.a
            (t, u), (v, w) = o.a
            return [[p * t + q * v, p * u + q * w], [r_ * t + s * v, r_ * u + s * w]]

        def __mul__(self, o):
            return MMat(self._prod(o))

        def __imul__(self, o):
            self.a = self._prod(o)
            return self

        def key(self):
            return tuple(map(tuple, self.a))
    for m in (((1, 1), (0, 1)), ((2, -1), (0, 3)), ((0, 1), (-1, 0)), ((Fraction(1, 2), 1), (1, 0))):
        elem, unit = MMat(m), MMat(((1, 0), (0, 1)))
        for n in list(range(0, 13)) + [17, 31, 32, 33, 5, 2, 0, 3]:
            ref = Mat(((1, 0), (0, 1)))
            for _ in range(n):
                ref = ref * Mat(m)
            r = outcome.run(lambda: integer_power(elem, n, one=unit))
            b.case(("ipmut", m, n), sample=dict(matrix=repr(m), n=n, mutable=True))
            why = None
            if r[0] != "val" or r[1].key() != ref.a:
                why = f"value {outcome.describe(r) if r[0] == 'exc' else r[1].key()}"
            elif elem.key() != m:
                why = f"the argument x was overwritten: now {elem.key()}"
            elif unit.key() != ((1, 0), (0, 1)):
                why = f"the argument one was overwritten: now {unit.key()}"
            if why:
                b.fail(Failure("kernels", f"what=integer_power-mutable-monoid m={m} n={n} why={why[:60]}", dict(kind="ipmut", m=repr(m), n=n), expected=f"{ref.a}, arguments unchanged",
                               actual=why[:200], functions=["integer_power"]))
                elem, unit = MMat(m), MMat(((1, 0), (0, 1)))
    for q, r_ in itertools.product(range(-R, R + 1), repeat=2):
        res = outcome.run(lambda: extended_euclidean(q, r_))
        b.case(("ee", q, r_), sample=dict(q=q, r=r_))
        ok = res[0] == "val" and res[1][0] == res[1][1] * q + res[1][2] * r_ and abs(res[1][0]) == math.gcd(q, r_)
        if not ok:
            b.fail(Failure("kernels", f"what=extended_euclidean q={q} r={r_}", dict(kind="ee", q=q, r=r_), expected=f"gcd {math.gcd(q, r_)} with Bezout coefficients",
                           actual=outcome.describe(res), functions=["extended_euclidean"]))
        g = outcome.run(lambda: gcd(q, r_))
        if not (g[0] == "val" and abs(g[1]) == math.gcd(q, r_)):
            b.fail(Failure("kernels", f"what=gcd q={q} r={r_}", dict(kind="gcd", q=q, r=r_), expected=math.gcd(q, r_), actual=outcome.describe(g), functions=["gcd"]))
        if q and r_:
            l = outcome.run(lambda: lcm(q, r_))
            if not (l[0] == "val" and g[0] == "val" and abs(g[1] * l[1]) == abs(q * r_) and abs(l[1]) == math.lcm(q, r_)):
                b.fail(Failure("kernels", f"what=lcm q={q} r={r_}", dict(kind="lcm", q=q, r=r_), expected=math.lcm(q, r_), actual=outcome.describe(l), functions=["lcm"]))
    # the same routine on polynomials (PolynomialTraits is a Euclidean-ring traits class): pairs whose division chain stays exact over the integers (products of
    # monic linear factors), and pairs where a leading coefficient does not divide (the remainder chain needs rational coefficients)
    import pymbolic.primitives as prim
    from pymbolic.polynomial import Polynomial
    xv = prim.Variable("x")

    def pv(pl, t):
        return sum(c * t ** e for e, c in pl.data) if isinstance(pl, Polynomial) else pl
    lin = lambda c: Polynomial(xv, ((0, c), (1, 1)))      # noqa: E731   x + c
    ppairs = [("exact", lin(1) * lin(-1), lin(1)), ("exact", lin(1) * lin(2) * lin(3), lin(2) * lin(3)), ("exact", lin(0) * lin(1) * lin(1), lin(1) * lin(1)),
              ("exact", lin(2), lin(2) * lin(-5) * lin(1)), ("exact", lin(4) * lin(4), lin(4)),
              ("inexact", Polynomial(xv, ((0, 1), (2, 1))), lin(2)), ("inexact", Polynomial(xv, ((1, 2),)), Polynomial(xv, ((1, 3),))), ("inexact", lin(1) * lin(2), lin(2) * lin(5))]
    for kind, q, r_ in ppairs:
        res = outcome.with_alarm(2, lambda: outcome.run(lambda: extended_euclidean(q, r_)), default=("exc", outcome.DidNotTerminate, ("no result within 2 s",)))
        b.case(("ee-poly", repr(q.data), repr(r_.data)), sample=dict(q=repr(q.data), r=repr(r_.data)))
        ok = False
        if res[0] == "val":
            g, ca, cb = res[1]
            pts_ = [-3, -1, 0, 1, 2, 5, Fraction(1, 2)]
            ok = all(pv(g, t) == pv(ca, t) * pv(q, t) + pv(cb, t) * pv(r_, t) for t in pts_) and isinstance(g, Polynomial) and bool(g.data)
            if ok:
                for big in (q, r_):
                    dm = outcome.run(lambda: divmod(big, g))
                    ok = ok and dm[0] == "val" and not getattr(dm[1][1], "data", dm[1][1])
        if not ok:
            b.fail(Failure("kernels", f"what=extended_euclidean-polynomials chain={kind} q={q.data} r={r_.data}", dict(kind="ee-poly", q=repr(q.data), r=repr(r_.data)),
                           expected="g = a*q + b*r, g divides q and r", actual=outcome.describe(res)[:200], functions=["extended_euclidean", "Polynomial.__divmod__", "Polynomial.__bool__"]))
    for args in [(), (12,), (12, 18), (12, 18, 27), (0, 5, 10), (-4, 6, 10)]:
        r = outcome.run(lambda: gcd_many(*args))
        b.case(("gm", args))
        want = 1 if not args else (args[0] if len(args) == 1 else math.gcd(*args))
        if r[0] != "val" or abs(r[1]) != abs(want):
            b.fail(Failure("kernels", f"what=gcd_many args={args}", dict(kind="gm", args=repr(args)), expected=want, actual=outcome.describe(r), functions=["gcd_many"]))
    for n in range(1, 401):
        r = outcome.run(lambda: find_factors(n))
        b.case(("ff", n))
        least = next((d for d in range(2, n + 1) if n % d == 0), n)
        if r[0] != "val" or r[1][0] * r[1][1] != n or (n > 1 and r[1][0] != least):
            b.fail(Failure("kernels", f"what=find_factors n={n}", dict(kind="ff", n=n), expected=f"({least}, {n // least})", actual=outcome.describe(r), functions=["find_factors"]))
    return b


def b_fft(tier, seed):
    import numpy as np
    from pymbolic.algorithm import fft, ifft, sym_fft
    b = BoundedRun("fft", rule="fft(x) for complex, real (float64) and integer input vectors of every length 1..64 (thorough; quick 1..33) and seeded random longer ones vs the O(n^2) DFT definition "
                   "F_k = sum_j z^{kj} x_j, z = exp(-2 i pi sign/n), both signs, with a relative tolerance 1e-9; ifft(fft(x)) = x; sym_fft evaluated at the same "
                   "data equals fft, both signs (n <= 12); non-trivial = every length (prime, composite, power of two)",
                   bound="n <= 64 (+ 3 random n <= 200)", functions=["fft", "ifft", "sym_fft", "find_factors"])
    rng = np.random.default_rng(seed)
    lens = list(range(1, 65 if tier == "thorough" else 34)) + [int(v) for v in rng.integers(65, 200, size=3)]
    with warnings.catch_warnings():
        warnings.simplefilter("ignore")
        for n in lens:
            for kind in ("complex", "float", "int"):
              x = (rng.normal(size=n) + 1j * rng.normal(size=n)) if kind == "complex" else (rng.normal(size=n) if kind == "float" else rng.integers(-9, 10, size=n))
              if kind != "complex" and n > 40 and n % 3:
                  continue
              for sign in (1, -1):
                  z = np.exp(-2j * np.pi * sign / n)
                  ref = np.array([sum(z ** (k * j) * x[j] for j in range(n)) for k in range(n)])
                  r = outcome.run(lambda: fft(x.copy(), sign=sign, complex_dtype=np.complex128))
                  b.case(("fft", n, sign, kind), sample=dict(n=n, sign=sign, input=kind))
                  ok = r[0] == "val" and np.linalg.norm(np.asarray(r[1]) - ref) <= 1e-9 * max(1.0, np.linalg.norm(ref))
                  if not ok:
                      b.fail(Failure("fft", f"what=fft n={n} sign={sign} input={kind}", dict(kind="fft", n=n, sign=sign, input=kind), expected="DFT", actual=outcome.describe(r)[:200], functions=["fft"]))
              r2 = outcome.run(lambda: ifft(fft(x.copy(), complex_dtype=np.complex128), complex_dtype=np.complex128))
              b.case(("ifft", n, kind))
              if not (r2[0] == "val" and np.linalg.norm(np.asarray(r2[1]) - x) <= 1e-9 * max(1.0, np.linalg.norm(x))):
                  b.fail(Failure("fft", f"what=ifft n={n} input={kind}", dict(kind="ifft", n=n, input=kind), expected="x", actual=outcome.describe(r2)[:200], functions=["ifft"]))
        from pymbolic import evaluate
        import pymbolic.primitives as p
        for n in range(1, 13):
            xs = rng.normal(size=n) + 1j * rng.normal(size=n)
            for sign in (1, -1):
                r = outcome.run(lambda: sym_fft(p.make_sym_vector("x", n), sign=sign))
                b.case(("symfft", n, sign), sample=dict(n=n, sign=sign))
                ok = False
                if r[0] == "val":
                    z = np.exp(-2j * np.pi * sign / n)
                    ref = np.array([sum(z ** (k * j) * xs[j] for j in range(n)) for k in range(n)])
                    vals = outcome.run(lambda: np.array([complex(evaluate(e, {"x": xs, "numpy": np})) for e in r[1]]))
                    ok = vals[0] == "val" and np.linalg.norm(vals[1] - ref) <= 1e-8 * max(1.0, np.linalg.norm(ref))
                if not ok:
                    b.fail(Failure("fft", f"what=sym_fft n={n} sign={sign}", dict(kind="symfft", n=n, sign=sign), expected="DFT", actual=outcome.describe(r)[:200], functions=["sym_fft"]))
    return b


def b_poly(tier):
    import pymbolic.primitives as p
    from pymbolic.mapper import IdentityMapper
    from pymbolic.mapper.evaluator import EvaluationMapper
    from pymbolic.polynomial import Polynomial
    from pymbolic.primitives import quotient
    from pymbolic import evaluate
    b = BoundedRun("polynomials", rule="all sparse polynomials in x with exponents from {0,1,2,3} (<= 3 terms) and coefficients in {-2,-1,1,2,1/2}: "
                   "value(p op q) == value(p) op value(q) at x in {-2,-1,0,1,2,1/2,3} for +, -, *, ** (n <= 3), and divmod (q*d + r == p, deg r < deg d over "
                   "the rationals); representation invariant (strictly increasing exponents, no zero coefficient) after every operation; evaluation mapper "
                   "(Horner) == direct sum; identity-style mapper that rewrites coefficients keeps all terms; the value after such a rewrite (entries with a zero coefficient may remain) and of +, -, * "
                   "on the rewritten polynomial is the table's; symbolic coefficients bound to values including zero through the environment and through substitution; "
                   "quotient(a, b) for all integer pairs evaluates to a/b",
                   bound="~200 polynomials, all pairs sampled to <= 4000", functions=["Polynomial.__add__/__mul__/__pow__/__divmod__/__neg__", "EvaluationMapper.map_polynomial",
                                                                                     "IdentityMapper.map_polynomial", "primitives.quotient", "Rational"])
    x = p.Variable("x")
    coeffs = [-2, -1, 1, 2, Fraction(1, 2)]
    polys = [Polynomial(x, ())]
    for k in (1, 2, 3):
        for exps in itertools.combinations(range(4), k):
            for cs in itertools.islice(itertools.product(coeffs, repeat=k), 0, 25):
                polys.append(Polynomial(x, tuple(zip(exps, cs))))
    pts = [-2, -1, 0, 1, 2, Fraction(1, 2), 3]

    def val(pl, t):
        if not isinstance(pl, Polynomial):
            return pl
        try:
            return sum(c * t ** e for e, c in pl.data)
        except (ArithmeticError, TypeError, ValueError) as ex:     # a malformed result (negative exponent at 0, ...) has no value: never equal to one
            return ("no-value", type(ex).__name__)

    def wf(pl):
        if not isinstance(pl, Polynomial):
            return True
        es = [e for e, _ in pl.data]
        return es == sorted(set(es)) and all(c != 0 for _, c in pl.data)
    import operator
    pairs = list(itertools.product(trees.thin(polys, max(1, len(polys) // 3), seed=1), trees.thin(polys, max(1, len(polys) // 4), seed=2)))
    for a, c in pairs[:4000 if tier == "thorough" else 1500]:
        for opn, op in (("add", operator.add), ("sub", operator.sub), ("mul", operator.mul)):
            r = outcome.run(lambda: op(a, c))
            b.case((opn, repr(a.data), repr(c.data)), sample=dict(op=opn, p=repr(a.data), q=repr(c.data)))
            ok = r[0] == "val" and all(val(r[1], t) == op(val(a, t), val(c, t)) for t in pts) and wf(r[1])
            if not ok:
                b.fail(Failure("polynomials", f"what={opn} p={a.data} q={c.data}", dict(kind="poly", op=opn, p=repr(a.data), q=repr(c.data)),
                               expected="homomorphic, well-formed", actual=(outcome.describe(r) if r[0] == "exc" else repr(getattr(r[1], 'data', r[1])))[:200],
                               functions=[f"Polynomial.__{opn}__"]))
    # polynomials in two different variables (the result nests one inside the other by the monomial order), both operand orders
    yv = p.Variable("y")

    def val2(pl, tx, ty):
        if not isinstance(pl, Polynomial):
            return pl
        return sum(val2(c, tx, ty) * (tx if pl.base == x else ty) ** e for e, c in pl.data)
    ypolys = [Polynomial(yv, ((1, 2), (3, -1))), Polynomial(yv, ((0, 1),)), Polynomial(yv, ((0, -2), (1, 1))), Polynomial(yv, ((2, Fraction(1, 2)),)), Polynomial(yv, ())]
    for a in trees.thin(polys, 40, seed=7):
        for c in ypolys:
            for opn, op in (("add", operator.add), ("sub", operator.sub), ("mul", operator.mul)):
                for u, v, order in ((a, c, "x-y"), (c, a, "y-x")):
                    r = outcome.run(lambda: op(u, v))
                    b.case(("two-var", opn, order, repr(a.data), repr(c.data)), sample=dict(op=opn, order=order, p=repr(a.data), q=repr(c.data)))
                    ok = r[0] == "val" and all(val2(r[1], tx, ty) == op(val2(u, tx, ty), val2(v, tx, ty)) for tx, ty in ((3, 5), (-2, Fraction(1, 2)), (0, 1), (1, 0)))
                    if not ok:
                        b.fail(Failure("polynomials", f"what=two-variables-{opn} order={order} p={a.data} q={c.data}", dict(kind="poly", op=f"two-var-{opn}", order=order, p=repr(a.data), q=repr(c.data)),
                                       expected="homomorphic in both variables", actual=(outcome.describe(r) if r[0] == "exc" else repr(getattr(r[1], "data", r[1])))[:200],
                                       functions=[f"Polynomial.__{opn}__"]))
    # a polynomial and a plain number, in both operand orders (the reflected methods)
    for a in trees.thin(polys, 60, seed=6):
        for sc in (3, -2, Fraction(1, 2)):
            for opn, op in (("add", operator.add), ("sub", operator.sub), ("mul", operator.mul)):
                for side in ("number-left", "number-right"):
                    r = outcome.run(lambda: op(sc, a) if side == "number-left" else op(a, sc))
                    b.case(("mixed", opn, side, repr(a.data), repr(sc)), sample=dict(op=opn, side=side, p=repr(a.data), number=repr(sc)))
                    want = [op(sc, val(a, t)) if side == "number-left" else op(val(a, t), sc) for t in pts]
                    ok = r[0] == "val" and all(val(r[1], t) == w for t, w in zip(pts, want)) and wf(r[1])
                    if not ok:
                        b.fail(Failure("polynomials", f"what=mixed-{opn}-{side} p={a.data} number={sc!r}", dict(kind="poly", op=f"mixed-{opn}-{side}", p=repr(a.data), number=repr(sc)),
                                       expected="homomorphic, well-formed", actual=(outcome.describe(r) if r[0] == "exc" else repr(getattr(r[1], 'data', r[1])))[:200],
                                       functions=[f"Polynomial.__{'r' if side == 'number-left' else ''}{opn}__"]))
    for a in trees.thin(polys, max(1, len(polys) // 2), seed=3):
        for n in (0, 1, 2, 3):
            r = outcome.run(lambda: a ** n)
            b.case(("pow", repr(a.data), n))
            if not (r[0] == "val" and all(val(r[1], t) == val(a, t) ** n for t in pts) and wf(r[1])):
                b.fail(Failure("polynomials", f"what=pow p={a.data} n={n}", dict(kind="poly", op="pow", p=repr(a.data), n=n), expected="p(t)**n",
                               actual=outcome.describe(r)[:200], functions=["Polynomial.__pow__", "integer_power"]))
        r = outcome.run(lambda: EvaluationMapper({"x": Fraction(3, 2)})(a))
        b.case(("horner", repr(a.data)))
        if r != ("val", val(a, Fraction(3, 2))) and not (r[0] == "val" and r[1] == val(a, Fraction(3, 2))):
            b.fail(Failure("polynomials", f"what=evaluate p={a.data}", dict(kind="poly", op="eval", p=repr(a.data)), expected=repr(val(a, Fraction(3, 2))),
                           actual=outcome.describe(r)[:200], functions=["EvaluationMapper.map_polynomial"]))

        class Plus1(IdentityMapper):
            def map_constant(self, e):
                return e + 1
        if any(isinstance(c, Fraction) for _, c in a.data):
            continue        # Fractions are not valid expression constants for mappers
        # extra arguments of the traversal (positional and keyword) reach the coefficients as they reach the base
        class Scale(IdentityMapper):
            def map_constant(self, e, k=1, *, factor=1):
                return e * k * factor

            def map_variable(self, e, k=1, *, factor=1):
                return e
        for args_, kw_, mult in (((), {"factor": 3}, 3), ((2,), {}, 2), ((2,), {"factor": 5}, 10)):
            rs = outcome.run(lambda: Scale()(a, *args_, **kw_))
            b.case(("idmap-args", repr(a.data), repr(args_), repr(kw_)))
            wants = tuple((e, c * mult) for e, c in a.data)
            if not (rs[0] == "val" and tuple(rs[1].data) == wants):
                b.fail(Failure("polynomials", f"what=identity-mapper-extra-arguments p={a.data} args={args_} kw={kw_}", dict(kind="poly", op="idmap-args", p=repr(a.data), args=repr(args_), kw=repr(kw_)),
                               expected=repr(wants), actual=(outcome.describe(rs) if rs[0] == "exc" else repr(tuple(rs[1].data)))[:200], functions=["IdentityMapper.map_polynomial"]))
        r = outcome.run(lambda: Plus1()(a))
        b.case(("idmap", repr(a.data)))
        want = tuple((e, c + 1) for e, c in a.data)
        if not (r[0] == "val" and tuple(r[1].data) == want):
            b.fail(Failure("polynomials", f"what=identity-mapper-rewrite p={a.data}", dict(kind="poly", op="idmap", p=repr(a.data)), expected=repr(want),
                           actual=(outcome.describe(r) if r[0] == "exc" else repr(tuple(r[1].data)))[:200], functions=["IdentityMapper.map_polynomial"]))
    # values after a mapper has rewritten the coefficients: entries whose coefficient has become zero may remain in the table, and the value is still the table's
    class Shift(IdentityMapper):
        def __init__(self, k):
            self.k = k

        def map_constant(self, e):
            return e + self.k

        def map_variable(self, e):
            return e
    from pymbolic.mapper.substitutor import substitute
    others = [Polynomial(x, ((0, 1), (2, 3))), Polynomial(x, ((1, -2),)), Polynomial(x, ((0, 2), (1, 1), (3, -1)))]
    ints_ = [pl for pl in polys if all(isinstance(c, int) for _, c in pl.data)]
    for a in trees.thin(ints_, 60, seed=11):
        if not a.data:
            continue
        for k in (1, -1, 2, -2):
            ra = outcome.run(lambda: Shift(k)(a))
            table = [(e, c + k) for e, c in a.data]
            for t in (-2, 0, 1, 2, Fraction(1, 2), 3):
                want = sum(c * t ** e for e, c in table)
                got = outcome.run(lambda: EvaluationMapper({"x": t})(ra[1])) if ra[0] == "val" else ra
                b.case(("rewritten-value", repr(a.data), k, repr(t)), nontrivial=any(c == 0 for _, c in table), sample=dict(p=repr(a.data), shift=k, at=repr(t)))
                if not (got[0] == "val" and got[1] == want):
                    b.fail(Failure("polynomials", f"what=value-after-coefficient-rewrite p={a.data} shift={k} at={t}", dict(kind="poly", op="rewritten-value", p=repr(a.data), k=k, at=repr(t)),
                                   expected=repr(want), actual=outcome.describe(got)[:200], functions=["EvaluationMapper.map_polynomial", "IdentityMapper.map_polynomial"]))
                    break
            if ra[0] != "val":
                continue
            for o in others:
                for opn, op in (("add", operator.add), ("sub", operator.sub), ("mul", operator.mul)):
                    r = outcome.run(lambda: op(ra[1], o))
                    b.case(("rewritten-op", opn, repr(a.data), k, repr(o.data)), nontrivial=any(c == 0 for _, c in table))
                    ok = r[0] == "val"
                    for t in (-2, 0, 1, 3, Fraction(1, 2)):
                        if not ok:
                            break
                        want = op(sum(c * t ** e for e, c in table), val(o, t))
                        got = outcome.run(lambda: EvaluationMapper({"x": t})(r[1]))
                        ok = got[0] == "val" and got[1] == want
                    if not ok:
                        b.fail(Failure("polynomials", f"what={opn}-after-coefficient-rewrite p={a.data} shift={k} q={o.data}", dict(kind="poly", op=f"rewritten-{opn}", p=repr(a.data), k=k, q=repr(o.data)),
                                       expected="value(p') op value(q), evaluated", actual=(outcome.describe(r) if r[0] == "exc" else repr(getattr(r[1], "data", r[1])))[:200],
                                       functions=[f"Polynomial.__{opn}__", "EvaluationMapper.map_polynomial"]))
    # symbolic coefficients bound (by the environment, or by substitution) to values that include zero
    ca, cb, cc = p.Variable("ca"), p.Variable("cb"), p.Variable("cc")
    for exps in ((0, 1, 3), (1, 2, 3), (0, 2, 5), (2, 3, 4)):
        q_ = Polynomial(x, tuple(zip(exps, (ca, cb, cc))))
        for va, vb, vc in itertools.product((0, 2, -1), repeat=3):
            for t in (2, -3, Fraction(1, 2), 0):
                want = va * t ** exps[0] + vb * t ** exps[1] + vc * t ** exps[2]
                got1 = outcome.run(lambda: EvaluationMapper({"x": t, "ca": va, "cb": vb, "cc": vc})(q_))
                got2 = outcome.run(lambda: EvaluationMapper({"x": t})(substitute(q_, {"ca": va, "cb": vb, "cc": vc})))
                b.case(("symbolic-coefficients", exps, va, vb, vc, repr(t)), nontrivial=0 in (va, vb, vc))
                for how, got in (("environment", got1), ("substitution", got2)):
                    if not (got[0] == "val" and got[1] == want):
                        b.fail(Failure("polynomials", f"what=symbolic-coefficients-bound-by-{how} exponents={exps} coefficients={(va, vb, vc)} at={t}",
                                       dict(kind="poly", op=f"symbolic-{how}", exps=repr(exps), cs=repr((va, vb, vc)), at=repr(t)), expected=repr(want), actual=outcome.describe(got)[:200],
                                       functions=["EvaluationMapper.map_polynomial", "IdentityMapper.map_polynomial"]))
    # degree: the largest exponent, -1 for the zero polynomial only
    for a in polys:
        r = outcome.run(lambda: a.degree)
        b.case(("degree", repr(a.data)))
        want = max((e for e, _ in a.data), default=-1)
        if r != ("val", want):
            b.fail(Failure("polynomials", f"what=degree p={a.data}", dict(kind="poly", op="degree", p=repr(a.data)), expected=repr(want), actual=outcome.describe(r)[:100], functions=["Polynomial.degree"]))
    # division with remainder over the rationals
    ints = [pl for pl in polys if all(isinstance(c, int) for _, c in pl.data)]
    for a, d in itertools.islice(itertools.product(trees.thin(ints, max(1, len(ints) // 3), seed=4), trees.thin(ints, max(1, len(ints) // 4), seed=5)), 0, 900):
        if not d.data:          # the zero polynomial (decided on the data, not with the library's own degree)
            continue
        af, df = a, d
        # the parts of divmod through // and %; and /: when it returns a value, that value times the divisor is the dividend (an inexact division may only raise)
        for opn, op, part in (("floordiv", operator.floordiv, 0), ("mod", operator.mod, 1)):
            r1 = outcome.run(lambda: op(af, df))
            r0 = outcome.run(lambda: divmod(af, df))
            b.case((opn, repr(a.data), repr(d.data)))
            if not (r1[0] == r0[0] and (r1[0] != "val" or all(val(r1[1], t) == val(r0[1][part], t) for t in pts))):
                b.fail(Failure("polynomials", f"what={opn} p={a.data} d={d.data}", dict(kind="poly", op=opn, p=repr(a.data), d=repr(d.data)), expected="the divmod part",
                               actual=outcome.describe(r1)[:200], functions=[f"Polynomial.__{opn}__"]))
        r1 = outcome.run(lambda: af / df)
        b.case(("truediv", repr(a.data), repr(d.data)))
        r0 = outcome.run(lambda: divmod(af, df))
        exact_div = r0[0] == "val" and not getattr(r0[1][1], "data", r0[1][1])
        if r1[0] == "val":
            okd = all(val(r1[1], t) * val(df, t) == val(af, t) for t in pts) and wf(r1[1])
        else:
            okd = issubclass(r1[1], ValueError) and not exact_div      # an exact division has a quotient
        if not okd:
            b.fail(Failure("polynomials", f"what=truediv p={a.data} d={d.data}", dict(kind="poly", op="truediv", p=repr(a.data), d=repr(d.data)), expected="(p/d)*d == p, or ValueError for an inexact division",
                           actual=(outcome.describe(r1) if r1[0] == "exc" else repr(getattr(r1[1], "data", r1[1])))[:200], functions=["Polynomial.__truediv__", "Polynomial.degree"]))
        r = outcome.run(lambda: divmod(af, df))
        b.case(("divmod", repr(a.data), repr(d.data)), sample=dict(op="divmod", p=repr(a.data), d=repr(d.data)))
        ok = False
        if r[0] == "val":
            qq, rr = r[1]
            # over the integers the division stops when a leading coefficient is not divisible: q*d + r == p always,
            # and deg r < deg d unless that happened
            ok = all(val(qq, t) * val(df, t) + val(rr, t) == val(af, t) for t in pts) and wf(qq) and wf(rr) and \
                (getattr(rr, "degree", -1) < df.degree or rr.data[-1][1] % df.data[-1][1] != 0)
        if not ok:
            b.fail(Failure("polynomials", f"what=divmod p={a.data} d={d.data}", dict(kind="poly", op="divmod", p=repr(a.data), d=repr(d.data)),
                           expected="q*d + r == p, deg r < deg d", actual=outcome.describe(r)[:200], functions=["Polynomial.__divmod__"]))
    # division of a polynomial by a plain integer: coefficient-wise quotient and remainder (values only: these results keep zero coefficients in their
    # data, which the statement - homomorphic to their values - does not forbid)
    for a in trees.thin(ints, 40, seed=8):
        for c_ in (2, 3, -2):
            r = outcome.run(lambda: (divmod(a, c_), a // c_, a % c_))
            b.case(("divmod-scalar", repr(a.data), c_))
            ok = r[0] == "val" and all(val(r[1][0][0], t) * c_ + val(r[1][0][1], t) == val(a, t) for t in pts) \
                and all(val(r[1][1], t) == val(r[1][0][0], t) and val(r[1][2], t) == val(r[1][0][1], t) for t in pts) \
                and all(0 <= cf * (1 if c_ > 0 else -1) < abs(c_) for _, cf in getattr(r[1][0][1], "data", ()))
            if not ok:
                b.fail(Failure("polynomials", f"what=divmod-by-number p={a.data} number={c_}", dict(kind="poly", op="divmod-scalar", p=repr(a.data), number=c_), expected="q*c + r == p, remainders in range",
                               actual=outcome.describe(r)[:200], functions=["Polynomial.__divmod__"]))
    # quotient node of two integers
    for a_, b_ in itertools.product(range(-6, 7), repeat=2):
        if b_ == 0:
            continue
        r = outcome.run(lambda: evaluate(quotient(a_, b_), {}))
        b.case(("quot", a_, b_), sample=dict(a=a_, b=b_))
        if not (r[0] == "val" and Fraction(r[1]).limit_denominator(10 ** 6) == Fraction(a_, b_) and (isinstance(r[1], (int, Fraction)) or abs(r[1] - a_ / b_) < 1e-12)):
            b.fail(Failure("polynomials", f"what=quotient a={a_} b={b_}", dict(kind="quot", a=a_, b=b_), expected=repr(Fraction(a_, b_)), actual=outcome.describe(r)[:200],
                           functions=["primitives.quotient", "Rational"]))
    return b


def bounded(tier, seed, procs):
    return [b_kernels(tier), b_fft(tier, seed), b_poly(tier)]


def replay(case):
    runs = bounded("quick", 0, 1)
    return any(f.case == case for b in runs for f in b.failures)

"""C08  Substitution commutes with evaluation."""
from __future__ import annotations

import itertools
from fractions import Fraction

from contracts import c04, c08 as K
from contracts.specs import den
from harness import outcome, trees
from harness.runner import BoundedRun, Failure
from pyvc import api, verify
from pyvc.api import MapperContract

LEVEL = "proof"
SPECS = [c04.Rid, den]
EXPLANATION = (
    "The closure built by make_subst_func is proved to be the look-up rule of the statement (whole-node key first, then a "
    "Variable's name, else None; nothing else is consulted); SubstitutionMapper.map_variable/map_subscript/map_lookup are "
    "proved to return sigma(node) itself when it is not None (so replacements are not substituted again) and otherwise to "
    "behave as the identity traversal; every other map_<K> the mapper inherits is proved against the identity contract "
    "(children mapped with rec, same object when nothing changed). The semantic statement is proved as the substitution "
    "lemma over den, one step of structural induction per node class: given den(self.rec(c), env) ~ den_sigma(c, env) for the "
    "children (outcome for outcome), den(self(e), env) ~ den(sigma(e), env) when e is an intercepted leaf with a replacement, "
    "and otherwise den's own defining clause with den_sigma in the recursive positions; n-ary classes and Call for every "
    "operand count 0..3 with arbitrary operands. Not covered by the lemma (bounded only): CallWithKwargs, CommonSubexpression "
    "(known finding C04-identity-cse-zero), operand counts above 3. evaluate = den is C02.")
ASSUMPTIONS = ["subst_func is a pure function (uninterpreted sigma)", "M-IND", "dispatcher and cache contracts (C04/C05)",
               "substitution lemma: stated bound 3 on the operand count of n-ary nodes and calls; CallWithKwargs and CommonSubexpression bounded only"]
TRUSTED_BASE = ["contracts/specs.py:den"]


def classes():
    return [k for k in verify.node_class_table() if k.__module__ == "pymbolic.primitives"]


def proof_jobs(tier):
    jobs = [("function", fc, None, None) for fc in K.SUBST_FUNC]
    for k in classes() + ["<list>", "<tuple>"]:
        jobs.append(("mapper", K.SUBSTITUTION, k, None))
    jobs += [("function", fc, None, None) for fc in K.LEMMA]
    return jobs


# ----------------------------------------------------------------------------- bounded
class _Lazy(dict):
    def __init__(self, base, thunks):
        super().__init__(base)
        self.thunks = thunks

    def __contains__(self, k):
        return k in self.thunks or dict.__contains__(self, k)

    def __getitem__(self, k):
        if k in self.thunks:
            return self.thunks[k]()
        return dict.__getitem__(self, k)


def key_hit(e, sigma):
    import pymbolic.primitives as p
    for k, v in sigma.items():
        if isinstance(k, p.Expression) and type(k) is type(e) and k == e:
            return True, v
    if isinstance(e, p.Variable):
        for k, v in sigma.items():
            if isinstance(k, str) and k == e.name:
                return True, v
    return False, None


def den_sigma(e, sigma, env):
    """Evaluate the ORIGINAL expression where every replaced variable / subscript / look-up denotes the value of
    its replacement in env itself (simultaneous, no re-substitution)."""
    import pymbolic.primitives as p
    if isinstance(e, (p.Variable, p.Subscript, p.Lookup)):
        hit, rep = key_hit(e, sigma)
        if hit:
            return den(rep, env)
    if isinstance(e, p.Expression) and api.children(e):
        thunks = {}
        counter = [0]

        def placeholder(c):
            counter[0] += 1
            name = f"__ph{counter[0]}"
            thunks[name] = lambda c=c: den_sigma(c, sigma, env)
            return p.Variable(name)
        shell = api.map_children(e, placeholder)
        return den(shell, _Lazy(env, thunks))
    if isinstance(e, tuple):
        return tuple(den_sigma(c, sigma, env) for c in e)
    if isinstance(e, list):
        return [den_sigma(c, sigma, env) for c in e]
    return den(e, env)


def unaffected(e, sigma):
    import pymbolic.primitives as p
    if isinstance(e, (p.Variable, p.Subscript, p.Lookup)) and key_hit(e, sigma)[0]:
        return False
    if isinstance(e, p.Expression):
        return all(unaffected(c, sigma) for c in api.children(e) if c is not None)
    if isinstance(e, (tuple, list)):
        return all(unaffected(c, sigma) for c in e)
    return True


def bounded(tier, seed, procs):
    import pymbolic.primitives as p
    from pymbolic.mapper.evaluator import EvaluationMapper
    from pymbolic.mapper.substitutor import CachedSubstitutionMapper, SubstitutionMapper, make_subst_func, substitute
    x, y, a = trees.X, trees.Y, trees.A
    a0 = p.Subscript(a, 0)
    af = p.Lookup(p.Variable("o"), "re")
    b = BoundedRun("subst-commutes", rule="all depth<=2 trees over the evaluable node classes with leaves {x, y, a[0], o.re, 2, -1} x substitution maps "
                   "over keys {'x', Variable x, Variable y, a[0], o.re} -> {y, x, x+1, 0, a[0]} (all four key forms, swaps, keys inside replacements, "
                   "whole-node keys vs keys inside them) x environment box: evaluate(substitute(e, s), env) == den_s(e, env); substitute via keyword "
                   "arguments; plain == cached; unaffected subtrees are the identical objects; the caller's dict is not modified; non-trivial = expression containing a key",
                   bound="depth <= 2, 14 maps, 9 environments", functions=["SubstitutionMapper.*", "make_subst_func", "substitute", "CachedSubstitutionMapper"])
    leaves = [x, y, a0, af, 2, -1]
    ex = list(leaves) + trees.depth1(trees.ARITH + trees.LOGIC + [p.Call, p.Subscript, p.Lookup, p.CommonSubexpression, p.CallWithKwargs], leaves[:5])
    _tr = trees.triples(trees.ARITH + [p.If, p.Comparison, p.Call, p.CallWithKwargs], [x, a0, y])
    ex += trees.thin(_tr, len(_tr) // 3, seed=1)
    ex += [p.Subscript(a, p.Sum((x, 0))), p.Subscript(p.Subscript(p.Variable("m"), x), y), p.Lookup(p.Subscript(p.Variable("objs"), x), "re"),
           p.Sum((a0, p.Product((x, a0)))), (x, a0), p.Call(trees.F, (a0, x))]
    ex = trees.dedup(ex)
    sigmas = [
        {"x": y}, {x: y}, {"x": y, "y": x}, {x: p.Sum((x, 1))}, {"x": p.Sum((y, 1)), "y": 0}, {a0: x}, {a0: p.Sum((x, 1)), "x": a0},
        {af: y}, {"o": p.Variable("o2")}, {"a": p.Variable("b")}, {a0: 7, "a": p.Variable("b")}, {"x": a0, a0: x}, {"z": 5}, {}, {"re": y, "x": 1}, {"f": p.Variable("g")},
    ]
    envs = []
    for vx, vy in itertools.product([-2, 0, 3], [1, Fraction(1, 2), -3]):
        envs.append({"x": vx, "y": vy, "a": [2 + vx, 3, 1, 2, 1, 0, 2, 3], "b": [1, 2, 3, 2, 1, 0, 1, 2], "o": 3 + 4j, "o2": 5 + 6j, "f": lambda *q, **k: sum(q) + sum(k.values()),
                     "m": [[1, 2, 3, 4], [5, 6, 7, 8], [1, 1, 1, 1], [2, 2, 2, 2]], "objs": [1 + 1j, 2 + 2j, 3 + 3j, 4 + 4j], "abs": abs,
                     "g": lambda *q, **k: 100 + sum(q) + sum(k.values())})
    if tier == "quick":
        envs = envs[::2]
    for sg in sigmas:
        for e in ex:
            hit = not unaffected(e, sg)
            before = dict(sg)
            rp = outcome.run(lambda: SubstitutionMapper(make_subst_func(sg))(e))
            rc = outcome.run(lambda: CachedSubstitutionMapper(make_subst_func(sg))(e)) if not _unhashable(e) else rp
            rs = outcome.run(lambda: substitute(e, sg)) if not _unhashable(e) else rp
            b.case((repr(e), repr(sg)), nontrivial=hit, sample=dict(expr=repr(e), sigma=repr(sg)))
            why = None
            if rp[0] != "val":
                why = f"plain mapper raised {outcome.describe(rp)}"
            elif rc[0] != "val" or not (rc[1] == rp[1]):
                why = f"cached result differs: {outcome.describe(rc)}"
            elif rs[0] != "val" or not (rs[1] == rp[1]):
                why = f"substitute() differs: {outcome.describe(rs)}"
            elif before != sg:
                why = "caller's assignment dict was modified"
            elif not hit and not (rp[1] is e or isinstance(e, list)):
                why = "unaffected expression did not come back as the identical object"
            elif hit and not _shares(rp[1], e, sg):
                why = "an unaffected subtree is not the identical object"
            if why is None:
                for env in envs:
                    real = outcome.run(lambda: EvaluationMapper(env)(rp[1]))
                    spec = outcome.run(lambda: den_sigma(e, sg, env))
                    if not outcome.equivalent(real, spec, None, typed=True):
                        why = f"value differs in env x={env['x']} y={env['y']}: {outcome.describe(real)} vs spec {outcome.describe(spec)}"
                        break
            if why:
                b.fail(Failure("subst-commutes", f"root={type(e).__name__} expr={e!r} sigma={sg!r} why={why}",
                               dict(kind="subst", expr=trees.src(e), sigma=repr(sg)), expected="evaluate(substitute(e, s)) == den_s(e)", actual=why,
                               functions=[f"SubstitutionMapper.{getattr(type(e), 'mapper_method', 'map_foreign')}", "make_subst_func"]))
    # keyword form and override order
    b2 = BoundedRun("substitute-kwargs", rule="substitute(e, assignments, **kw): keyword arguments override the dict, both consulted",
                    bound="fixed list", functions=["substitute"])
    for e, d, kw, want in [(p.Sum((x, y)), {"x": 1}, {"y": 2}, p.Sum((1, 2))), (p.Sum((x, y)), {"x": 1}, {"x": 5}, p.Sum((5, y))),
                           (p.Sum((x, y)), None, {"x": y, "y": x}, p.Sum((y, x))), (x, {}, {}, x)]:
        r = outcome.run(lambda: substitute(e, d, **kw))
        b2.case((repr(e), repr(d), repr(kw)), sample=dict(expr=repr(e), d=repr(d), kw=repr(kw)))
        if r != ("val", want):
            b2.fail(Failure("substitute-kwargs", f"expr={e!r} d={d!r} kw={kw!r}", dict(kind="subst-kw", expr=trees.src(e), d=repr(d), kw=repr(kw)),
                            expected=repr(want), actual=outcome.describe(r), functions=["substitute"]))
        # the documented parameters passed by name
        from pymbolic.mapper.substitutor import SubstitutionMapper as _SM
        for form, fn in (("map-by-name", lambda: substitute(e, variable_assignments=d, **kw)), ("both-by-name", lambda: substitute(expression=e, variable_assignments=d, **kw)),
                         ("mapper-by-name", lambda: substitute(e, d, mapper_cls=_SM, **kw)), ("all-by-name", lambda: substitute(expression=e, variable_assignments=d, mapper_cls=_SM, **kw))):
            r = outcome.run(fn)
            b2.case((form, repr(e), repr(d), repr(kw)))
            if r != ("val", want):
                b2.fail(Failure("substitute-kwargs", f"form={form} expr={e!r} d={d!r} kw={kw!r}", dict(kind="subst-kw-form", form=form, expr=trees.src(e), d=repr(d), kw=repr(kw)),
                                expected=repr(want), actual=outcome.describe(r)[:150], functions=["substitute"]))
    # call histories on one caller-owned dict: keyword assignments of one call must not leak into the dict or into the next call
    z = trees.Z
    e3 = p.Sum((x, p.Product((y, z))))
    for d0 in ({}, {"x": 1}, {"x": y}, {x: 2, "y": 3}):
        d = dict(d0)
        snapshot = dict(d)
        r1 = outcome.run(lambda: substitute(e3, d, z=p.Product((x, 2))))
        r2 = outcome.run(lambda: substitute(e3, d))
        r3 = outcome.run(lambda: substitute(e3, d, y=7))
        r4 = outcome.run(lambda: substitute(e3, d))
        fresh = outcome.run(lambda: substitute(e3, dict(d0)))
        b2.case(("history", repr(d0)), sample=dict(d=repr(d0)))
        ok = d == snapshot and r2 == fresh and r4 == fresh and r1[0] == "val" and r3[0] == "val" and (d0 or (r2[0] == "val" and r2[1] is e3))
        if not ok:
            b2.fail(Failure("substitute-kwargs", f"what=history d={d0!r} dict_after={d!r}", dict(kind="subst-hist", d=repr(d0)), expected="caller's dict unchanged; later calls see only the dict",
                            actual=f"dict={d!r} second={outcome.describe(r2)[:80]} fresh={outcome.describe(fresh)[:80]}", functions=["substitute"]))
    from props import c05 as P5
    return [b, b2, b_under_wrappers(tier), b_variable_subclasses(tier), P5.b_hooks(tier)]


_VSUB = []


def b_variable_subclasses(tier):
    """Nodes of Variable subclasses (the library's MultiVectorVariable, a user-declared subclass with an extra field): a replacement given by NAME (string key or keyword)
    reaches every variable node of that name, whatever its class, exactly as the environment of the evaluator does."""
    import pymbolic.primitives as p
    from pymbolic.geometric_algebra.primitives import MultiVectorVariable as MVV
    from pymbolic.mapper.evaluator import EvaluationMapper
    from pymbolic.mapper.substitutor import CachedSubstitutionMapper, SubstitutionMapper, make_subst_func, substitute
    if not _VSUB:
        @p.expr_dataclass()
        class TaggedVariable(p.Variable):
            tag: str = "t"
        _VSUB.append(TaggedVariable)
    TV = _VSUB[0]
    b = BoundedRun("variable-subclasses", rule="expressions over Variable, MultiVectorVariable and a user subclass of Variable (same names) x replacements keyed by name (dict with string keys, "
                   "keyword form, both mapper classes): evaluate(substitute(e, s), env) equals evaluate(e, env with each replaced name bound to the value of its replacement); "
                   "plain and memoizing mapper agree", bound="8 expressions x 5 maps x 4 call forms x 2 environments", functions=["substitute", "make_subst_func", "SubstitutionMapper.map_variable"])
    x, y = trees.X, trees.Y
    exprs = [p.Sum((MVV("x"), 1)), p.Sum((p.Product((MVV("x"), MVV("x"))), y)), p.Sum((x, MVV("x"))), p.Sum((p.Product((TV("x", "k"), 2)), x)), p.Sum((p.Power(MVV("y"), 2), MVV("x"))),
             p.Quotient(TV("y"), p.Sum((MVV("x"), 7))), MVV("x"), p.Call(trees.F, (MVV("x"), TV("y", "q"), x))]
    sigmas = [{"x": p.Sum((y, 1))}, {"x": 3, "y": x}, {"y": p.Product((x, x))}, {"x": MVV("y"), "y": TV("x")}, {"x": y}]
    envs_ = [dict(x=3, y=5, f=lambda *a: sum(k * (i + 2) for i, k in enumerate(a))), dict(x=Fraction(-1, 2), y=4, f=lambda *a: sum(k * (i + 2) for i, k in enumerate(a)))]
    for e in exprs:
        for sg in sigmas:
            forms = [("dict", lambda: substitute(e, dict(sg))), ("keywords", lambda: substitute(e, **sg)), ("plain-mapper", lambda: substitute(e, dict(sg), mapper_cls=SubstitutionMapper)),
                     ("direct", lambda: CachedSubstitutionMapper(make_subst_func(dict(sg)))(e))]
            for fname, fn in forms:
                r = outcome.run(fn)
                b.case((repr(e), repr(sg), fname), sample=dict(expr=repr(e)[:80], sigma=repr(sg)[:80], form=fname))
                why = None
                if r[0] != "val":
                    why = outcome.describe(r)[:150]
                else:
                    for env in envs_:
                        env2 = dict(env)
                        for k, v in sg.items():
                            env2[k] = EvaluationMapper(env)(v)
                        want = outcome.run(lambda: EvaluationMapper(env2)(e))
                        got = outcome.run(lambda: EvaluationMapper(env)(r[1]))
                        if not outcome.equivalent(got, want, None, typed=False):
                            why = f"value {outcome.describe(got)[:60]} vs {outcome.describe(want)[:60]} at x={env['x']}"
                            break
                if why:
                    b.fail(Failure("variable-subclasses", f"form={fname} expr={e!r} sigma={sg!r} why={why}"[:400], dict(kind="subst-vsub", expr=repr(e), sigma=repr(sg), form=fname),
                                   expected="the value in the updated environment", actual=why, functions=["substitute", "make_subst_func"]))
    return b


def ref_falsy(n):
    """The documented truth value 'is zero' of a node, written independently: a literal zero; a product with a literal-zero factor
    (recursively); a quotient / floor division / remainder whose numerator is zero; a one-operand sum of a zero."""
    import pymbolic.primitives as p
    if not isinstance(n, p.Expression):
        return (not isinstance(n, (tuple, list, str))) and n == 0
    if isinstance(n, p.Product):
        return any(ref_falsy(c) for c in n.children)
    if isinstance(n, (p.Quotient, p.FloorDiv, p.Remainder)):
        return ref_falsy(n.numerator)
    if isinstance(n, p.Sum) and len(n.children) == 1:
        return ref_falsy(n.children[0])
    return False


def b_under_wrappers(tier):
    """Substitution below common-subexpression wrappers, with replacements that are zero / falsy."""
    import pymbolic.primitives as p
    from pymbolic.mapper.evaluator import EvaluationMapper
    from pymbolic.mapper.substitutor import SubstitutionMapper, make_subst_func, substitute
    b = BoundedRun("substitute-under-wrappers", rule="wrappers around powers, products, quotients, sums, calls and comparisons (alone, nested in a sum, wrapper in wrapper) x replacements "
                   "{0, 0.0, False, 1, y} for x, for y and for both x environments in which the exponent / denominator / other factor is 0, 2, -1, 1/2: "
                   "evaluate(substitute(e, s), env) has the outcome of evaluating e in the re-bound environment (value or error class); plain mapper == substitute()",
                   bound="18 shapes x 11 maps x 12 environments", functions=["SubstitutionMapper.map_common_subexpression", "IdentityMapper.map_common_subexpression", "is_zero"])
    x, y, n = trees.X, trees.Y, p.Variable("n")
    C = p.CommonSubexpression
    inner = [p.Power(x, n), p.Power(x, y), p.Power(n, x), p.Product((x, y)), p.Product((y, x, n)), p.Quotient(x, y), p.Quotient(y, x), p.FloorDiv(x, n), p.Remainder(x, n),
             p.Sum((x, y)), p.Sum((x,)), p.Call(trees.F, (x,)), p.Comparison(x, "<", y), p.If(p.Comparison(x, "==", 0), y, n)]
    shapes = [C(i) for i in inner] + [p.Sum((C(inner[0]), 1)), p.Product((2, C(inner[3]))), C(C(inner[0]), "outer"), C(inner[5], "q")]
    sigmas = [{"x": 0}, {x: 0}, {"x": 0.0}, {"x": False}, {"x": 1}, {"x": y}, {"y": 0}, {"x": 0, "y": 0}, {"n": 0}, {"x": 0, "n": 0}, {"x": p.Sum((y, -1))}]
    envs = [dict(x=vx, y=vy, n=vn, f=lambda t: t + 5) for vx in (3,) for vy, vn in itertools.product((0, 2, -1, Fraction(1, 2)), (0, 2, -1))]
    for e in shapes:
        for sg in sigmas:
            rp = outcome.run(lambda: SubstitutionMapper(make_subst_func(sg))(e))
            rs = outcome.run(lambda: substitute(e, sg))
            b.case((repr(e), repr(sg)), sample=dict(expr=repr(e), sigma=repr(sg)))
            why, cause = None, ""
            if rp[0] != "val" or rs[0] != "val" or not (rs[1] == rp[1]):
                why = f"plain {outcome.describe(rp)[:80]} / substitute {outcome.describe(rs)[:80]}"
            else:
                # the region of known finding C04-identity-cse-zero: a wrapper whose substituted child is zero by the reference truth value
                def wrapped_children(t):
                    if isinstance(t, p.CommonSubexpression):
                        yield t.child
                    if isinstance(t, p.Expression):
                        for c in api.children(t):
                            yield from wrapped_children(c)
                subst_children = [SubstitutionMapper(make_subst_func(sg))(c) for c in wrapped_children(e)]
                if any(ref_falsy(c) for c in subst_children):
                    cause = "cause=wrapper-of-zero-child "
                for env in envs:
                    real = outcome.run(lambda: EvaluationMapper(env)(rp[1]))
                    spec = outcome.run(lambda: den_sigma(e, sg, env))
                    if not outcome.equivalent(real, spec, None, typed=False):
                        why = f"value differs at y={env['y']} n={env['n']}: {outcome.describe(real)[:60]} vs spec {outcome.describe(spec)[:60]}"
                        break
            if why:
                b.fail(Failure("substitute-under-wrappers", f"{cause}expr={e!r} sigma={sg!r} why={why}", dict(kind="subst-wrap", expr=trees.src(e), sigma=repr(sg)),
                               expected="evaluate(substitute(e, s)) == den_s(e)", actual=why, functions=["IdentityMapper.map_common_subexpression", "SubstitutionMapper"]))
    return b


def _shares(r, e, sg):
    import pymbolic.primitives as p
    if unaffected(e, sg):
        return r is e or isinstance(e, list) or not isinstance(e, (p.Expression, tuple))
    if isinstance(e, (p.Variable, p.Subscript, p.Lookup)) and key_hit(e, sg)[0]:
        return True
    if isinstance(e, p.Expression) and type(r) is type(e):
        cr, ce = api.children(r), api.children(e)
        if len(cr) == len(ce):
            return all(_shares(u, v, sg) for u, v in zip(cr, ce))
    if isinstance(e, tuple) and isinstance(r, tuple) and len(r) == len(e):
        return all(_shares(u, v, sg) for u, v in zip(r, e))
    return True


def _unhashable(e):
    try:
        hash(e)
        return False
    except TypeError:
        return True


def replay(case):
    runs = bounded("quick", 0, 1)
    return any(f.case == case for b in runs for f in b.failures)

"""C09  Dependency, node-count and flop analyses are exact."""
from __future__ import annotations

import itertools

from contracts import c09 as K
from harness import outcome, trees
from harness.runner import BoundedRun, Failure
from pyvc import api, verify

LEVEL = "proof"
SPECS = [K.Deps, K.Flops, K.DistinctNodes]
EXPLANATION = (
    "Every DependencyMapper.map_<K> (symbolic boolean flags, the three include_calls settings, with and without a "
    "pre-filled CSE cache) is proved equal to one unfolding of the specification Deps written from the property "
    "statement; every FlopCounterBase.map_<K> is proved equal to the independent flop count Flops; the CSE cache "
    "invariant, NodeCountMapper.post_visit, get_num_nodes and CSEAwareFlopCounter.map_common_subexpression are proved "
    "with object invariants / old-state postconditions. Bounded part: all flag combinations, cached and uncached, on "
    "enumerated trees.")
ASSUMPTIONS = [
    "sets are modelled as z3 sets over object identity (A-EQ: equal keys are identified)",
    "M-IND; dispatcher contract (C04); cache contract of CachedMapper (C05) for the cached variants",
    "get_num_nodes: assumed contract of CachedWalkMapper.__call__ (walk contract C04 + cache contract C05 => count = distinct nodes)",
]
TRUSTED_BASE = ["z3 array/set theory"]


def classes():
    return [k for k in verify.node_class_table() if k.__module__ == "pymbolic.primitives"]


def proof_jobs(tier):
    jobs = []
    for k in classes() + ["<constant>", "<list>", "<tuple>"]:
        for vn, v in K.DEPENDENCY.variants:
            if "cache" in vn and getattr(k, "__name__", "") != "CommonSubexpression":
                continue
            jobs.append(("mapperv", K.DEPENDENCY, (k, vn, v), None))
        jobs.append(("mapper", K.FLOPS, k, None))
    for fc in K.FUNCTIONS:
        jobs.append(("function", fc, None, None))
    return jobs


# ----------------------------------------------------------------------------- bounded
def subobjects(e, acc):
    import pymbolic.primitives as p
    try:
        acc.add((type(e), e))
    except TypeError:
        pass
    if isinstance(e, p.Expression):
        for c in api.children(e):
            if c is not None or not isinstance(e, p.Slice):
                subobjects(c, acc)
    elif isinstance(e, (list, tuple)):
        for c in e:
            subobjects(c, acc)
    return acc


def flops_cse(e, seen):
    import pymbolic.primitives as p
    if isinstance(e, p.CommonSubexpression):
        if e in seen:
            return 0
        seen.add(e)
        return flops_cse(e.child, seen)
    own = 0
    if isinstance(e, (p.Sum, p.Product)) and e.children:
        own = len(e.children) - 1
    elif isinstance(e, (p.Quotient, p.FloorDiv, p.Power)):
        own = 1
    if isinstance(e, p.Expression):
        return own + sum(flops_cse(c, seen) for c in api.children(e))
    return 0


def domain(tier):
    import pymbolic.primitives as p
    from immutabledict import immutabledict
    x, y, a, f = trees.X, trees.Y, trees.A, trees.F
    small = [x, y, 2, -1]
    ex = list(small) + trees.depth1(trees.ALL_EVAL + [p.Slice], small)
    ex += trees.nary(trees.ALL_EVAL, small[:3])
    ex += trees.triples(trees.ALL_EVAL, [x, 2, y])
    cse = p.CommonSubexpression(p.Sum((x, p.Product((y, 2)))))
    cse2 = p.CommonSubexpression(p.Sum((x, p.Product((y, 2)))))
    ex += [
        p.Subscript(a, (x, p.Subscript(p.Variable("b"), y))), p.Lookup(p.Subscript(a, x), "re"),
        p.Call(f, (p.Subscript(a, x), p.Call(p.Variable("g"), (y,)))),
        p.CallWithKwargs(f, (x,), immutabledict({"k": p.Subscript(a, y), "l": p.Call(p.Variable("g"), (p.Variable("w"),))})),
        p.Sum((cse, cse)), p.Product((cse, cse2, p.Power(cse, 2))), p.Sum((p.CommonSubexpression(cse, "outer"), cse2)),
        p.Subscript(a, (p.Slice((x, None)), p.Slice((None, y, 2)))), p.Sum((x, 4, 4.0)),
        p.Quotient(p.Sum((x, y, 1)), p.FloorDiv(x, p.Remainder(y, 2))), p.If(p.Comparison(x, "<", y), p.Sum((x, 1)), p.Product((y, y))),
        p.Min((x, p.Max((y, 2)))), p.NaN(), p.FunctionSymbol(), p.Sum(()), p.Product(()),
        p.Lookup(p.Call(f, (x,)), "attr"), p.Subscript(p.Lookup(p.Variable("o"), "arr"), x),
    ]
    # variables of Variable subclasses (the library's MultiVectorVariable; a user subclass with an extra field): variables like any other
    from pymbolic.geometric_algebra.primitives import MultiVectorVariable as MVV
    if not _VSUB:
        @p.expr_dataclass()
        class TaggedVariable(p.Variable):
            tag: str = "t"
        _VSUB.append(TaggedVariable)
    TV = _VSUB[0]
    ex += [MVV("v"), TV("u", "k"), p.Sum((x, MVV("v"))), p.Product((MVV("v"), p.Subscript(a, MVV("w")))), p.Call(f, (TV("u"), MVV("v"))), p.Power(MVV("x"), TV("y")),
           p.CommonSubexpression(p.Sum((MVV("v"), 1))), p.Lookup(MVV("v"), "re"), p.Quotient(TV("u", "k"), p.Sum((x, TV("u", "j"))))]
    # operands that are falsy as Python objects (Product/Quotient/Sum define __bool__): a product with a literal zero factor, a quotient with a zero numerator, a
    # one-term sum of such - in every operand position of every node type (a truthiness test standing in for "is not None" skips them)
    n, m = p.Variable("n"), p.Variable("m")
    falsy = [p.Product((0, n)), p.Quotient(0, m), p.Sum((p.Product((0, n)),))]
    ex += trees.depth1(trees.ALL_EVAL + [p.Slice], [falsy[0], falsy[1], x])
    ex += [p.Subscript(a, (p.Slice((falsy[0], m)),)), p.Subscript(a, (p.Slice((None, falsy[1], falsy[2])),)), p.Call(f, (p.Slice((falsy[2],)), falsy[0])),
           p.CommonSubexpression(falsy[0]), p.CommonSubexpression(p.Slice((falsy[1], None))), p.Lookup(falsy[1], "re"),
           p.CallWithKwargs(f, (), immutabledict({"k": p.Slice((falsy[0], None, falsy[1]))}))]
    return trees.dedup(ex)


_VSUB = []


def bounded(tier, seed, procs):
    import pymbolic.primitives as p
    from pymbolic.mapper.analysis import NodeCountMapper, get_num_nodes
    from pymbolic.mapper.dependency import CachedDependencyMapper, DependencyMapper
    from pymbolic.mapper.flop_counter import CSEAwareFlopCounter, FlopCounter
    from pymbolic.mapper.evaluator import evaluate
    bd = BoundedRun("deps", rule="DependencyMapper and CachedDependencyMapper under all 2*2*3*2 flag settings plus composite_leaves "
                    "True/False, fresh and reused instances, compared with the executable specification Deps; with all composite "
                    "kinds off the result must be the set of variables evaluation needs (evaluation in an environment with exactly those names succeeds); "
                    "non-trivial = expression with a composite node", bound="depth <= 2 trees x 28 settings",
                    functions=["DependencyMapper.*", "CachedDependencyMapper"])
    settings = []
    for s, l, c, z in itertools.product((True, False), (True, False), (True, False, "descend_args"), (True, False)):
        settings.append(dict(include_subscripts=s, include_lookups=l, include_calls=c, include_cses=z))
    for cl in (True, False):
        settings.append(dict(include_subscripts=False, include_lookups=True, include_calls="descend_args", include_cses=True, composite_leaves=cl))
    dom = domain(tier)
    for st in settings:
        eff = dict(st)
        if st.get("composite_leaves") is True:
            eff.update(include_subscripts=True, include_lookups=True, include_calls=True)
        if st.get("composite_leaves") is False:
            eff.update(include_subscripts=False, include_lookups=False, include_calls=False)
        for cls in (DependencyMapper, CachedDependencyMapper):
            shared = cls(**st)
            for e in dom:
                if cls is CachedDependencyMapper and _unhashable(e):
                    continue
                spec = outcome.run(lambda: K.Deps(e, eff["include_subscripts"], eff["include_lookups"], eff["include_calls"], eff["include_cses"]))
                for inst_name, inst in (("fresh", cls(**st)), ("reused", shared)):
                    real = outcome.run(lambda: inst(e))
                    bd.case((repr(e), repr(st), cls.__name__, inst_name), nontrivial=isinstance(e, p.Expression) and not isinstance(e, p.Variable),
                            sample=dict(expr=repr(e), flags=repr(st), mapper=cls.__name__))
                    ok = outcome.equivalent(real, spec, typed=False) if not (real[0] == "exc" and spec[0] == "val") else False
                    if real[0] == "exc" and issubclass(real[1], (NotImplementedError, ValueError)) and isinstance(e, (p.Slice,)) is False and spec[0] == "val":
                        ok = type(e) in (p.Derivative, p.Substitution)
                    if not ok:
                        bd.fail(Failure("deps", f"mapper={cls.__name__} inst={inst_name} flags={st} root={type(e).__name__} expr={e!r}",
                                        dict(kind="deps", expr=trees.src(e), flags=repr(st), mapper=cls.__name__, inst=inst_name),
                                        expected=outcome.describe(spec), actual=outcome.describe(real),
                                        functions=[f"DependencyMapper.{getattr(type(e), 'mapper_method', 'map_foreign')}"]))
    # relevance: evaluation needs exactly the variables reported with all composite kinds off
    br = BoundedRun("deps-relevance", rule="with all composite kinds off the reported variables are exactly those whose removal from the "
                    "environment makes evaluation raise the unknown-variable error, for expressions whose evaluation reads every operand",
                    bound="arithmetic depth <= 2 trees", functions=["DependencyMapper"])
    from pymbolic.mapper.evaluator import UnknownVariableError
    full = {"x": 3, "y": 5, "z": 7, "a": [1, 2, 3, 4, 5, 6, 7, 8], "f": lambda *a, **k: 1, "g": lambda *a, **k: 2, "w": 1, "b": [0] * 9,
            "o": 3 + 4j}
    for e in trees.depth1(trees.ARITH, [trees.X, trees.Y, 2]) + trees.triples(trees.ARITH, [trees.X, 2, trees.Y])[:400]:
        deps = DependencyMapper(composite_leaves=False)(e)
        names = {d.name for d in deps}
        br.case(repr(e), sample=dict(expr=repr(e), deps=sorted(names)))
        for n in ("x", "y", "z"):
            env = {k: v for k, v in full.items() if k != n}
            r = outcome.with_alarm(2, lambda: outcome.run(lambda: evaluate(e, env)), default=("val", None))
            needs = r[0] == "exc" and r[1] is UnknownVariableError
            if needs and n not in names:
                br.fail(Failure("deps-relevance", f"expr={e!r} missing={n}", dict(kind="deps-rel", expr=trees.src(e), name=n),
                                expected=f"{n} reported", actual=f"deps={sorted(names)}", functions=["DependencyMapper"]))
            if (n in names) and not _occurs(e, n):
                br.fail(Failure("deps-relevance", f"expr={e!r} spurious={n}", dict(kind="deps-rel", expr=trees.src(e), name=n),
                                expected=f"{n} absent", actual=f"deps={sorted(names)}", functions=["DependencyMapper"]))
    # node counts and flops
    bn = BoundedRun("counts", rule="get_num_nodes / NodeCountMapper vs number of distinct (type, subexpression) pairs; FlopCounter vs the "
                    "independent count Flops; CSEAwareFlopCounter vs a count that takes each distinct wrapper once; non-trivial = shared subterms",
                    bound="depth <= 2 trees + shared-CSE forms", functions=["NodeCountMapper", "get_num_nodes", "FlopCounter", "CSEAwareFlopCounter"])
    for e in dom:
        if _unhashable(e) or not isinstance(e, p.Expression):
            continue
        exp_nodes = len(subobjects(e, set()))
        r1 = outcome.run(lambda: get_num_nodes(e))
        bn.case(("nodes", repr(e)), nontrivial=True, sample=dict(expr=repr(e), nodes=exp_nodes))
        handled = not (r1[0] == "exc")
        if handled and r1 != ("val", exp_nodes):
            bn.fail(Failure("counts", f"what=nodes root={type(e).__name__} expr={e!r}", dict(kind="nodes", expr=trees.src(e)),
                            expected=exp_nodes, actual=outcome.describe(r1), functions=["NodeCountMapper.post_visit", "get_num_nodes"]))
        if not _flop_fragment(e):
            continue
        exp_f = K.Flops(e)
        r2 = outcome.run(lambda: FlopCounter()(e))
        bn.case(("flops", repr(e)), nontrivial=True)
        if r2 != ("val", exp_f):
            bn.fail(Failure("counts", f"what=flops root={type(e).__name__} expr={e!r}", dict(kind="flops", expr=trees.src(e)),
                            expected=exp_f, actual=outcome.describe(r2), functions=[f"FlopCounterBase.{type(e).mapper_method}"]))
        exp_c = flops_cse(e, set())
        r3 = outcome.run(lambda: CSEAwareFlopCounter()(e))
        bn.case(("cseflops", repr(e)), nontrivial="CommonSubexpression" in repr(e))
        if r3 != ("val", exp_c):
            bn.fail(Failure("counts", f"what=cseflops root={type(e).__name__} expr={e!r}", dict(kind="cseflops", expr=trees.src(e)),
                            expected=exp_c, actual=outcome.describe(r3), functions=["CSEAwareFlopCounter.map_common_subexpression"]))
    # large flat and blocked expressions (more distinct subexpressions than any plausible bound on a memo table), with nodes that recur late
    N = 150000 if tier == "thorough" else 70000
    vs_ = [p.Variable(f"v{i}") for i in range(N)]
    shared = p.Power(p.Sum((vs_[0], 1)), 2)
    big_flat = p.Sum((*vs_, vs_[0], vs_[1], shared, shared))
    blocks = p.Sum(tuple(p.Product((vs_[i], shared, p.Subscript(trees.A, vs_[i]))) for i in range(N // 4)))
    for label, e, want in (("flat", big_flat, N + 1 + 4), ("blocks", blocks, 1 + 3 * (N // 4) + 1 + 4)):      # + root; + Power, its Sum, the constants 1 and 2; + the aggregate
        r1 = outcome.run(lambda: get_num_nodes(e))
        bn.case(("nodes-large", label, N), nontrivial=True, sample=dict(shape=label, distinct_nodes=want))
        if r1 != ("val", want):
            bn.fail(Failure("counts", f"what=nodes-large shape={label} n={N}", dict(kind="nodes-large", shape=label, n=N), expected=want, actual=outcome.describe(r1)[:100],
                            functions=["NodeCountMapper.post_visit", "CachedMapper.__call__"]))
    # equal-but-distinct CSE objects
    def mk():
        return p.CommonSubexpression(p.Sum((trees.X, p.Product((trees.Y, 2)))))
    for e in [p.Sum((mk(), mk())), p.Product((mk(), p.Power(mk(), 2), mk())), p.Sum((p.CommonSubexpression(mk(), "o"), p.CommonSubexpression(mk(), "o")))]:
        exp_c = flops_cse(e, set())
        r3 = outcome.run(lambda: CSEAwareFlopCounter()(e))
        bn.case(("cseflops2", repr(e)), nontrivial=True)
        if r3 != ("val", exp_c):
            bn.fail(Failure("counts", f"what=cseflops-distinct-objects expr={e!r}", dict(kind="cseflops2", expr=trees.src(e)),
                            expected=exp_c, actual=outcome.describe(r3), functions=["CSEAwareFlopCounter.map_common_subexpression"]))
    # histories: the analyses are pure functions of the expression -- equal-but-differently-typed expressions queried one after the other,
    # the same expression queried repeatedly, one counter object reused
    x, y = trees.X, trees.Y
    twins = [(p.Sum((4, 4.0)), p.Sum((4, 4))), (p.Sum((x, 1, 1.0)), p.Sum((x, 1, 1))), (p.Product((x, True, 1)), p.Product((x, 1, 1))),
             (p.Quotient(p.Power(x, 2), p.Sum((y, 2))), p.Quotient(p.Power(x, 2.0), p.Sum((y, 2)))), (p.Sum((x, y)), p.Sum((x, y))), (p.Power(x, 2), p.Power(x, 2.0))]
    for u, v in twins:
        for order in ((u, v, u), (v, u, v)):
            got = outcome.run(lambda: [get_num_nodes(t) for t in order])
            want = [len(subobjects(t, set())) for t in order]
            bn.case(("nodes-history", repr(order)), nontrivial=True, sample=dict(history=[repr(t) for t in order]))
            if got != ("val", want):
                bn.fail(Failure("counts", f"what=nodes-history history={[repr(t) for t in order]}", dict(kind="nodes-hist", history=[trees.src(t) for t in order]),
                                expected=want, actual=outcome.describe(got), functions=["get_num_nodes", "NodeCountMapper"]))
    fc, cfc = FlopCounter(), CSEAwareFlopCounter()
    seq = [e for e in dom if isinstance(e, p.Expression) and not _unhashable(e) and _flop_fragment(e)][:40]
    for e in seq + seq[::-1]:
        r = outcome.run(lambda: fc(e))
        bn.case(("flops-reused", repr(e)))
        if r != ("val", K.Flops(e)):
            bn.fail(Failure("counts", f"what=flops-reused-counter expr={e!r}", dict(kind="flops-hist", expr=trees.src(e)), expected=K.Flops(e), actual=outcome.describe(r),
                            functions=["FlopCounterBase"]))
    # user collectors built on Collector / CachedMapper + Collector and rewritten by the mapper optimizer (every option set that is legitimate for a mapper without
    # extra arguments): the variables of the expression, as the specification with all composite kinds off
    from contracts import fixtures_opt as fx
    from pymbolic.mapper.optimize import optimize_mapper
    import warnings as _w
    bo = BoundedRun("optimized-collectors", rule="optimize_mapper under its 32 option sets applied to a user variable collector (plain and memoizing): on the domain, the names of "
                    "Deps(e) with all composite kinds off (function names of calls included, as the collector visits them)", bound="2 collectors x 32 option sets x 60 expressions",
                    functions=["Collector.combine", "CombineMapper.map_*", "optimize_mapper"])
    sample = [e for e in trees.thin(dom, 60, seed=9) if isinstance(e, p.Expression) and not _unhashable(e)]
    for cls in (fx.PlainVarCollector, fx.CachedPlainVarCollector):
        for bits in itertools.product((False, True), repeat=5):
            o = dict(zip(["drop_args", "drop_kwargs", "inline_rec", "inline_cache", "inline_get_cache_key"], bits))
            if (o["inline_cache"] or o["inline_get_cache_key"]) and cls is fx.PlainVarCollector:
                continue
            with _w.catch_warnings():
                _w.simplefilter("ignore")
                made = outcome.run(lambda: optimize_mapper(**o)(cls))
            if made[0] != "val":
                bo.case(("make", cls.__name__, bits))
                bo.fail(Failure("optimized-collectors", f"what=build subject={cls.__name__} options={o}", dict(kind="optcoll-build", subject=cls.__name__, options=o), expected="a class", actual=outcome.describe(made)[:150],
                                functions=["optimize_mapper"]))
                continue
            for e in sample:
                want = outcome.run(lambda: cls()(e))
                got = outcome.run(lambda: made[1]()(e))
                bo.case((cls.__name__, bits, repr(e)), nontrivial=any(bits))
                if got != want:
                    bo.fail(Failure("optimized-collectors", f"what=differs subject={cls.__name__} options={o} expr={e!r}"[:400], dict(kind="optcoll", subject=cls.__name__, options=o, expr=repr(e)),
                                    expected=outcome.describe(want)[:100], actual=outcome.describe(got)[:100], functions=["Collector.combine", "optimize_mapper"]))
                    break
    return [bd, br, bn, bo]


def _flop_fragment(e):
    import pymbolic.primitives as p
    if isinstance(e, (p.Slice, p.Substitution, p.Derivative, p.NaN, p.FunctionSymbol, p.Wildcard, p.DotWildcard, p.StarWildcard)):
        return False
    if isinstance(e, p.Expression):
        return all(_flop_fragment(c) for c in api.children(e))
    return not isinstance(e, (list, tuple)) or all(_flop_fragment(c) for c in e)


def _occurs(e, name):
    import pymbolic.primitives as p
    if isinstance(e, p.Variable):
        return e.name == name
    if isinstance(e, p.Expression):
        return any(_occurs(c, name) for c in api.children(e))
    if isinstance(e, (list, tuple)):
        return any(_occurs(c, name) for c in e)
    return False


def _unhashable(e):
    try:
        hash(e)
        return False
    except TypeError:
        return True


def replay(case):
    runs = bounded("quick", 0, 1)
    return any(f.case == case for b in runs for f in b.failures)

"""C11  Algebraic rewrites preserve value and reach their normal forms."""
from __future__ import annotations

import itertools
from fractions import Fraction

from harness import outcome, trees
from harness.runner import BoundedRun, Failure

LEVEL = "exploration"
SPECS = []
EXPLANATION = (
    "Bounded stand-in for the property as a whole (never counted as proved): flatten, flattened_sum/product, both constant "
    "folders, TermCollector and distribute/expand run on enumerated pools (polynomial: all depth-2 Sum/Product/Power "
    "combinations incl. empty, singleton, zero and unit operands, powers of powers and of products; rational; every other "
    "node type around nested sums/products).  Value preservation is decided per instance by an exact rational-function "
    "normal form (cross-multiplied polynomial equality over the rationals) and by exact evaluation in three rational "
    "environments; normal-form clauses (flatness, neutral elements, at most one constant, no sum beneath product / integer "
    "power, pairwise distinct monomials) are predicates written from the statement.  Proved (z3): the worklist loops of "
    "flattened_sum and flattened_product for every input list -- loop invariant 'fold(done) + fold(queue) = fold(terms)' in "
    "an abstract commutative monoid (uninterpreted element values, folds instantiated without quantifiers), zero-valued "
    "factors tracked for the early 'return 0', result flat (no node of the flattened class, no neutral element, a node "
    "only with >= 2 children), termination by a size measure; ConstantFoldingMapperBase.fold for sums and products "
    "(partial correctness: value preserved for arbitrary rec / is_constant / evaluate obeying their contracts, no foldable "
    "element left among the non-constants); FlattenMapper.map_sum / map_product for every arity 0..3 and "
    "DistributeMapper.map_quotient preserve the value through those contracts.")
ASSUMPTIONS = ["definitions instantiated as assumptions in the loop proofs: an n-ary node denotes the fold over its children; is_zero(x) true => x denotes zero "
               "(A-RING, bounded-validated in C03); is_zero(x - 1) true => x denotes one; the statements proved are linear in uninterpreted monoid values, "
               "hence valid in (Q,+,0) and (Q,*,1)",
               "fold(): rec returns a term of equal value (induction hypothesis), evaluate returns None or a number of equal value, reduce(op, cs) denotes the "
               "monoid fold of cs; termination of fold() depends on rec and is not claimed",
               "TermCollector.split_term/map_sum (dict bookkeeping) and dist() (recursive closure) are bounded only",
               "real arithmetic mathematical; arity bound 3 for the FlattenMapper handlers"]
TRUSTED_BASE = ["z3 nonlinear real arithmetic", "own exact polynomial arithmetic (props.c11.Poly/RF) as the reference normal form"]


# ----------------------------------------------------------------------------- exact rational-function normal form
class Poly:
    """Polynomial over the rationals in arbitrary atoms: {monomial: coeff}, monomial = sorted tuple of (atom, exp>0)."""
    __slots__ = ("t",)

    def __init__(self, t=None):
        self.t = {m: c for m, c in (t or {}).items() if c != 0}

    @staticmethod
    def const(c):
        return Poly({(): Fraction(c)})

    @staticmethod
    def atom(a):
        return Poly({((a, 1),): Fraction(1)})

    def __add__(self, o):
        t = dict(self.t)
        for m, c in o.t.items():
            t[m] = t.get(m, 0) + c
        return Poly(t)

    def __neg__(self):
        return Poly({m: -c for m, c in self.t.items()})

    def __mul__(self, o):
        t = {}
        for m1, c1 in self.t.items():
            for m2, c2 in o.t.items():
                d = dict(m1)
                for a, e in m2:
                    d[a] = d.get(a, 0) + e
                m = tuple(sorted(d.items()))
                t[m] = t.get(m, 0) + c1 * c2
        return Poly(t)

    def __pow__(self, n):
        r = Poly.const(1)
        for _ in range(n):
            r = r * self
        return r

    def __eq__(self, o):
        return self.t == o.t

    def is_zero(self):
        return not self.t


class Undefined(Exception):
    pass


class NotFragment(Exception):
    """Not in the polynomial / rational fragment: only exact evaluation applies."""


class RF:
    __slots__ = ("n", "d")

    def __init__(self, n, d=None):
        self.n, self.d = n, d if d is not None else Poly.const(1)
        if self.d.is_zero():
            raise Undefined

    def __add__(self, o):
        return RF(self.n * o.d + o.n * self.d, self.d * o.d)

    def __mul__(self, o):
        return RF(self.n * o.n, self.d * o.d)

    def inv(self):
        return RF(self.d, self.n)

    def __pow__(self, k):
        if k >= 0:
            return RF(self.n ** k, self.d ** k)
        return self.inv() ** (-k)

    def __eq__(self, o):
        return self.n * o.d == o.n * self.d


def rf(e):
    """Exact rational-function normal form of an expression of the polynomial/rational fragment; everything else is an atom."""
    import pymbolic.primitives as p
    from pymbolic.rational import Rational
    if isinstance(e, bool):
        return RF(Poly.const(int(e)))
    if isinstance(e, (int, Fraction)):
        return RF(Poly.const(e))
    if isinstance(e, float):
        if e != e or e in (float("inf"), float("-inf")):
            raise Undefined
        return RF(Poly.const(Fraction(e)))
    if isinstance(e, Rational):
        return rf(e.numerator) * rf(e.denominator).inv()
    if isinstance(e, p.Sum):
        r = RF(Poly.const(0))
        for c in e.children:
            r = r + rf(c)
        return r
    if isinstance(e, p.Product):
        r = RF(Poly.const(1))
        for c in e.children:
            r = r * rf(c)
        return r
    if isinstance(e, p.Quotient):
        return rf(e.numerator) * rf(e.denominator).inv()
    if isinstance(e, p.Power) and isinstance(e.exponent, int) and not isinstance(e.exponent, bool):
        return rf(e.base) ** e.exponent
    if isinstance(e, p.CommonSubexpression):
        return rf(e.child)
    if isinstance(e, p.Variable):
        return RF(Poly.atom(e.name))
    raise NotFragment


# ----------------------------------------------------------------------------- exact evaluation (independent of the rewrites)
def ev(e, env):
    import pymbolic.primitives as p
    from pymbolic.rational import Rational
    if isinstance(e, p.Variable):
        return env[e.name]
    if not isinstance(e, (p.Expression, Rational)):
        return e
    if isinstance(e, Rational):
        return _div(ev(e.numerator, env), ev(e.denominator, env))
    if isinstance(e, p.Sum):
        r = 0
        for c in e.children:
            r = r + ev(c, env)
        return r
    if isinstance(e, p.Product):
        r = 1
        for c in e.children:
            r = r * ev(c, env)
        return r
    if isinstance(e, p.Quotient):
        return _div(ev(e.numerator, env), ev(e.denominator, env))
    if isinstance(e, p.FloorDiv):
        return ev(e.numerator, env) // ev(e.denominator, env)
    if isinstance(e, p.Remainder):
        return ev(e.numerator, env) % ev(e.denominator, env)
    if isinstance(e, p.Power):
        b, x = ev(e.base, env), ev(e.exponent, env)
        if isinstance(x, int) and x < 0:
            return Fraction(b) ** x
        if isinstance(x, Fraction) and x.denominator != 1:
            raise Undefined
        return b ** x
    if isinstance(e, p.Call):
        f = ev(e.function, env)
        return f(*[ev(c, env) for c in e.parameters])
    if isinstance(e, p.Subscript):
        return ev(e.aggregate, env)[ev(e.index, env)]
    if isinstance(e, p.Comparison):
        import operator
        ops = {"<": operator.lt, ">": operator.gt, "<=": operator.le, ">=": operator.ge, "==": operator.eq, "!=": operator.ne}
        return ops[e.operator](ev(e.left, env), ev(e.right, env))
    if isinstance(e, p.If):
        return ev(e.then, env) if ev(e.condition, env) else ev(e.else_, env)
    if isinstance(e, p.CommonSubexpression):
        return ev(e.child, env)
    if isinstance(e, p.Min):
        return min(ev(c, env) for c in e.children)
    if isinstance(e, p.Max):
        return max(ev(c, env) for c in e.children)
    if isinstance(e, p.LogicalAnd):
        return all(ev(c, env) for c in e.children)
    if isinstance(e, p.LogicalOr):
        return any(ev(c, env) for c in e.children)
    if isinstance(e, p.LogicalNot):
        return not ev(e.child, env)
    raise KeyError(type(e).__name__)


def _div(a, b):
    if isinstance(a, (int, Fraction)) and isinstance(b, (int, Fraction)):
        return Fraction(a) / Fraction(b)
    return a / b


def exact_eq(a, b):
    """Equality over exact arithmetic: a float where an exact rational was due is a violation."""
    ex = (int, Fraction)
    if isinstance(a, ex) and not isinstance(a, bool):
        return isinstance(b, ex) and not isinstance(b, bool) and a == b
    return type(a) is type(b) and a == b or (isinstance(a, bool) and a == b)


ENVS = [dict(x=Fraction(2, 3), y=Fraction(-5, 4), z=Fraction(7), f=lambda t: 3 * t + 1, a=[Fraction(11), Fraction(-2, 7), Fraction(5)]),
        dict(x=Fraction(-3), y=Fraction(1, 2), z=Fraction(-1, 9), f=lambda t: t * t - 2, a=[Fraction(1, 3), Fraction(4), Fraction(-6)]),
        dict(x=Fraction(5, 7), y=Fraction(3), z=Fraction(2, 11), f=lambda t: 1 - t, a=[Fraction(0), Fraction(1), Fraction(2)])]

for _i, _env in enumerate(ENVS):
    _env.update(hh=Fraction(3 + _i, 5), kk=Fraction(-7, 2 + _i), mm=Fraction(4 * _i - 3, 7))


# ----------------------------------------------------------------------------- normal-form predicates (from the property text)
def subnodes(e):
    import dataclasses
    import pymbolic.primitives as p
    yield e
    if isinstance(e, p.Expression) and dataclasses.is_dataclass(e):
        for f in dataclasses.fields(e):
            v = getattr(e, f.name)
            for c in (v if isinstance(v, tuple) else (v,)):
                if isinstance(c, p.Expression):
                    yield from subnodes(c)


def flat_violation(e):
    import pymbolic.primitives as p
    for n in subnodes(e):
        if isinstance(n, p.Sum):
            if any(isinstance(c, p.Sum) for c in n.children):
                return f"sum directly under a sum in {n}"
            if any(not isinstance(c, p.Expression) and c == 0 for c in n.children):
                return f"neutral 0 kept in {n}"
            if len(n.children) < 2:
                return f"degenerate sum {n!r}"
        if isinstance(n, p.Product):
            if any(isinstance(c, p.Product) for c in n.children):
                return f"product directly under a product in {n}"
            if any(not isinstance(c, p.Expression) and c == 1 for c in n.children):
                return f"neutral 1 kept in {n}"
            if len(n.children) < 2:
                return f"degenerate product {n!r}"
    return None


def fold_violation(e, commutative):
    import pymbolic.primitives as p
    for n in subnodes(e):
        if isinstance(n, p.Sum) or (commutative and isinstance(n, p.Product)):
            k = sum(1 for c in n.children if not isinstance(c, p.Expression))
            if k > 1:
                return f"{k} constant operands left in {n}"
    return None


def expand_violation(e):
    """No sum beneath a product or an integer power; like terms merged (pairwise distinct monomials, no zero term)."""
    import pymbolic.primitives as p
    for n in subnodes(e):
        if isinstance(n, p.Product) and any(isinstance(c, p.Sum) for c in n.children):
            return f"sum beneath a product: {n}"
        if isinstance(n, p.Power) and isinstance(n.exponent, int) and isinstance(n.base, p.Sum):
            return f"sum beneath an integer power: {n}"
    terms = e.children if isinstance(e, p.Sum) else (e,)
    seen = {}
    for t in terms:
        try:
            r = rf(t)
        except (Undefined, NotFragment):
            return None
        if len(r.n.t) > 1 or len(r.d.t) != 1:
            continue            # not a monomial term (e.g. a quotient by a sum): outside the polynomial clause
        if r.n.is_zero():
            if len(terms) > 1:
                return f"zero term {t} kept"
            continue
        (m, c), = r.n.t.items()
        (dm, dc), = r.d.t.items()
        key = (m, dm)
        if key in seen:
            return f"like terms not merged: {seen[key]} and {t}"
        seen[key] = t
    return None


def in_poly_fragment(e):
    import pymbolic.primitives as p
    for n in subnodes(e):
        if isinstance(n, (p.Sum, p.Product, p.Variable)):
            continue
        if isinstance(n, p.Power) and isinstance(n.exponent, int) and not isinstance(n.exponent, bool) and n.exponent >= 0:
            continue
        return False
    return True


# ----------------------------------------------------------------------------- generators
def poly_pool(tier):
    import pymbolic.primitives as p
    x, y, z = p.Variable("x"), p.Variable("y"), p.Variable("z")
    atoms = [x, y, 2, -3, 1, 0]
    l1 = []
    for u, v in itertools.product(atoms, repeat=2):
        l1 += [p.Sum((u, v)), p.Product((u, v))]
    for u in (x, y):
        for n in (0, 1, 2, 3):
            l1.append(p.Power(u, n))
    l1 += [p.Sum((x, y, z)), p.Product((x, y, z)), p.Sum((x, 3, y, -3)), p.Product((2, x, 3, y)), p.Sum((x, x)), p.Product((x, x)),
           p.Sum((x, 1)), p.Sum((x, y, 1)), p.Sum((p.Product((2, x)), p.Product((3, x)))), p.Sum((p.Product((x, y)), p.Product((y, x)))),
           p.Sum(()), p.Product(()), p.Sum((x,)), p.Product((y,)), p.Sum((3, -3)), p.Sum((2, 5)), p.Product((0, x)), p.Product((x, 0, y))]
    out = list(l1)
    sums = [e for e in l1 if isinstance(e, p.Sum)][:14] + [p.Sum((x, 1)), p.Sum((x, y)), p.Sum((x, y, 1)), p.Sum((3, -3))]
    prods = [e for e in l1 if isinstance(e, p.Product)][:10]
    base = sums + prods + [x, y, 2]
    for u, v in itertools.product(base if tier == "thorough" else trees.thin(base, (len(base) + 1) // 2, seed=1), base if tier == "thorough" else trees.thin(base, (len(base) + 2) // 3, seed=2)):
        out += [p.Sum((u, v)), p.Product((u, v))]
    for u in base:
        for n in (0, 1, 2, 3):
            out.append(p.Power(u, n))
        out.append(p.Product((x, u, y)))
        out.append(p.Sum((x, u, 1)))
        out.append(p.Product((u, u)))
    # powers of powers, powers of products, three-level nestings
    for u in sums[:6] + prods[:4]:
        for n, m in ((2, 2), (2, 3), (1, 2), (3, 1), (0, 2), (2, 0)):
            out.append(p.Power(p.Power(u, n), m))
        out.append(p.Product((u, p.Power(p.Power(u, 2), 2))))
        out.append(p.Sum((p.Power(u, 2), p.Product((-1, u, u)))))
        out.append(p.Product((x, p.Sum((3, -3)), u)))
        out.append(p.Product((p.Sum((u, 1)), p.Sum((u, -1)))))
    # bases that are not powers as written but expand to a pure power (x**2 + y - y, (x+1)*(x-1) + 1), raised to an integer power next to the like monomial
    for rb, m_ in ((p.Sum((p.Power(x, 2), y, p.Product((-1, y)))), 2), (p.Sum((p.Product((p.Sum((x, 1)), p.Sum((x, -1)))), 1)), 2), (p.Sum((p.Power(x, 3), 2, -2)), 3)):
        for n in (2, 3):
            out += [p.Sum((p.Power(rb, n), p.Power(x, m_ * n))), p.Sum((p.Power(rb, n), p.Product((-1, p.Power(x, m_ * n))))), p.Product((p.Power(rb, n), y))]
    # like terms written differently: a power of a power of a plain variable, split powers, against the plain monomial
    for n, m in ((2, 3), (3, 2), (2, 2), (1, 3), (2, 1), (0, 3), (3, 0)):
        out += [p.Sum((p.Power(p.Power(x, n), m), p.Product((-1, p.Power(x, n * m))))), p.Sum((p.Power(p.Power(x, n), m), p.Power(x, n * m), y)),
                p.Product((p.Power(p.Power(y, n), m), x)), p.Sum((p.Product((p.Power(x, n), p.Power(x, m))), p.Product((-1, p.Power(x, n + m)))))]
    return out


def rational_pool(tier):
    import pymbolic.primitives as p
    x, y = p.Variable("x"), p.Variable("y")
    out = []
    nums = [x, 1, 2, p.Sum((x, 1)), p.Product((2, y)), p.Sum((x, y))]
    dens = [y, 3, p.Sum((y, 2)), p.Product((x, y)), p.Power(y, 2)]
    for u, v in itertools.product(nums, dens):
        q = p.Quotient(u, v)
        out += [q, p.Sum((q, x)), p.Product((q, p.Sum((x, 1)))), p.Product((3, q)), p.Power(q, 2), p.Sum((q, q))]
    for u in nums:
        for n in (-1, -2):
            out.append(p.Power(u, n))
    return out


def generic_pool(tier):
    """Every node type for flatten / fold: arithmetic nested inside non-arithmetic nodes."""
    import pymbolic.primitives as p
    x, y, f, a = p.Variable("x"), p.Variable("y"), p.Variable("f"), p.Variable("a")
    inner = [p.Sum((x, p.Sum((y, 2)), 3)), p.Product((2, p.Product((x, 3)), y)), p.Sum((0, x)), p.Product((1, y)), p.Sum((1, 2)), p.Product((2, 3))]
    out = []
    for u in inner:
        out += [p.Call(f, (u,)), p.Subscript(a, p.Sum((1, p.Sum((0, 1))))), p.If(p.Comparison(u, "<", 5), u, x), p.Min((u, x)), p.Max((u, 7)),
                p.FloorDiv(p.Sum((7, p.Sum((8, 2)))), 3), p.Remainder(p.Sum((7, 10)), p.Sum((2, 3))), p.CommonSubexpression(u),
                p.LogicalAnd((p.Comparison(u, ">", 0), p.Comparison(x, "<", 1))), p.LogicalNot(p.Comparison(u, "==", u)), p.Power(u, y), p.Power(2, u),
                p.Quotient(u, 7), p.Quotient(1, u), p.Sum((u, p.Call(f, (u,))))]
    return out


def div_one_pool(tier):
    """Divisions by one (written as 1, 1*1, True, 1.0): x/1 is x, but x//1 is floor(x) and x%1 its fractional part (flatten / fold only: floor divisions
    as terms of a sum are outside the term collector's fragment)."""
    import pymbolic.primitives as p
    x, y = p.Variable("x"), p.Variable("y")
    out = []
    for den in (1, p.Product((1, 1)), True, 1.0, p.Sum((0, 1))):
        for num in (x, p.Quotient(x, 2), p.Sum((x, p.Sum((y, 1)))), p.Product((x, p.Product((y, 3))))):
            out += [p.FloorDiv(num, den), p.Remainder(num, den), p.Quotient(num, den), p.Sum((p.FloorDiv(num, den), 1)), p.Product((2, p.Remainder(num, den)))]
    return out


def zero_power_pool(tier):
    """Powers whose base is zero-valued (the constant 0, a product with a zero factor) with exponent 0, 1, 2 -- 0**0 is 1 -- as terms of sums and factors of products:
    the truth value of such a node decides whether flattened_sum / flattened_product drop it."""
    import pymbolic.primitives as p
    x, y = p.Variable("x"), p.Variable("y")
    out = []
    for zb in (0, p.Product((0, y)), p.Product((y, 0, x)), p.Sum((0,))):
        for k in (0, 1, 2):
            pw = p.Power(zb, k)
            out += [pw, p.Sum((x, pw)), p.Sum((pw, x)), p.Product((y, pw)), p.Product((pw, y)), p.Sum((x, 2, pw)), p.Product((p.Sum((y, 1)), pw)), p.Sum((p.Product((2, pw)), x)),
                    p.Power(p.Sum((x, pw)), 2), p.Product((p.Sum((x, pw)), p.Sum((y, pw))))]
    return out


def collapse_pool(tier):
    """Children that become a sum (product) only by being folded: a product (sum) with neutral constants around a sum (product), built
    with the constructors (the operators drop the neutral elements), at one and two levels, inside sums and products with constants."""
    import pymbolic.primitives as p
    x, y = p.Variable("x"), p.Variable("y")
    sums = [p.Sum((x, 2)), p.Sum((2, x, 3)), p.Sum((y, -1, x))]
    prods = [p.Product((2, x)), p.Product((x, 3, y)), p.Product((-1, y))]
    to_sum = [p.Product((1, s_)) for s_ in sums] + [p.Product((s_, 1)) for s_ in sums] + [p.Product((1, p.Product((1, s_)))) for s_ in sums[:2]] + [p.Power(s_, 1) for s_ in sums[:2]]
    to_prod = [p.Sum((0, q)) for q in prods] + [p.Sum((q, 0)) for q in prods] + [p.Sum((0, p.Sum((0, q)))) for q in prods[:2]]
    out = []
    for c in (3, -2):
        for t in to_sum:
            out += [p.Sum((c, t)), p.Sum((t, c)), p.Sum((c, t, y)), p.Sum((x, t, c, t)), p.Product((c, p.Sum((1, t))))]
        for t in to_prod:
            out += [p.Product((c, t)), p.Product((t, c)), p.Product((c, t, y)), p.Product((x, t, c, t)), p.Sum((c, p.Product((2, t))))]
    return out


# ----------------------------------------------------------------------------- the bounded checks
def has_float(e):
    import pymbolic.primitives as p
    if isinstance(e, float):
        return True
    if isinstance(e, p.Expression):
        import dataclasses
        for f in dataclasses.fields(e):
            v = getattr(e, f.name)
            if any(has_float(c) for c in (v if isinstance(v, tuple) else (v,))):
                return True
    return False


def float_cause(e, res):
    """The known defect region: an inexact quotient of integer constants was folded to a float.  Tagged only when the
    result is numerically right (1e-9) in every sample environment; any other discrepancy stays untagged."""
    if has_float(e) or not has_float(res):
        return ""
    for env in ENVS:
        v = _try_ev(e, env)
        if v is None:
            continue
        w = outcome.run(lambda: ev(res, env))
        if w[0] != "val":
            return ""
        try:
            if abs(float(v[0]) - float(w[1])) > 1e-9 * (1 + abs(float(v[0]))):
                return ""
        except (TypeError, ValueError):
            return ""
    return " cause=exact-quotient-folded-to-float"


def check_value(b, name, e, r, fns, rational=True):
    """Value preservation: exact normal form (when in the rational fragment) and exact evaluation in the sample environments."""
    if r[0] != "val":
        try:
            defined = any(_try_ev(e, env) is not None for env in ENVS)
        except Exception:   # noqa: BLE001
            defined = True
        if defined:
            b.fail(Failure(b.name, f"what={name}-raised expr={e!r}", dict(kind=name, expr=repr(e)), expected="a rewritten expression", actual=outcome.describe(r)[:200], functions=fns))
        return False
    res = r[1]
    ok = True
    cause = float_cause(e, res)
    if rational and not cause:
        try:
            want = rf(e)
        except (Undefined, NotFragment):
            want = None
        if want is not None:
            try:
                got = rf(res)
                same = got == want
            except (Undefined, NotFragment):
                same = False
            if not same:
                b.fail(Failure(b.name, f"what={name}-normal-form-differs expr={e!r}", dict(kind=name, expr=repr(e)), expected="same rational function", actual=repr(res)[:200],
                               functions=fns))
                ok = False
    for i, env in enumerate(ENVS):
        v = _try_ev(e, env)
        if v is None:
            continue
        w = outcome.run(lambda: ev(res, env))
        if w[0] != "val" or not exact_eq(v[0], w[1]):
            b.fail(Failure(b.name, f"what={name}-value-differs{cause} expr={e!r} env={i}", dict(kind=name, expr=repr(e), env=i), expected=repr(v[0]), actual=outcome.describe(w)[:200],
                           functions=fns))
            ok = False
            break
    return ok


def _try_ev(e, env):
    try:
        return (ev(e, env),)
    except (ZeroDivisionError, Undefined, OverflowError):
        return None


def b_flatten(tier):
    import pymbolic.primitives as p
    from pymbolic.mapper.flattener import flatten
    b = BoundedRun("flatten", rule="flatten(e), flattened_sum(children), flattened_product(children) for every expression of the enumerated pools (polynomial pool: all "
                   "depth-2 Sum/Product/Power combinations over x, y, z and constants incl. empty, singleton, zero and unit operands; rational pool; every other node type "
                   "around nested sums/products): same exact rational function and same exact value in 3 rational environments; result has no sum directly under a sum, no "
                   "product under a product, no 0 in a sum, no 1 in a product; does not raise", bound="depth <= 3, ~2500 expressions (thorough) / ~900 (quick)",
                   functions=["flatten", "FlattenMapper.map_sum", "FlattenMapper.map_product", "flattened_sum", "flattened_product"])
    for e in poly_pool(tier) + rational_pool(tier) + generic_pool(tier) + zero_power_pool(tier) + div_one_pool(tier):
        r = outcome.run(lambda: flatten(e))
        b.case(("flatten", repr(e)), sample=dict(expr=repr(e)))
        if check_value(b, "flatten", e, r, ["flatten"]):
            v = flat_violation(r[1])
            if v:
                b.fail(Failure("flatten", f"what=flatten-not-flat expr={e!r}", dict(kind="flatten", expr=repr(e)), expected="flat", actual=v[:200], functions=["FlattenMapper", "flattened_sum"]))
        if isinstance(e, (p.Sum, p.Product)):
            fn = p.flattened_sum if isinstance(e, p.Sum) else p.flattened_product
            r2 = outcome.run(lambda: fn(e.children))
            b.case((fn.__name__, repr(e)))
            if check_value(b, fn.__name__, e, r2, [fn.__name__]):
                top = r2[1]
                k = p.Sum if isinstance(e, p.Sum) else p.Product
                if isinstance(top, k) and (any(isinstance(c, k) for c in top.children) or len(top.children) < 2
                                           or any(not isinstance(c, p.Expression) and c == (0 if k is p.Sum else 1) for c in top.children)):
                    b.fail(Failure("flatten", f"what={fn.__name__}-not-flat expr={e!r}", dict(kind=fn.__name__, expr=repr(e)), expected="flat top level", actual=repr(top)[:200],
                                   functions=[fn.__name__]))
    return b


def b_fold(tier):
    from pymbolic.mapper.constant_folder import CommutativeConstantFoldingMapper, ConstantFoldingMapper
    b = BoundedRun("constant-folding", rule="ConstantFoldingMapper()(e) and CommutativeConstantFoldingMapper()(e) on the same pools: same exact rational function, same exact "
                   "value in 3 environments (an exact rational never becomes a float), at most one constant operand left in every folded sum (and product for the commutative "
                   "variant), does not raise", bound="as flatten", functions=["ConstantFoldingMapperBase.fold", "ConstantFoldingMapper", "CommutativeConstantFoldingMapper"])
    for e in poly_pool(tier) + rational_pool(tier) + generic_pool(tier) + collapse_pool(tier) + zero_power_pool(tier) + div_one_pool(tier):
        for comm, M in ((False, ConstantFoldingMapper), (True, CommutativeConstantFoldingMapper)):
            r = outcome.run(lambda: M()(e))
            b.case((M.__name__, repr(e)), sample=dict(mapper=M.__name__, expr=repr(e)))
            name = "cfold" if comm else "fold"
            if check_value(b, name, e, r, [M.__name__, "ConstantFoldingMapperBase.fold"]):
                v = fold_violation(r[1], comm)
                if v:
                    b.fail(Failure("constant-folding", f"what={name}-constants-left expr={e!r}", dict(kind=name, expr=repr(e)), expected="<= 1 constant operand", actual=v[:200],
                                   functions=["ConstantFoldingMapperBase.fold"]))
    return b


def b_collect(tier):
    import pymbolic.primitives as p
    from pymbolic.mapper.collector import TermCollector
    b = BoundedRun("term-collection", rule="TermCollector()(e) and TermCollector({y})(e) for every sum of expanded multiplicative terms (products of powers of x, y, z with "
                   "integer coefficients, in every operand order): same rational function, same exact values, like terms merged", bound="~600 sums",
                   functions=["TermCollector.split_term", "TermCollector.map_sum"])
    x, y, z = p.Variable("x"), p.Variable("y"), p.Variable("z")
    terms = [x, y, 2, p.Product((2, x)), p.Product((x, 3)), p.Product((x, y)), p.Product((y, x)), p.Power(x, 2), p.Product((x, x)), p.Product((3, p.Power(x, 2))),
             p.Product((p.Power(x, 2), y)), p.Product((y, p.Power(x, 2), -1)), p.Product((x, y, z)), p.Product((z, y, x)), p.Power(y, 3), -5]
    for k in (1, 2, 3):
        for ts in itertools.combinations(terms, k) if k < 3 else itertools.islice(itertools.combinations(terms, 3), 0, 400 if tier == "thorough" else 150):
            e = p.Sum(tuple(ts))
            for params in (None, {y}):
                r = outcome.run(lambda: TermCollector(params)(e))
                b.case(("collect", repr(e), params is None), sample=dict(expr=repr(e)))
                if check_value(b, "collect", e, r, ["TermCollector"]):
                    if params is None:
                        v = expand_violation(r[1])
                        if v and "like terms" in v:
                            b.fail(Failure("term-collection", f"what=collect-not-merged expr={e!r}", dict(kind="collect", expr=repr(e)), expected="merged", actual=v[:200],
                                           functions=["TermCollector.map_sum"]))
    return b


def b_expand(tier):
    from pymbolic.mapper.distributor import DistributeMapper, distribute
    b = BoundedRun("expand", rule="distribute(e) (= pymbolic.expand) on the polynomial and rational pools: same rational function, same exact values, does not raise; for "
                   "polynomial inputs (sums, products, non-negative integer powers of variables and constants): no sum beneath a product or integer power, pairwise distinct "
                   "monomials (=> polynomials equal as functions expand to equal term multisets); also commutative=False", bound="as flatten (polynomial + rational pools)",
                   functions=["DistributeMapper.map_sum/map_product/map_power/map_quotient", "distribute", "TermCollector", "CommutativeConstantFoldingMapper"])
    # polynomials equal as functions expand to sums with equal term multisets (terms compared up to the order of their factors)
    import pymbolic.primitives as p

    def tkey(t):
        if isinstance(t, p.Product):
            return ("P", tuple(sorted(repr(tkey(c)) for c in t.children)))
        if isinstance(t, p.Power):
            return ("W", repr(tkey(t.base)), repr(t.exponent))
        return repr(t)

    def multiset(res):
        return tuple(sorted(repr(tkey(t)) for t in (res.children if isinstance(res, p.Sum) else (res,))))
    groups = {}
    for e in poly_pool(tier) + rational_pool(tier) + zero_power_pool(tier) + generic_pool(tier):
        r = outcome.run(lambda: distribute(e))
        b.case(("expand", repr(e)), sample=dict(expr=repr(e)))
        cause = _expand_cause(e)
        if r[0] == "val" and in_poly_fragment(e):
            try:
                q_ = rf(e)
                if len(q_.d.t) == 1 and list(q_.d.t) == [()]:       # a polynomial: constant denominator
                    dc = q_.d.t[()]
                    groups.setdefault(repr(sorted((m, c / dc) for m, c in q_.n.t.items())), []).append((e, r[1]))
            except (Undefined, NotFragment):
                pass
        if r[0] != "val":
            b.fail(Failure("expand", f"what=expand-raised{cause} expr={e!r}", dict(kind="expand", expr=repr(e)), expected="an expanded expression", actual=outcome.describe(r)[:200],
                           functions=["DistributeMapper"]))
            continue
        if check_value(b, "expand", e, r, ["DistributeMapper"]) and in_poly_fragment(e):
            v = expand_violation(r[1])
            if v:
                b.fail(Failure("expand", f"what=expand-not-normal{cause} expr={e!r}", dict(kind="expand", expr=repr(e)), expected="expanded normal form", actual=v[:200],
                               functions=["DistributeMapper", "TermCollector"]))
            else:
                # a normal form is a fixpoint: expanding the result again changes nothing
                rr = outcome.run(lambda: distribute(r[1]))
                b.case(("expand-twice", repr(e)))
                if rr[0] != "val" or multiset(rr[1]) != multiset(r[1]):
                    b.fail(Failure("expand", f"what=expand-not-a-fixpoint{cause} expr={e!r}", dict(kind="expand-twice", expr=repr(e)), expected=repr(r[1])[:150], actual=outcome.describe(rr)[:150],
                                   functions=["DistributeMapper", "TermCollector"]))
        r3 = outcome.run(lambda: DistributeMapper()(e))       # the mapper constructed directly, with its default collector and folder
        b.case(("expand-direct", repr(e)))
        if r3 != r:
            b.fail(Failure("expand", f"what=expand-direct-mapper-differs{cause} expr={e!r}", dict(kind="expand-direct", expr=repr(e)), expected=outcome.describe(r)[:150], actual=outcome.describe(r3)[:150],
                           functions=["DistributeMapper.__init__"]))
        r2 = outcome.run(lambda: distribute(e, commutative=False))
        b.case(("expand-nc", repr(e)))
        if r2[0] == "val":
            check_value(b, "expand-noncommutative", e, r2, ["DistributeMapper"])
        else:
            b.fail(Failure("expand", f"what=expand-noncommutative-raised{cause} expr={e!r}", dict(kind="expand-nc", expr=repr(e)), expected="an expression", actual=outcome.describe(r2)[:200],
                           functions=["DistributeMapper"]))
    for key, members in groups.items():
        if len(members) < 2:
            continue
        # results that are sums of >= 2 terms have been through the term collector; a result that is a single term has not
        forms, forms_single = {}, {}
        for e, res in members:
            is_sum = isinstance(res, p.Sum) and len(res.children) > 1
            (forms if is_sum else forms_single).setdefault(multiset(res), (e, res))
        b.case(("expand-equal-polynomials", key[:80]), nontrivial=True, sample=dict(inputs=len(members)))
        if len(forms) > 1 or (forms and forms_single):
            (e1, r1), (e2, r2) = (list(forms.values()) + list(forms_single.values()))[:2]
            b.fail(Failure("expand", f"what=equal-polynomials-expand-differently a={e1!r} b={e2!r}"[:400], dict(kind="expand-pair", a=repr(e1), b=repr(e2)), expected="equal term multisets",
                           actual=f"{r1!r} vs {r2!r}"[:250], functions=["DistributeMapper.map_product", "TermCollector"]))
        elif len(forms_single) > 1:
            (e1, r1), (e2, r2) = list(forms_single.values())[:2]
            b.fail(Failure("expand", f"cause=single-term-result-not-normalised what=equal-polynomials-expand-differently a={e1!r} b={e2!r}"[:400], dict(kind="expand-pair", a=repr(e1), b=repr(e2)),
                           expected="equal term multisets", actual=f"{r1!r} vs {r2!r}"[:250], functions=["DistributeMapper.map_product", "DistributeMapper.map_power"]))
    return b


def b_histories(tier):
    """The same checks after earlier calls of the same public functions with other options (parameters=...), on one process state."""
    import pymbolic.primitives as p
    from pymbolic.mapper.distributor import distribute
    from pymbolic.mapper.collector import TermCollector
    b = BoundedRun("expand-histories", rule="for polynomials over variables used by no other check: distribute(e, parameters=P) (P = {h}, {k}, {h,k}) then distribute(e); "
                   "TermCollector(P)(s) then TermCollector()(s) on the expanded form s; and the reverse orders; every result: same rational function, same exact values; every parameter-free "
                   "result of a polynomial: expanded normal form with like terms merged", bound="~150 polynomials x 3 parameter sets x 2 orders",
                   functions=["distribute", "DistributeMapper", "TermCollector.split_term", "TermCollector.map_sum"])
    h, k, m = p.Variable("hh"), p.Variable("kk"), p.Variable("mm")
    pool = []
    lin = [p.Sum((h, k)), p.Sum((h, 1)), p.Sum((k, m, 2)), p.Sum((p.Product((h, k)), m)), p.Sum((p.Product((2, h)), p.Product((-1, k))))]
    for u, v in itertools.product(lin, repeat=2):
        pool += [p.Product((u, v)), p.Sum((p.Product((u, v)), p.Product((h, m)))), p.Product((h, u, v))]
    for u in lin:
        pool += [p.Power(u, 2), p.Power(u, 3), p.Product((u, p.Power(u, 2))), p.Sum((p.Product((h, m)), p.Product((k, m)), p.Product((m, h)))),
                 p.Sum((p.Product((h, p.Power(m, 2))), p.Product((k, p.Power(m, 2))), p.Product((3, p.Power(m, 2))), u))]
    psets = [{h}, {k}, {h, k}]
    if tier != "thorough":
        pool = pool[::2]
    for i, e in enumerate(pool):
        P = psets[i % 3]
        order = ("params-first", "plain-first")[(i // 3) % 2]
        calls = [("params", lambda: distribute(e, parameters=set(P))), ("plain", lambda: distribute(e))]
        if order == "plain-first":
            calls.reverse()
        expanded = {}
        for which, f in calls + [("collect-params", lambda: TermCollector(set(P))(expanded["e"])), ("collect-plain", lambda: TermCollector()(expanded["e"])),
                                 ("plain-again", lambda: distribute(e))]:
            if which.startswith("collect") and "e" not in expanded:
                continue            # the term collector's fragment is a sum of multiplicative terms: it is applied to the expanded form
            r = outcome.run(f)
            if which == "plain" and r[0] == "val":
                expanded["e"] = r[1]
            b.case(("hist", i, order, which), sample=dict(expr=repr(e), parameters=sorted(map(str, P)), order=order, call=which))
            case = dict(kind="history", index=i, tier=tier)
            if r[0] != "val":
                b.fail(Failure("expand-histories", f"what=raised call={which} order={order} expr={e!r}", case, expected="an expression", actual=outcome.describe(r)[:200],
                               functions=["distribute", "TermCollector"]))
                continue
            if check_value(b, "expand-histories", e, r, ["distribute", "TermCollector"]) and which in ("plain", "plain-again"):
                v = expand_violation(r[1])
                if v:
                    b.fail(Failure("expand-histories", f"what=expand-not-normal-after-history call={which} order={order} parameters={sorted(map(str, P))} expr={e!r}", case,
                                   expected="expanded normal form", actual=v[:200], functions=["distribute", "TermCollector.split_term"]))
    return b


def _expand_cause(e):
    return ""


def bounded(tier, seed, procs):
    return [b_flatten(tier), b_fold(tier), b_collect(tier), b_expand(tier), b_histories(tier)]


def proof_jobs(tier):
    import pymbolic.primitives as p
    from contracts import c11 as K
    jobs = [("mapper", mc, getattr(p, k), K.hooks) for mc, k in K.MAPPER_JOBS]
    jobs += [("function", fc, None, K.fold_hooks) for fc in K.LOOP_FUNCTIONS]
    jobs += [("function", fc, None, None) for fc in K.FOLD_FUNCTIONS]
    return jobs


def replay(case):
    import pymbolic.primitives as p
    if case.get("kind") == "history":
        run = b_histories(case.get("tier", "quick"))
        hits = [f for f in run.failures if f.case.get("index") == case["index"]]
        return dict(outcome="; ".join(f.signature[:200] for f in hits) or "no failure in the history run") if hits else None
    ns = {n: getattr(p, n) for n in dir(p)}
    e = eval(case["expr"], ns)
    from pymbolic.mapper.flattener import flatten
    from pymbolic.mapper.constant_folder import CommutativeConstantFoldingMapper, ConstantFoldingMapper
    from pymbolic.mapper.collector import TermCollector
    from pymbolic.mapper.distributor import distribute
    fn = {"flatten": flatten, "fold": lambda t: ConstantFoldingMapper()(t), "cfold": lambda t: CommutativeConstantFoldingMapper()(t),
          "collect": lambda t: TermCollector()(t), "expand": distribute, "expand-nc": lambda t: distribute(t, commutative=False),
          "flattened_sum": lambda t: p.flattened_sum(t.children), "flattened_product": lambda t: p.flattened_product(t.children)}[case["kind"]]
    r = outcome.run(lambda: fn(e))
    return dict(outcome=outcome.describe(r)[:300])

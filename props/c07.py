"""C07  The parser reads the syntax it shares with Python the way Python does."""
from __future__ import annotations

import ast
import itertools
import random

from harness import outcome
from harness.runner import BoundedRun, Failure

LEVEL = "exploration"
SPECS = []
EXPLANATION = (
    "Bounded stand-in (the property's own quantifier is an exhaustive enumeration of skeletons): every ordered pair and "
    "triple of binary operators without parentheses, unary operators in every operand position, conditional expressions "
    "in every position, postfix forms (call, keyword call, subscript, attribute) against every operator, numeric "
    "literals, tuples and random parenthesised strings are parsed by pymbolic.parse and by Python; the pymbolic tree is "
    "evaluated (EvaluationMapper, proved in C02) over an exhaustive box of environments and compared with Python's eval "
    "of the same string, outcome for outcome (value and type, or error class); the AST importer applied to ast.parse of "
    "the string is compared the same way; malformed strings must raise the parser's ParseError.  Proved kernel (table "
    "obligations, z3): the parser's binding powers order the binary operators exactly as Python's grammar does, for every "
    "pair of operator classes, outside the listed known findings.")
ASSUMPTIONS = ["Python's own parser and eval are the reference (trusted)", "EvaluationMapper = den (C02)",
               "the Pratt loop itself (parse_expression / parse_postfix over a token iterator) is not under contract: strings are enumerated up to the stated bounds"]
TRUSTED_BASE = ["CPython ast.parse / eval"]

# ----------------------------------------------------------------------------- the shared grammar
BINOPS = ["+", "-", "*", "/", "//", "%", "**", "<<", ">>", "&", "^", "|", "<", "<=", ">", ">=", "==", "!=", "and", "or"]
CMP = {"<", "<=", ">", ">=", "==", "!="}
UNOPS = ["-", "+", "~", "not "]
# Python's binding powers (higher binds tighter); ** is right-associative, the rest left-associative; comparisons chain
PYPREC = {"or": 1, "and": 2, "not ": 3, "<": 4, "<=": 4, ">": 4, ">=": 4, "==": 4, "!=": 4, "|": 5, "^": 6, "&": 7, "<<": 8, ">>": 8,
          "+": 9, "-": 9, "*": 10, "/": 10, "//": 10, "%": 10, "u": 11, "**": 12}


def known_cause(s):
    """Name of the known-finding region a string falls into (decided on the token string alone, with Python's grammar as the
    reference): '' if none.  Only unparenthesised adjacency of the offending operators counts."""
    toks = tokens(s)
    causes = set()
    depth = 0
    flat = []       # tokens at the same nesting depth as their neighbours
    for t in toks:
        if t in "([":
            depth += 1
        elif t in ")]":
            depth -= 1
        flat.append((t, depth))
    ops = [(t, d, i) for i, (t, d) in enumerate(flat) if t in BINOPS or t in ("not", "~", "if", "else")]
    for (t1, d1, i1), (t2, d2, i2) in itertools.combinations(ops, 2):
        if d1 != d2:
            continue
        if any(d < d1 for _, d in flat[i1:i2]):
            continue
        if t1 == "not" and t2 in BINOPS and t2 not in ("and", "or"):
            causes.add("not-binds-tighter-than-python")
        if t1 in CMP and t2 in CMP:
            causes.add("chained-comparison")
    return "+".join(sorted(causes))


def has_unary_plus(s):
    toks = tokens(s)
    return any(t == "+" and (i == 0 or toks[i - 1] in BINOPS or toks[i - 1] in ("(", "[", ",", "not", "~", "-", "+", "if", "else", "=")) for i, t in enumerate(toks))


def tokens(s):
    import io
    import tokenize
    out = []
    for tk in tokenize.generate_tokens(io.StringIO(s).readline):
        if tk.type in (tokenize.NEWLINE, tokenize.ENDMARKER, tokenize.NL):
            continue
        out.append(tk.string)
    return out


VALS = [-2, 0, 1, 2]
NAMES = "abcde"


def envs(names, vals=VALS):
    for combo in itertools.product(vals, repeat=len(names)):
        yield dict(zip(names, combo))


class _F:
    """Functions / aggregates for the postfix forms."""

    @staticmethod
    def f(*a, **k):
        return sum(a) * 3 + sum((i + 2) * v for i, v in enumerate(k.values())) + 1


class _Obj:
    def __init__(self, v):
        self.x = v
        self.y = v + 5


class _BoolOps(ast.NodeTransformer):
    """pymbolic's LogicalAnd / LogicalOr nodes denote booleans (den, C02), Python's and / or return an operand: the reference
    wraps every BoolOp in bool() so that only grouping, associativity, operand order and short-circuiting are compared."""

    def visit_BoolOp(self, node):
        self.generic_visit(node)
        return ast.copy_location(ast.Call(ast.Name("__bool", ast.Load()), [node], []), node)


_CODE = {}


def py_code(s):
    if s not in _CODE:
        try:
            t = ast.fix_missing_locations(_BoolOps().visit(ast.parse(s, mode="eval")))
            _CODE[s] = compile(t, "<c07>", "eval")
        except SyntaxError:
            _CODE[s] = None
    return _CODE[s]


def py_eval(s, env):
    code = py_code(s)
    return outcome.run(lambda: eval(code, {"__builtins__": {}, "__bool": bool}, dict(env)))


def pm_eval(tree, env):
    from pymbolic.mapper.evaluator import EvaluationMapper
    return outcome.run(lambda: EvaluationMapper(dict(env))(tree))


def compare(b, s, names, fns, extra_env=None, vals=VALS, what="parse"):
    """parse(s) evaluated == eval(s) on the whole box; importer likewise.  Returns nothing; records failures."""
    import pymbolic
    from pymbolic.interop.ast import ASTToPymbolic
    from pytools.lex import ParseError
    if py_code(s) is None:
        return              # not a Python expression: outside the shared syntax
    cause = known_cause(s)
    if "j" in tokens(s)[-1:] or any(t[-1:] == "j" and t[:1].isdigit() for t in tokens(s)):
        cause = "+".join(filter(None, [cause, "imaginary-literal"]))
    tag = f" cause={cause}" if cause else ""
    r = outcome.run(lambda: pymbolic.parse(s))
    b.case((what, s), sample=dict(string=s))
    if r[0] != "val":
        b.fail(Failure(b.name, f"what=parse-raised{tag} string={s!r}", dict(kind="parse", string=s), expected="a tree", actual=outcome.describe(r)[:200], functions=["Parser"]))
        return
    tree = r[1]
    imp = outcome.run(lambda: ASTToPymbolic()(ast.parse(s, mode="eval").body))
    bad = bad_imp = None
    for env in envs(names, vals):
        if extra_env:
            env.update(extra_env)
        want = with_guard(lambda: py_eval(s, env))
        if want is None:
            continue
        got = with_guard(lambda: pm_eval(tree, env))
        if got is None or not outcome.equivalent(got, want):
            bad = bad or (env, want, got)
        if imp[0] == "val":
            got2 = with_guard(lambda: pm_eval(imp[1], env))
            if got2 is None or not outcome.equivalent(got2, want):
                bad_imp = bad_imp or (env, want, got2)
        if bad and (bad_imp or imp[0] != "val"):
            break
    if bad:
        env, want, got = bad
        show = {k: v for k, v in env.items() if k in names}
        if not tag and got and got[0] == "val" and want[0] == "val" and got[1] == want[1] and {type(got[1]), type(want[1])} == {bool, int} and has_unary_plus(s):
            tag = " cause=unary-plus-is-identity"
        b.fail(Failure(b.name, f"what=parse-value-differs{tag} string={s!r}", dict(kind="parse", string=s, env=repr(show)), expected=f"{outcome.describe(want)[:80]} at {show}",
                       actual=f"{outcome.describe(got)[:80] if got else 'timeout'}; tree {tree!r}"[:300], functions=fns))
    if imp[0] != "val":
        refused = imp[0] == "exc" and (issubclass(imp[1], NotImplementedError) or (issubclass(imp[1], ValueError) and "chained-comparison" in cause))
        if not refused:
            b.fail(Failure(b.name, f"what=importer-raised string={s!r}", dict(kind="import", string=s), expected="a tree or NotImplementedError", actual=outcome.describe(imp)[:200],
                           functions=["ASTToPymbolic"]))
        elif issubclass(imp[1], NotImplementedError):
            # the statement promises an equivalent tree for the whole shared syntax: a refusal is reported, tagged with the Python AST
            # node type the importer has no handler for (each listed gap is a known finding; any other refusal is a new violation)
            import re as _re
            mm = _re.search(r"'(\w+)'", " ".join(str(a) for a in imp[2]))
            if mm and mm.group(1) in ("List", "Set", "Dict", "Slice"):
                return      # list / set / dict displays and slices are not in the statement's list of shared syntax: refusing them is fine
            b.fail(Failure(b.name, f"what=importer-refused cause=importer-no-handler-{mm.group(1) if mm else 'unknown'} string={s!r}", dict(kind="import", string=s),
                           expected="an equivalent tree", actual=outcome.describe(imp)[:200], functions=["ASTToPymbolic"]))
    elif bad_imp:
        env, want, got = bad_imp
        show = {k: v for k, v in env.items() if k in names}
        itag = " cause=importer-invert-as-negation" if "~" in s else ""
        b.fail(Failure(b.name, f"what=importer-value-differs{itag} string={s!r}", dict(kind="import", string=s, env=repr(show)), expected=f"{outcome.describe(want)[:80]} at {show}",
                       actual=f"{outcome.describe(got)[:80] if got else 'timeout'}; tree {imp[1]!r}"[:300], functions=["ASTToPymbolic"]))


def with_guard(thunk):
    return outcome.with_alarm(2, thunk, default=None)


def b_skeletons(tier, seed):
    b = BoundedRun("operator-skeletons", rule="for every string 'a op1 b op2 c' (all 400 ordered pairs of the 20 binary operators), every 'a op1 b op2 c op3 d' (all 8000 triples "
                   "in the thorough tier; the 1000 triples over 10 representative operators in the quick tier), every unary operator in every operand position of every pair "
                   "skeleton over a reduced operator set and doubled unary operators: parse(s) evaluated over the exhaustive box {-2,0,1,2}^n equals Python's eval(s) outcome "
                   "for outcome (value and type or error class; evaluations that run > 2 s skipped); likewise for the AST importer (a NotImplementedError refusal is reported with the missing handler as its cause)",
                   bound="<= 3 binary operators, values in {-2,0,1,2}", functions=["Parser.parse_expression", "Parser.parse_postfix", "Parser.parse_prefix", "ASTToPymbolic"])
    fns = ["Parser.parse_postfix", "Parser.parse_prefix"]
    for o1, o2 in itertools.product(BINOPS, repeat=2):
        compare(b, f"a {o1} b {o2} c", "abc", fns)
    rep = ["+", "-", "*", "//", "%", "**", "<<", "&", "|", "<", "==", "and", "or", "^"]
    trip = BINOPS if tier == "thorough" else rep[:10]
    small = [-2, 1, 2]
    for o1, o2, o3 in itertools.product(trip, repeat=3):
        compare(b, f"a {o1} b {o2} c {o3} d", "abcd", fns, vals=small)
    for u in UNOPS:
        for o1 in BINOPS:
            compare(b, f"{u}a {o1} b", "ab", fns)
            compare(b, f"a {o1} {u}b", "ab", fns)
            for o2 in rep:
                compare(b, f"{u}a {o1} b {o2} c", "abc", fns, vals=small)
                compare(b, f"a {o1} {u}b {o2} c", "abc", fns, vals=small)
                compare(b, f"a {o1} b {o2} {u}c", "abc", fns, vals=small)
        for u2 in UNOPS:
            compare(b, f"{u}{u2}a", "a", fns)
            compare(b, f"{u}{u2}a ** b", "ab", fns)
    # numeric literals as operands (the trees are built with the node classes' own operators, which treat constants specially)
    for o1, o2 in itertools.product(BINOPS, repeat=2):
        for pos in range(3):
            ops = ["a", "b", "c"]
            ops[pos] = "7"
            compare(b, f"{ops[0]} {o1} {ops[1]} {o2} {ops[2]}", "".join(n for n in ops if n != "7"), fns, vals=small)
    for u in UNOPS:
        for o1 in BINOPS:
            compare(b, f"{u}(7 {o1} a)", "a", fns)
            compare(b, f"{u}(a {o1} 7)", "a", fns)
            compare(b, f"b - (7 {o1} a)", "ab", fns, vals=small)
            compare(b, f"b + {u}(0 {o1} a)", "ab", fns, vals=small)
    return b


def b_ternary_postfix(tier, seed):
    b = BoundedRun("conditionals-postfix-literals", rule="conditional expressions with every binary operator in the then / condition / else position, chains of two conditionals in "
                   "every nesting, conditionals as call arguments and keyword values; calls, keyword calls, subscripts (also tuple indices) and attribute access against "
                   "every binary and unary operator on either side; tuples (top level, parenthesised, nested, trailing comma, empty); numeric literals (ints, floats with and "
                   "without exponent or leading / trailing dot, imaginary) -- same comparison with Python's eval as above", bound="one postfix / conditional form per string, "
                   "values in {-2,0,1,2}", functions=["Parser.parse_postfix", "Parser.parse_arglist", "Parser.parse_terminal", "Parser.lex_table"])
    fns = ["Parser.parse_postfix", "Parser.parse_arglist"]
    rep = BINOPS
    for o in rep:
        compare(b, f"a {o} b if c else d", "abcd", fns)
        compare(b, f"a if b {o} c else d", "abcd", fns)
        compare(b, f"a if b else c {o} d", "abcd", fns)
    for s in ["a if b else c if d else e", "a if b if c else d else e", "(a if b else c) if d else e", "a if (b if c else d) else e", "a if b else (c if d else e)",
              "+(a and b)", "+(a < b)", "-(a < b)", "-a if b else c", "not a if b else c", "a if not b else c", "a if b else not c", "a if b else -c"]:
        compare(b, s, "abcde", fns, vals=[0, 1, 2])
    extra = dict(f=_F.f, o=_Obj(3), v=[5, 7, 11, 13, 17], m={(0, 1): 4, (1, 0): 9, (1, 1): 2, (0, 0): 6, 0: 21, 1: 22})
    posts = ["f(a)", "f(a, b)", "f(a, k=b)", "f(a, k=b, j=a)", "f()", "f(k=a)", "o.x", "o.y", "v[a]", "v[a + 1]", "m[a, b]", "f(a).real", "f(a if b else 1, 2)", "f(a, k=b if a else 2)",
             "f((a, b)[0])", "f(a)(b) if False else 3", "v[a] if b else o.x", "f(a, b,)", "f(f(a), f(b, k=a))", "o.x.real", "v[v[0] - 5 + a]"]
    for ps in posts:
        compare(b, ps, "ab", fns, extra_env=extra, vals=[0, 1])
        for o in BINOPS:
            compare(b, f"{ps} {o} b", "ab", fns, extra_env=extra, vals=[0, 1])
            compare(b, f"b {o} {ps}", "ab", fns, extra_env=extra, vals=[0, 1])
        for u in UNOPS:
            compare(b, f"{u}{ps}", "ab", fns, extra_env=extra, vals=[0, 1])
    for s in ["a, b", "(a, b)", "(a, b), c", "a, (b, c)", "((a, b), c)", "(a,)", "a,", "()", "(a, b,)", "((a, b),)", "(a), b", "(a, b), (c, a)", "((a, b), c), a", "f((a, b), c)",
              "f(((a, b), c))", "m[(a, b)]", "m[a, b] + 1", "(a + b, c * a)", "(a if b else c, a)", "a, b if c else a", "(), a", "((),)", "[a, b]", "[a]", "[]", "[a, b], c",
              "[(a, b), c]"]:
        compare(b, s, "abc", fns, extra_env=extra, vals=[0, 1])
    lits = ["0", "7", "123456789012345678901234567890", "1.5", "1.", ".5", "1e3", "1E3", "1e-3", "1.5e+2", "2j", "1.5j", "0.0", "1e0", "True", "False", "10 ** 2", "-3", "- 3", "+4",
            "1 + 2j", "3 % 2", "7 // 2", "7 / 2", "2 ** -1", "2 ** 0.5", "1.5 + 1", "1e2 // 3", "-2 ** 2", "(-2) ** 2", "2 ** 3 ** 2", "-2 ** -2", "~5", "~-5", "- -5", "not 0",
            "not 1", "1 < 2", "1 < 2 == True", "3 .real"]
    for s in lits:
        compare(b, s, "", fns)
    return b


def b_random(tier, seed):
    b = BoundedRun("random-strings", rule="seeded random strings of 4..8 operands with random operators, unary prefixes, random balanced parenthesisation and postfix forms: same "
                   "comparison", bound="1500 strings (thorough) / 400 (quick), values in {-2,1,2}", functions=["Parser"])
    b.exhaustive = False
    rng = random.Random(seed)
    n = 1500 if tier == "thorough" else 400

    def gen(depth):
        if depth == 0 or rng.random() < 0.25:
            t = rng.choice(["a", "b", "c", "d", "2", "3", "1"])
            if rng.random() < 0.2:
                t = rng.choice(UNOPS) + t
            return t
        k = rng.random()
        if k < 0.7:
            s = f"{gen(depth - 1)} {rng.choice(BINOPS)} {gen(depth - 1)}"
        elif k < 0.8:
            s = f"{gen(depth - 1)} if {gen(depth - 1)} else {gen(depth - 1)}"
        elif k < 0.9:
            s = f"{rng.choice(UNOPS)}{gen(depth - 1)}"
        else:
            s = f"f({gen(depth - 1)}, k={gen(depth - 1)})"
        if rng.random() < 0.3:
            s = f"({s})"
        return s
    for _ in range(n):
        s = gen(3)
        compare(b, s, "abcd", ["Parser"], extra_env=dict(f=_F.f), vals=[-2, 1, 2])
    return b


MALFORMED = ["a b", "a +", "+", "(a", "a)", "a + (b", "a + b)", "f(a", "f(a,, b)", "f(, a)", "a[", "a[b", "a]", "a if b", "a if b else", "a else b", "if a else b", "a . 3", "a.",
             "a * * b", "a // ", "a ** ", "not", "~", "a ! b", "a = b", "f(k=a, b)", "a $ b", "1 2", "a 1", "(a, b) c", "a (b) c d", "a + b c", "a[b] c", "a.b c", "f(a) b", "'x'",
             "a ? b", "a b + c", "(a))", "((a)", "[a", "a, b)", "f(a b)", "a and2", "a or1", "a if b else5", "not3 4", "a if4 else b", "f(x=1, x=2)"]


def b_malformed(tier):
    import pymbolic
    from pytools.lex import ParseError, InvalidTokenError
    b = BoundedRun("whole-input", rule="every malformed string of a fixed list (dangling operators, unbalanced delimiters, juxtaposed operands, misplaced commas, keyword before "
                   "positional argument, invalid characters, leftover tokens after a complete expression) must raise the lexer / parser error -- never return a tree for a prefix",
                   bound=f"{len(MALFORMED)} strings", functions=["Parser.__call__", "Parser.parse_expression"])
    for s in MALFORMED:
        r = outcome.run(lambda: pymbolic.parse(s))
        b.case(("bad", s), sample=dict(string=s))
        py = outcome.run(lambda: ast.parse(s, mode="eval"))
        if py[0] == "val":
            continue        # valid Python after all: not malformed (kept out of the judgement)
        if not (r[0] == "exc" and issubclass(r[1], (ParseError, InvalidTokenError))):
            b.fail(Failure("whole-input", f"what=malformed-accepted string={s!r}", dict(kind="bad", string=s), expected="ParseError", actual=outcome.describe(r)[:200],
                           functions=["Parser.__call__"]))
    return b


def b_identifiers(tier):
    """Names that start with, end with or contain a keyword / literal name: the lexer must keep them whole."""
    b = BoundedRun("identifier-lexing", rule="identifiers made of a keyword or constant name (and, or, not, if, else, True, False) followed or preceded by letters, digits or "
                   "underscores (not3, or1, and2, if4, else5, order, nothing, iffy, android, Truex, True1, Falsey, xor, band, elsewhere, notify, _if, if_, x_or_y) used as an "
                   "operand, in every binary / unary operator position, as a call argument, keyword name, attribute name and subscript: same value as Python's eval; strings that "
                   "juxtapose a keyword and a number without a space where Python rejects it must raise the parse error", bound="21 names x 12 contexts, 2 environments",
                   functions=["Parser.lex_table", "Parser.parse_terminal", "Parser.parse_arglist"])
    names = ["not3", "or1", "and2", "if4", "else5", "order", "nothing", "iffy", "android", "Truex", "True1", "Falsey", "xor", "band", "elsewhere", "notify", "_if", "if_", "x_or_y",
             "note", "a1"]
    fns = ["Parser.lex_table"]
    for i, nm in enumerate(names):
        extra = {nm: 5 + i, "f": _F.f, "o": type("O", (), {nm: 9 + i})(), "v": list(range(40))}
        ctxs = [f"{nm}", f"a + {nm}", f"{nm} * a", f"-{nm}", f"not {nm}", f"a and {nm}", f"{nm} or a", f"a if {nm} else b", f"{nm} if a else b", f"f({nm}, a)", f"f(a, {nm}={nm})",
                f"o.{nm}", f"v[{nm}]", f"{nm} < a", f"a ** {nm} % 7", f"({nm}, a)"]
        for s_ in ctxs:
            compare(b, s_, "ab", fns, extra_env=extra, vals=[0, 2])
    # names that are identifiers for Python but not ASCII
    import pymbolic
    import pymbolic.primitives as p
    for nm in ("é", "naïve", "αβ", "变量", "x_é1"):
        for s_, want in ((f"{nm} + 1", p.Sum((p.Variable(nm), 1))), (f"f({nm})", p.Call(p.Variable("f"), (p.Variable(nm),))), (f"a * {nm}", p.Product((p.Variable("a"), p.Variable(nm))))):
            assert nm.isidentifier()
            r = outcome.run(lambda: pymbolic.parse(s_))
            b.case(("non-ascii", s_), sample=dict(string=s_))
            if r != ("val", want):
                b.fail(Failure("identifier-lexing", f"cause=non-ascii-identifier string={s_!r}", dict(kind="ident-unicode", string=s_), expected=repr(want), actual=outcome.describe(r)[:150],
                               functions=["Parser.lex_table"]))
    return b


_CHILD = r"""
import json, os, sys, warnings
warnings.simplefilter("ignore")
repo = os.environ.get("VERIF_REPO")
if repo:
    sys.path.insert(0, repo)
import pymbolic
out = []
for s in json.load(sys.stdin):
    try:
        out.append(["val", repr(pymbolic.parse(s))])
    except Exception as e:
        out.append(["exc", type(e).__name__])
json.dump(out, sys.stdout)
"""


def b_optimised(tier):
    """The parser under `python -O` (assert statements stripped) reads every string as it does in a normal interpreter."""
    import json
    import os
    import subprocess
    import sys
    import pymbolic
    b = BoundedRun("optimised-interpreter", rule="every literal, constant name, conditional, postfix and tuple string of the fixed lists, all operator pair skeletons over a, True, False, 7 "
                   "and the malformed strings, parsed in a child interpreter started with -O: same tree (repr) or same error class as in this process",
                   bound="~700 strings", functions=["Parser.parse_terminal", "Parser.parse_prefix", "Parser.parse_postfix"])
    strs = ["True", "False", "a if True else b", "True if a else False", "not True", "True and False", "f(True, k=False)", "a[True]", "(True, False)", "True + 1", "-True",
            "a if b else c", "f(a, k=b)", "v[a + 1]", "o.x", "a, b", "(a,)", "()", "[a, b]", "1.5e+2", "2 ** 3 ** 2", "not a == b", "a < b"] + list(MALFORMED)
    for o1, o2 in itertools.product(BINOPS, repeat=2):
        strs += [f"a {o1} True {o2} 7", f"False {o1} a {o2} b"]
    r = subprocess.run([sys.executable, "-O", "-W", "ignore", "-c", _CHILD], input=json.dumps(strs), env=dict(os.environ), capture_output=True, text=True, timeout=300)
    if r.returncode != 0:
        b.case("child")
        b.fail(Failure("optimised-interpreter", "what=child-failed", dict(kind="opt-child"), expected="a list of results", actual=(r.stderr or r.stdout)[-300:], functions=["Parser"]))
        return b
    got = json.loads(r.stdout)
    for s_, g in zip(strs, got):
        here = outcome.run(lambda: repr(pymbolic.parse(s_)))
        here = ["val", here[1]] if here[0] == "val" else ["exc", here[1].__name__]
        b.case(("opt", s_), sample=dict(string=s_))
        if g != here:
            b.fail(Failure("optimised-interpreter", f"what=differs-under-O string={s_!r}", dict(kind="opt", string=s_), expected=f"{here}"[:150], actual=f"{g}"[:150],
                           functions=["Parser.parse_terminal"]))
    return b


class Tr:
    """A value that records how it was computed: + and * build the fully parenthesised text (so grouping and operand order are visible in the value)."""

    def __init__(self, t):
        self.t = t

    def __add__(self, o):
        return Tr(f"({self.t}+{_tt(o)})")

    def __radd__(self, o):
        return self if (isinstance(o, int) and o == 0) else Tr(f"({_tt(o)}+{self.t})")

    def __mul__(self, o):
        return Tr(f"({self.t}*{_tt(o)})")

    def __rmul__(self, o):
        return self if (isinstance(o, int) and o == 1) else Tr(f"({_tt(o)}*{self.t})")

    def __eq__(self, o):
        return isinstance(o, Tr) and self.t == o.t

    def __hash__(self):
        return hash(self.t)

    def __repr__(self):
        return f"Tr<{self.t}>"


def _tt(o):
    return o.t if isinstance(o, Tr) else repr(o)


def b_grouping(tier):
    """Parenthesised sums and products evaluated on values that record their own computation: the grouping Python's parser assigns is the grouping of the tree."""
    import pymbolic
    from pymbolic.interop.ast import ASTToPymbolic
    from pymbolic.mapper.evaluator import EvaluationMapper
    b = BoundedRun("grouping-by-tracers", rule="every parenthesisation of a o b o c and a o b o c o d for o in {+, *} and mixed, evaluated with tracer values (whose + and * build the fully "
                   "parenthesised text): the value of the parsed tree, and of the imported tree, is the value Python's eval gives", bound="all binary bracketings of 3 and 4 operands x 8 operator choices",
                   functions=["Parser.parse_postfix", "ASTToPymbolic"])

    def bracketings(items):
        if len(items) == 1:
            yield items[0]
            return
        for i in range(1, len(items)):
            for l_ in bracketings(items[:i]):
                for r_ in bracketings(items[i:]):
                    yield (l_, r_)

    def render(tree, ops, counter):
        if isinstance(tree, str):
            return tree
        l_ = render(tree[0], ops, counter)
        op = ops[counter[0] % len(ops)]
        counter[0] += 1
        r_ = render(tree[1], ops, counter)
        return f"({l_} {op} {r_})"
    env = {n: Tr(n) for n in "abcd"}
    seen = set()
    for names in (list("abc"), list("abcd")):
        for tree in bracketings(names):
            for ops in (("+",), ("*",), ("+", "*"), ("*", "+"), ("+", "+", "*"), ("*", "*", "+")):
                s_ = render(tree, ops, [0])[1:-1]        # without the outermost parentheses
                if s_ in seen:
                    continue
                seen.add(s_)
                want = outcome.run(lambda: eval(s_, {}, dict(env)))      # noqa: S307
                for what, fn in (("parse", lambda: EvaluationMapper(dict(env))(pymbolic.parse(s_))), ("import", lambda: EvaluationMapper(dict(env))(ASTToPymbolic()(ast.parse(s_, mode="eval").body)))):
                    got = outcome.run(fn)
                    b.case((what, s_), sample=dict(string=s_))
                    if got != want:
                        b.fail(Failure("grouping-by-tracers", f"what={what}-grouping-differs string={s_!r}", dict(kind="group", string=s_), expected=outcome.describe(want)[:120], actual=outcome.describe(got)[:120],
                                       functions=["Parser.parse_postfix" if what == "parse" else "ASTToPymbolic"]))
    return b


def bounded(tier, seed, procs):
    return [b_skeletons(tier, seed), b_ternary_postfix(tier, seed), b_random(tier, seed), b_malformed(tier), b_identifiers(tier), b_optimised(tier), b_grouping(tier)]


# ----------------------------------------------------------------------------- proved kernel: binding-power table
def table_obligations():
    """For every ordered pair of binary operator classes the parser's decision 'does op2 bind the middle operand' in
    'a op1 b op2 c' is a function of its _PREC_* constants and the min_precedence each operator passes for its right operand
    (read from the real source, not copied); it must agree with Python's grammar.  Discharged by z3 as ground obligations
    (the constants are substituted); reported per pair."""
    import inspect
    import re
    import time
    import z3
    import pymbolic.parser as P
    src = inspect.getsource(P.Parser.parse_postfix)
    # operator token -> (guard constant, right-operand constant) as written in the real parse_postfix
    tokmap = {"_plus": "+", "_minus": "-", "_times": "*", "_floordiv": "//", "_over": "/", "_modulo": "%", "_power": "**", "_and": "and", "_or": "or", "_bitwiseor": "|",
              "_bitwisexor": "^", "_bitwiseand": "&", "_rightshift": ">>", "_leftshift": "<<"}
    table = {}
    for m in re.finditer(r"next_tag is (_\w+) and (_PREC_\w+) > min_precedence:(.*?)did_something = True", src, re.S):
        tok, guard, body = m.group(1), m.group(2), m.group(3)
        rm = re.search(r"parse_expression\(\s*pstate,\s*(_PREC_\w+)\)", body)
        if tok in tokmap and rm:
            table[tokmap[tok]] = (getattr(P, guard), getattr(P, rm.group(1)), guard, rm.group(1))
    m = re.search(r"next_tag in self\._COMP_TABLE and (_PREC_\w+) > min_precedence:(.*?)did_something = True", src, re.S)
    if m:
        rm = re.search(r"self\.parse_expression\(pstate, (_PREC_\w+)\)", m.group(2))
        for c in CMP:
            table[c] = (getattr(P, m.group(1)), getattr(P, rm.group(1)), m.group(1), rm.group(1))
    obs = []
    for o1, o2 in itertools.product(BINOPS, repeat=2):
        t0 = time.time()
        name = f"C07.table[{o1} then {o2}]"
        if o1 not in table or o2 not in table:
            obs.append(dict(name=name, status="undecided", backend="z3", time_s=0.0, detail="operator not found in parse_postfix", model="", goal=""))
            continue
        if o1 in CMP and o2 in CMP:
            continue        # chained comparisons have no binary reading in Python (known finding region, bounded)
        g2, r1 = table[o2][0], table[o1][1]
        # parser: after 'a o1', the right operand is parsed with min_precedence r1; o2 is absorbed into it iff guard(o2) > r1
        absorbs = z3.IntVal(g2) > z3.IntVal(r1)
        # python: o2 binds the middle operand iff prec(o2) > prec(o1), or equal precedence and right-associative (**)
        py = PYPREC[o2] > PYPREC[o1] or (PYPREC[o2] == PYPREC[o1] and o1 == "**")
        s = z3.Solver()
        s.add(absorbs != z3.BoolVal(py))
        r = s.check()
        status = "discharged" if r == z3.unsat else "refuted"
        obs.append(dict(name=name, status=status, backend="z3", time_s=time.time() - t0,
                        detail="" if status == "discharged" else f"parser: {table[o2][2]}={g2} > {table[o1][3]}={r1} is {g2 > r1}; Python binds {'right' if py else 'left'} operator first",
                        model="" if status == "discharged" else f"a {o1} b {o2} c", goal=f"({table[o2][2]} > {table[o1][3]}) == python_binds_right({o1!r}, {o2!r})"))
    from pyvc import loader
    return dict(contract="C07.binding-power-table", function=loader.get_func_info(P.Parser.parse_postfix).describe(), status="ok",
                obligations=obs, paths=len(obs), time_s=sum(o["time_s"] for o in obs))


def table_job(_arg):
    return table_obligations()


table_job.name = "C07.binding-power-table"


def proof_jobs(tier):
    return [("custom", table_job, None, None)]


def replay(case):
    import pymbolic
    s = case["string"]
    r = outcome.run(lambda: pymbolic.parse(s))
    out = dict(parse=outcome.describe(r)[:300])
    if "env" in case and r[0] == "val":
        env = eval(case["env"])
        out["pymbolic_value"] = outcome.describe(pm_eval(r[1], env))[:100]
        out["python_value"] = outcome.describe(py_eval(s, env))[:100]
    return out

"""C13  Generated Python code computes what the evaluator computes."""
from __future__ import annotations

import ast
import itertools
import pickle
import random
from fractions import Fraction

from harness import outcome
from harness.runner import BoundedRun, Failure

LEVEL = "exploration"
SPECS = []
EXPLANATION = (
    "Bounded stand-in: every generated program is executed.  For every expression of an enumerated pool (all two-level "
    "operator nestings of the Python-expressible fragment, n-ary nodes with 0..13 operands, conditionals nested in every "
    "position to depth 3, calls / subscripts / attributes, seeded random deep trees) and every environment of an exact "
    "box (integers and rationals) the outcome (value and type, or arithmetic error class) of the evaluator is compared "
    "with (1) compile(e, vars)(*args) for several listings and orders of the explicit variables, also after a pickle "
    "round trip, (2) eval of the compiled to_python_ast(e), (3) exec of to_evaluatable_python_function(e, name) called with "
    "keyword arguments, (4) the evaluator on ASTToPymbolic()(to_python_ast(e)).  The argument convention (listed variables "
    "first, then the remaining free variables in name order) is checked for 0..5 free variables.  Proved kernel (z3 via "
    "PyVC): PymbolicToASTMapper._map_multi_children_op builds, for every operand count (loop invariant), the right-nested "
    "chain of BinOps over all operands in order.")
ASSUMPTIONS = ["EvaluationMapper = den (C02); CPython's compile/eval/exec and ast.unparse are the execution semantics (trusted)",
               "the stringifier-based code generation is covered by execution only (strings are outside the engine)",
               "logical operators are exercised on boolean operands (den of LogicalAnd/Or is boolean, Python's and/or return an operand)"]
TRUSTED_BASE = ["CPython compile / eval / exec / ast.unparse / pickle"]


# ----------------------------------------------------------------------------- pool
def pool(tier, seed):
    import pymbolic.primitives as p
    a, b, c, d = (p.Variable(n) for n in "abcd")
    f, v, o = p.Variable("f"), p.Variable("v"), p.Variable("o")
    leaves = [a, b, c, 2, -3, 0, 5]
    BIN = {
        "Sum": lambda x, y: p.Sum((x, y)), "Product": lambda x, y: p.Product((x, y)), "Quotient": p.Quotient, "FloorDiv": p.FloorDiv, "Remainder": p.Remainder, "Power": p.Power,
        "LeftShift": p.LeftShift, "RightShift": p.RightShift, "BitwiseOr": lambda x, y: p.BitwiseOr((x, y)), "BitwiseXor": lambda x, y: p.BitwiseXor((x, y)),
        "BitwiseAnd": lambda x, y: p.BitwiseAnd((x, y)),
    }
    out = []
    for n1, b1 in BIN.items():
        for x, y in itertools.product(leaves[:5], repeat=2):
            out.append((f"{n1}", b1(x, y)))
        for n2, b2 in BIN.items():
            inner = b2(a, b)
            out.append((f"{n1}(l={n2})", b1(inner, c)))
            out.append((f"{n1}(r={n2})", b1(c, inner)))
    # children whose own first and last operands are composite: their text begins and ends with the operands' parentheses
    ends = [(p.Sum((a, b)), p.Sum((b, c))), (-3, -2), (p.Sum((a, b)), -3), (p.Product((a, b)), p.Sum((a, c)))]
    for n1, b1 in BIN.items():
        for n2, b2 in BIN.items():
            for e1, e2 in ends:
                inner = b2(e1, e2)
                out.append((f"{n1}(l={n2}(composite ends))", b1(inner, c)))
                out.append((f"{n1}(r={n2}(composite ends))", b1(c, inner)))
                out.append((f"{n1}3({n2}(composite ends))", p.Product((c, inner, 2)) if n1 == "Product" else p.Sum((c, inner, 2)) if n1 == "Sum" else b1(b1(c, inner), 2)))
    un = {"BitwiseNot": p.BitwiseNot, "Neg": lambda x: p.Product((-1, x))}
    for n1, b1 in BIN.items():
        for nu, bu in un.items():
            out.append((f"{n1}(l={nu})", b1(bu(a), b)))
            out.append((f"{n1}(r={nu})", b1(a, bu(b))))
            out.append((f"{nu}({n1})", bu(b1(a, b))))
    # n-ary nodes of every width
    names = [p.Variable(f"x{i:02d}") for i in range(13)]
    for k in (p.Sum, p.Product, p.BitwiseOr, p.BitwiseXor, p.BitwiseAnd):
        for n in range(0, 14):
            out.append((f"{k.__name__}/{n}", k(tuple(names[:n]))))
    for k in (p.LogicalOr, p.LogicalAnd):
        for n in range(1, 8):
            out.append((f"{k.__name__}/{n}", k(tuple(p.Comparison(x, "<", 1) for x in names[:n]))))
    # comparisons, logical, conditionals
    cmps = [p.Comparison(a, op, b) for op in ("<", "<=", ">", ">=", "==", "!=")]
    for cm in cmps:
        out.append(("Comparison", cm))
        out.append(("Not", p.LogicalNot(cm)))
        out.append(("If", p.If(cm, a, b)))
        out.append(("If-arith", p.Sum((p.If(cm, a, b), c))))
        out.append(("If-prod", p.Product((c, p.If(cm, a, b)))))
    q, r = p.Comparison(a, "<", b), p.Comparison(b, "<", c)
    leaf3 = [a, b, c]
    for s1, s2, s3 in itertools.product(range(3), repeat=3):
        inner = p.If(r, leaf3[s1], leaf3[s2])
        out.append(("If(then=If)", p.If(q, inner, leaf3[s3])))
        out.append(("If(else=If)", p.If(q, leaf3[s3], inner)))
        out.append(("If(cond=If)", p.If(p.If(q, r, q), leaf3[s1], leaf3[s2])))
        inner2 = p.If(p.Comparison(c, "==", a), inner, leaf3[s3])
        out.append(("If(then=If(then=If))", p.If(q, inner2, leaf3[s1])))
        out.append(("If(else=If(else=If))", p.If(q, leaf3[s1], p.If(r, leaf3[s2], p.If(p.Comparison(c, "==", a), leaf3[s3], 7)))))
    out += [("And", p.LogicalAnd((q, r))), ("Or", p.LogicalOr((q, r))), ("And-Or", p.LogicalAnd((p.LogicalOr((q, r)), p.LogicalNot(q)))),
            ("Or-And", p.LogicalOr((p.LogicalAnd((q, r)), r))), ("If-logical", p.If(p.LogicalAnd((q, r)), a, p.Sum((b, 1))))]
    # calls, subscripts, attributes
    out += [("Call", p.Call(f, (a,))), ("Call2", p.Call(f, (a, p.Sum((b, 1))))), ("Call0", p.Call(f, ())), ("CallKw", p.CallWithKwargs(f, (a,), {"k": b, "j": c})),
            ("CallKw0", p.CallWithKwargs(f, (), {"k": p.Product((a, b))})), ("Call-math", p.Call(p.Lookup(p.Variable("math"), "floor"), (p.Quotient(a, 2),))),
            ("Subscript", p.Subscript(v, 1)), ("Subscript-expr", p.Subscript(v, p.Remainder(p.Sum((a, 5)), 3))), ("Subscript2", p.Subscript(o, (0, 1))),
            ("Subscript1t", p.Subscript(o, (1,))), ("Lookup", p.Lookup(o, "real_part")), ("Lookup-call", p.Call(p.Lookup(o, "method"), (a,))),
            ("Call-in-arith", p.Sum((p.Call(f, (a,)), p.Product((2, p.Subscript(v, 0)))))), ("Min", p.Min((a, b, c))), ("Max", p.Max((a, p.Sum((b, 1))))),
            ("Min-one-operand", p.Min((a,))), ("Max-one-operand", p.Sum((p.Max((p.Product((a, b)),)), 1))),
            ("Tuple-arg", p.Call(f, ((a, b),)))]
    # numpy scalar constants (the evaluator computes with them as they are; generated code must not depend on their repr)
    import numpy as np
    for cn, cv in (("float64", np.float64(0.5)), ("float32", np.float32(1.5)), ("int64", np.int64(3)), ("int32", np.int32(-2)), ("bool_", np.bool_(True)),
                   ("complex128", np.complex128(1 + 2j)), ("neg-float64", np.float64(-2.5))):
        out += [(f"numpy-{cn}-product", p.Product((a, cv))), (f"numpy-{cn}-sum", p.Sum((cv, b))), (f"numpy-{cn}-power-base", p.Power(cv, 2)),
                (f"numpy-{cn}-nested", p.Sum((p.Product((cv, a)), p.Product((2, b)))))]
        if cn != "float32":     # an inexact float32 quotient is rounded to single precision by the evaluator, to double precision by Python literals
            out.append((f"numpy-{cn}-quotient", p.Quotient(a, cv)))
    # the negative float zero as a power base / exponent / factor / term ((-0.0)**0 is 1.0, -(0.0**0) is -1.0), and bool constants in every position
    for cn, cv in (("-0.0", -0.0), ("0.0", 0.0), ("-1.5", -1.5)):
        out += [(f"signed-zero-{cn}-power-base", p.Power(cv, a)), (f"signed-zero-{cn}-power-base-const", p.Power(cv, 0)), (f"signed-zero-{cn}-product", p.Product((cv, p.Sum((a, 1))))),
                (f"signed-zero-{cn}-sum", p.Sum((cv, cv))), (f"signed-zero-{cn}-exponent", p.Power(p.Sum((a, 3)), cv))]
    out += [("bool-sum", p.Sum((a, True))), ("bool-product", p.Product((False, a))), ("bool-if", p.If(True, a, b)), ("bool-power", p.Power(True, a))]
    # complex constants, in particular negative and purely imaginary ones as a power base / a factor
    for cn, cv in (("1j", 1j), ("-1j", -1j), ("1-2j", 1 - 2j), ("-1+0j", complex(-1, 0)), ("-0.5j", complex(0, -0.5))):
        out += [(f"complex-{cn}-power-base", p.Power(cv, a)), (f"complex-{cn}-product", p.Product((cv, a))), (f"complex-{cn}-sum", p.Sum((a, cv))),
                (f"complex-{cn}-quotient-den", p.Quotient(a, cv))]
    # logical negation as an operand of arithmetic and comparison parents (its text begins with a low-precedence keyword)
    for n1, b1 in BIN.items():
        out += [(f"{n1}(l=Not)", b1(p.LogicalNot(q), c)), (f"{n1}(r=Not)", b1(c, p.LogicalNot(q))), (f"{n1}(l=Not-var)", b1(p.LogicalNot(a), b))]
    # polynomial nodes (the compiler has its own Horner printer for them): bases that are powers, sums, negated; single-term polynomials under tighter parents
    from pymbolic.polynomial import Polynomial
    P1, P2, P3 = Polynomial(a, ((0, 1), (1, 2), (3, -4))), Polynomial(a, ((2, 3),)), Polynomial(b, ((1, 5),))
    out += [("Polynomial", P1), ("Polynomial(base=Power)", Polynomial(p.Power(b, 2), ((0, 1), (3, 2)))), ("Polynomial(base=Sum)", Polynomial(p.Sum((a, 1)), ((2, 1), (0, -1)))),
            ("Polynomial(base=Neg)", Polynomial(p.Product((-1, a)), ((3, 2),))), ("Quotient(den=Polynomial1)", p.Quotient(7, p.Sum((P2, 1)))), ("Quotient(den=single-term)", p.Quotient(b, p.Sum((P2, 0)) if False else P2)),
            ("Product(single-term)", p.Product((2, P3))), ("Power(base=single-term)", p.Power(P3, 2)), ("Sum(Polynomial)", p.Sum((1, P1, c))), ("Neg(Polynomial)", p.Product((-1, P1))),
            ("Polynomial(coeff=negative)", Polynomial(a, ((0, -2), (2, -1))))]
    # logical operators on operands that are not truth values (Python's and / or return an operand, the evaluator a truth value)
    out += [("Or(non-boolean)", p.LogicalOr((a, b))), ("And(non-boolean)", p.LogicalAnd((a, b))), ("Or3(non-boolean)", p.LogicalOr((a, p.Sum((b, 1)), c))),
            ("Sum(Or(non-boolean))", p.Sum((p.LogicalOr((a, b)), 1))), ("If(cond=Or(non-boolean))", p.If(p.LogicalOr((a, b)), b, c))]
    out += [("Comparison(l=Not)", p.Comparison(p.LogicalNot(a), "==", b)), ("Comparison(r=Not)", p.Comparison(b, "!=", p.LogicalNot(a))), ("Not(Not)", p.LogicalNot(p.LogicalNot(a))),
            ("Not(Sum)", p.LogicalNot(p.Sum((a, b)))), ("Neg(Not)", p.Product((-1, p.LogicalNot(a)))), ("If(cond=Not)", p.If(p.LogicalNot(a), b, c)),
            ("And(Not, var)", p.LogicalAnd((p.LogicalNot(a), p.Comparison(b, ">", 0))))]
    rng = random.Random(seed)
    bins = list(BIN.values())

    def g(dep):
        if dep == 0 or rng.random() < 0.2:
            return rng.choice(leaves + [d, 7, -1])
        k = rng.random()
        if k < 0.7:
            return rng.choice(bins)(g(dep - 1), g(dep - 1))
        if k < 0.8:
            return p.If(p.Comparison(g(dep - 1), rng.choice(["<", ">=", "=="]), g(dep - 1)), g(dep - 1), g(dep - 1))
        if k < 0.9:
            return p.Sum(tuple(g(dep - 1) for _ in range(rng.choice([3, 4, 6, 7]))))
        return p.Call(f, (g(dep - 1),))
    for i in range(600 if tier == "thorough" else 150):
        out.append((f"random#{i}", g(3)))
    return out


class _O:
    real_part = 17

    def method(self, x):
        return 3 * x - 1

    def __getitem__(self, i):
        return 100 + sum(i) if isinstance(i, tuple) else i


def _f(*args, **kw):
    tot = 1
    for i, x in enumerate(args):
        tot += (i + 2) * (sum(x) if isinstance(x, tuple) else x)
    for k, x in sorted(kw.items()):
        tot += (len(k) + ord(k[0])) * x
    return tot


VALS = [-2, 0, 1, 3, Fraction(1, 2)]


def environments(names):
    import math
    fixed = dict(f=_f, v=[5, -7, 11, 13], o=_O(), math=math)
    free = [n for n in names if n not in fixed]
    if len(free) <= 3:
        combos = itertools.product(VALS, repeat=len(free))
    else:
        rng = random.Random(len(free))
        combos = [tuple(rng.choice(VALS[:4]) for _ in free) for _ in range(12)] + [tuple(1 for _ in free), tuple(i + 1 for i, _ in enumerate(free)),
                                                                                 tuple((-1) ** i * (i + 2) for i, _ in enumerate(free))]
    for combo in combos:
        env = dict(zip(free, combo))
        env.update({k: v for k, v in fixed.items() if k in names})
        yield env


def free_names(e):
    from props.c06 import all_nodes
    import pymbolic.primitives as p
    from pymbolic.polynomial import Polynomial
    names = set()
    for n in all_nodes(e):
        if isinstance(n, p.Variable):
            names.add(n.name)
        elif isinstance(n, Polynomial):          # a legacy node: its fields are not dataclass fields
            names.update(free_names(n.Base))
            for _, coeff in n.Data:
                names.update(free_names(coeff))
    return sorted(names)


def run2(thunk):
    return outcome.with_alarm(2, lambda: outcome.run(thunk))


def same(got, want):
    """Outcome equality; two floats (inexact quotients of integers summed in a different association) up to 1e-12 relative."""
    import math
    if got is None:
        return False
    # a numpy scalar and the Python number of the same value are the same result (generated code holds Python literals)
    def _py(o):
        if o[0] == "val" and hasattr(o[1], "item") and hasattr(o[1], "dtype") and getattr(o[1], "shape", None) == ():
            return ("val", o[1].item())
        return o
    got, want = _py(got), _py(want)
    if got[0] == "val" and want[0] == "val" and type(got[1]) is float and type(want[1]) is float:
        return math.isclose(got[1], want[1], rel_tol=1e-12, abs_tol=1e-300) or (got[1] != got[1] and want[1] != want[1])
    if got[0] == "val" and want[0] == "val" and type(got[1]) is complex and type(want[1]) is complex:
        import cmath
        return cmath.isclose(got[1], want[1], rel_tol=1e-12, abs_tol=1e-300)
    return outcome.equivalent(got, want)


def check_expr(b, label, e):
    import pymbolic
    from pymbolic.interop.ast import ASTToPymbolic, to_evaluatable_python_function, to_python_ast
    from pymbolic.mapper.evaluator import EvaluationMapper
    import pymbolic.primitives as p_
    from props.c06 import all_nodes as all_nodes_
    names = free_names(e)
    listed_sets = [[], names[:1], list(reversed(names)), names[1:2] + names[:1]] if names else [[]]
    b.case(("expr", repr(e)), sample=dict(label=label, expr=repr(e)))

    cause = " cause=empty-nary-node" if any(isinstance(n, (p_.Sum, p_.Product, p_.BitwiseOr, p_.BitwiseXor, p_.BitwiseAnd, p_.LogicalOr, p_.LogicalAnd)) and not n.children
                                            for n in all_nodes_(e)) else ""

    if not cause and any(isinstance(n, (p_.LogicalOr, p_.LogicalAnd)) and any(not isinstance(c, (p_.Comparison, p_.LogicalNot, p_.LogicalOr, p_.LogicalAnd, bool)) for c in n.children)
                         for n in all_nodes_(e)):
        cause = " cause=logical-operator-on-non-boolean"

    if not cause and any(isinstance(n, (p_.Min, p_.Max)) and len(n.children) == 1 for n in all_nodes_(e)):
        cause = " cause=single-operand-min-max"

    def fail(what, detail, expected, actual, fns, **case):
        what = what + cause
        b.fail(Failure(b.name, f"what={what} label={label} expr={e!r} {detail}".strip(), dict(kind=what, expr=repr(e), **case), expected=str(expected)[:200], actual=str(actual)[:200],
                       functions=fns))
    # --- path 1: compile
    compiled = {}
    for listed in listed_sets:
        listed = [n for n in listed if n != "math"]
        r = outcome.run(lambda: pymbolic.compile(e, list(listed)))
        if r[0] != "val":
            fail("compile-raised", f"listed={listed}", "a callable", outcome.describe(r), ["CompiledExpression._compile", "CompileMapper"], listed=listed)
            break
        compiled[tuple(listed)] = r[1]
        pr = outcome.run(lambda: pickle.loads(pickle.dumps(r[1])))
        if pr[0] != "val":
            fail("pickle-raised", f"listed={listed}", "a callable", outcome.describe(pr), ["CompiledExpression.__getstate__/__setstate__"], listed=listed)
        else:
            compiled[tuple(listed) + ("<pickled>",)] = pr[1]
    # --- path 2-4: AST
    ar = outcome.run(lambda: to_python_ast(e))
    code = fn = back = None
    if ar[0] == "val":
        cr = outcome.run(lambda: compile(ast.fix_missing_locations(ast.Expression(ar[1])), "<c13>", "eval"))
        if cr[0] != "val":
            fail("ast-does-not-compile", "", "a code object", outcome.describe(cr), ["PymbolicToASTMapper"])
        else:
            code = cr[1]
        br = outcome.run(lambda: ASTToPymbolic()(ar[1]))
        if br[0] == "val":
            back = br[1]
        elif not (br[0] == "exc" and issubclass(br[1], NotImplementedError)):
            fail("ast-import-raised", "", "a tree or NotImplementedError", outcome.describe(br), ["ASTToPymbolic"])
        sr = outcome.run(lambda: to_evaluatable_python_function(e, "fn"))
        if sr[0] != "val":
            fail("function-source-raised", "", "source text", outcome.describe(sr), ["to_evaluatable_python_function"])
        else:
            ns = {}
            xr = outcome.run(lambda: exec(sr[1], {"math": __import__("math")}, ns))
            if xr[0] != "val" or "fn" not in ns:
                fail("function-source-does-not-exec", "", "a function", outcome.describe(xr) + " " + sr[1][:120], ["to_evaluatable_python_function"])
            else:
                fn = ns["fn"]
    elif not (ar[0] == "exc" and issubclass(ar[1], NotImplementedError)):
        fail("to-ast-raised", "", "an AST or NotImplementedError", outcome.describe(ar), ["PymbolicToASTMapper"])
    # --- run everything
    done = set()
    for env in environments(names):
        want = run2(lambda: EvaluationMapper(dict(env))(e))
        if want is None:
            continue
        show = {k: v for k, v in env.items() if k not in ("f", "v", "o", "math")}
        for key, cfun in compiled.items():
            listed = [k for k in key if k != "<pickled>"]
            rest = sorted(n for n in names if n not in listed and n != "math")
            args = [env[n] for n in listed + rest]
            got = run2(lambda: cfun(*args))
            if not same(got, want) and ("compile", key) not in done:
                done.add(("compile", key))
                fail("compiled-value-differs" if "<pickled>" not in key else "pickled-value-differs", f"listed={listed} env={show}", outcome.describe(want),
                     outcome.describe(got) if got else "timeout", ["CompileMapper", "CompiledExpression"], listed=listed, env=repr(show))
        if code is not None:
            got = run2(lambda: eval(code, {"__builtins__": {"min": min, "max": max, "float": float}}, dict(env)))
            if not same(got, want) and "ast" not in done:
                done.add("ast")
                fail("ast-value-differs", f"env={show}", outcome.describe(want), outcome.describe(got) if got else "timeout", ["PymbolicToASTMapper"], env=repr(show))
        if fn is not None:
            kwnames = fn.__code__.co_varnames[:fn.__code__.co_kwonlyargcount]
            if set(kwnames) != set(names) and "fn-sig" not in done:
                done.add("fn-sig")
                fail("function-signature", "", f"keyword-only {sorted(names)}", sorted(kwnames), ["to_evaluatable_python_function"])
            got = run2(lambda: fn(**{k: v for k, v in env.items() if k in kwnames}))
            if not same(got, want) and "fn" not in done:
                done.add("fn")
                fail("function-value-differs", f"env={show}", outcome.describe(want), outcome.describe(got) if got else "timeout", ["to_evaluatable_python_function"], env=repr(show))
        if back is not None:
            got = run2(lambda: EvaluationMapper(dict(env))(back))
            if not same(got, want) and "back" not in done:
                done.add("back")
                fail("reimported-value-differs", f"env={show}", outcome.describe(want), outcome.describe(got) if got else "timeout", ["ASTToPymbolic", "PymbolicToASTMapper"], env=repr(show))


def b_programs(tier, seed):
    b = BoundedRun("generated-programs", rule="every expression of the pool x every environment of the box {-2,0,1,3,1/2}^n (n <= 3 free variables; 15 environments for wider "
                   "expressions): evaluator outcome == compile(e, listed)(*args) for listed in {none, first, all reversed, two swapped} == the same after pickle round trip == "
                   "eval(compile(to_python_ast(e))) == exec'd to_evaluatable_python_function(e)(**env) == evaluator(ASTToPymbolic(to_python_ast(e))); value and type or error "
                   "class; NotImplementedError from the AST paths is a refusal", bound="~1100 (quick) / ~1550 (thorough) expressions, depth <= 4, n-ary width <= 13",
                   functions=["CompileMapper", "CompiledExpression._compile/__getstate__/__setstate__/__call__", "PymbolicToASTMapper.map_*", "to_python_ast",
                              "to_evaluatable_python_function", "ASTToPymbolic.map_*"])
    b.exhaustive = False
    for label, e in pool(tier, seed):
        check_expr(b, label, e)
    # wide n-ary nodes (hundreds of operands): every path still produces code that runs
    import pymbolic.primitives as p
    for n in (40, 250):
        vs = [p.Variable(f"w{i:03d}") for i in range(n)]
        check_expr(b, f"wide-sum-{n}", p.Sum(tuple(p.Product((i + 1, v)) for i, v in enumerate(vs))))
        check_expr(b, f"wide-product-{n}", p.Product(tuple(p.Sum((v, 1 if i % 2 else -1)) for i, v in enumerate(vs[:n // 2]))))
        check_expr(b, f"wide-mixed-{n}", p.Sum(tuple(vs[:n // 2]) + (p.Product(tuple(vs[n // 2:])),)))
    return b


def b_signature(tier):
    import pymbolic
    import pymbolic.primitives as p
    b = BoundedRun("argument-convention", rule="compile(e, listed) for e = weighted sum of k free variables (k = 0..5, names chosen so that name order differs from first-use order and "
                   "from hash order), every subset / permutation of listed variables (as names and as Variable nodes): calling with the listed variables first and the rest in "
                   "name order returns the evaluator's value; the weights make every permutation of arguments observable", bound="k <= 5: all 326 listings of the first name pool, the listings of 1..5 names for two pools of names of math members / builtins", functions=["CompiledExpression._compile"])
    # the second and third pool: names that mean something elsewhere (members of the math module, builtins) are ordinary variables of an expression
    for pool_names, k in [(["zeta", "b", "alpha", "m", "B"], k_) for k_ in range(0, 6)] + [(["pi", "e", "tau", "gamma", "pow"], k_) for k_ in (1, 2, 3, 5)] + \
            [(["len", "abs", "exp", "inf", "sum"], k_) for k_ in (1, 3, 5)]:
        names = pool_names[:k]
        e = p.Sum(tuple(p.Product((10 ** i, p.Variable(n))) for i, n in enumerate(names)) + (5,))
        vals = {n: i + 1 for i, n in enumerate(names)}
        want = sum(10 ** i * vals[n] for i, n in enumerate(names)) + 5
        for r_ in range(0, k + 1):
            for listed in itertools.permutations(names, r_):
                for as_node in (False, True):
                    lv = [p.Variable(n) for n in listed] if as_node else list(listed)
                    c = outcome.run(lambda: pymbolic.compile(e, lv))
                    b.case(("sig", k, listed, as_node), sample=dict(listed=list(listed)))
                    rest = sorted(n for n in names if n not in listed)
                    args = [vals[n] for n in list(listed) + rest]
                    got = outcome.run(lambda: c[1](*args)) if c[0] == "val" else c
                    if got != ("val", want):
                        b.fail(Failure("argument-convention", f"what=argument-order free={names} listed={list(listed)} as_node={as_node}", dict(kind="sig", names=names, listed=list(listed)),
                                       expected=want, actual=outcome.describe(got)[:200], functions=["CompiledExpression._compile"]))
    return b


def b_importer_subclasses(tier):
    """An application subclass of the importer / exporter with one overridden handler, used before and after the stock class: the stock class is unaffected."""
    import pymbolic.primitives as p
    from pymbolic.interop.ast import ASTToPymbolic, PymbolicToASTMapper, to_python_ast
    from pymbolic.mapper.evaluator import EvaluationMapper
    b = BoundedRun("importer-subclass-histories", rule="subclasses of ASTToPymbolic overriding map_BinOp (reads ^ as power), map_Name (renames), map_Constant (doubles) and a subclass of "
                   "PymbolicToASTMapper overriding map_sum, each used once on the same node types; before and afterwards the stock importer / exporter gives, for 12 expressions, a tree "
                   "/ an AST evaluating to the evaluator's value", bound="4 subclasses x 2 orders x 12 expressions x 3 environments", functions=["ASTMapper.rec", "ASTToPymbolic.map_*", "PymbolicToASTMapper"])
    x, y, z = (p.Variable(n) for n in "xyz")
    exprs = [p.BitwiseXor((x, y)), p.Sum((x, p.Product((y, 3)))), p.Power(x, 2), p.BitwiseXor((p.Sum((x, 1)), z)), p.Quotient(x, p.Sum((y, 5))), p.Product((2, x, y)), p.Sum((x, 7)),
             p.FloorDiv(x, 3), p.RightShift(p.Sum((x, 8)), 1), p.LeftShift(x, 2), p.BitwiseOr((x, p.BitwiseAnd((y, z)))), p.Remainder(p.Sum((x, y)), 4)]
    envs_ = [dict(x=2, y=10, z=3), dict(x=5, y=1, z=7), dict(x=-3, y=4, z=2)]

    class PowImporter(ASTToPymbolic):
        def map_BinOp(self, expr):      # noqa: N802
            if isinstance(expr.op, ast.BitXor):
                return p.Power(self.rec(expr.left), self.rec(expr.right))
            return super().map_BinOp(expr)

    class RenamingImporter(ASTToPymbolic):
        def map_Name(self, expr):       # noqa: N802
            return p.Variable(expr.id + "_renamed")

    class DoublingImporter(ASTToPymbolic):
        def map_Constant(self, expr):   # noqa: N802
            return 2 * expr.value

    class OddExporter(PymbolicToASTMapper):
        def map_sum(self, expr):
            return ast.Constant(0)

    def stock_ok():
        bad = []
        for e in exprs:
            tree = to_python_ast(e)
            back = outcome.run(lambda: ASTToPymbolic()(tree))
            for env in envs_:
                want = outcome.run(lambda: EvaluationMapper(env)(e))
                got = outcome.run(lambda: EvaluationMapper(env)(back[1])) if back[0] == "val" else back
                got2 = outcome.run(lambda: eval(compile(ast.fix_missing_locations(ast.Expression(to_python_ast(e))), "<c13>", "eval"), {}, dict(env)))     # noqa: S307
                if want[0] == "val" and (got != want or got2 != want):
                    bad.append((e, env, want, got, got2))
                    break
        return bad
    # a subclass of CompiledExpression extending the context the documented way (take the base class's dict, add a name): later plain compilations are unaffected
    import pymbolic
    from pymbolic.compiler import CompiledExpression

    class Scaled(CompiledExpression):
        def context(self):
            ctx = super().context()
            ctx["scale"] = 10
            return ctx
    sc = p.Variable("scale")
    e_sc = p.Sum((p.Product((sc, x)), p.Power(y, 2), p.Product((-1, z))))
    for order in ("subclass-first", "plain-first"):
        if order == "plain-first":
            outcome.run(lambda: pymbolic.compile(e_sc))
        r_sub = outcome.run(lambda: Scaled(e_sc)(2, 3, 4))          # free variables x, y, z; scale comes from the context
        r_plain = outcome.run(lambda: pymbolic.compile(e_sc)(5, 2, 3, 4))       # scale, x, y, z in name order
        r_pick = outcome.run(lambda: pickle.loads(pickle.dumps(pymbolic.compile(e_sc)))(5, 2, 3, 4))
        b.case(("compile-context-subclass", order), nontrivial=True, sample=dict(order=order))
        want_sub, want_plain = 10 * 2 + 9 - 4, 5 * 2 + 9 - 4
        if r_sub != ("val", want_sub) or r_plain != ("val", want_plain) or r_pick != ("val", want_plain):
            b.fail(Failure("importer-subclass-histories", f"subclass=CompiledExpression-with-context order={order}", dict(kind="imp-hist", subclass="Scaled", order=order), expected=f"{want_sub}, {want_plain}, {want_plain}",
                           actual=f"{outcome.describe(r_sub)[:60]}, {outcome.describe(r_plain)[:80]}, {outcome.describe(r_pick)[:60]}", functions=["CompiledExpression.context", "CompiledExpression._compile"]))
    users = [("PowImporter", lambda: [PowImporter()(to_python_ast(e)) for e in exprs]), ("RenamingImporter", lambda: [RenamingImporter()(to_python_ast(e)) for e in exprs]),
             ("DoublingImporter", lambda: [DoublingImporter()(to_python_ast(e)) for e in exprs]), ("OddExporter", lambda: [OddExporter()(e) for e in exprs])]
    def subclass_ok(uname):
        """The overriding handler is the one that runs for instances of the subclass (whatever the stock class did before)."""
        if uname == "PowImporter":
            r = outcome.run(lambda: PowImporter()(to_python_ast(p.BitwiseXor((x, y)))))
            return r == ("val", p.Power(x, y)), r
        if uname == "RenamingImporter":
            r = outcome.run(lambda: RenamingImporter()(to_python_ast(p.Sum((x, 7)))))
            return r == ("val", p.Sum((p.Variable("x_renamed"), 7))), r
        if uname == "DoublingImporter":
            r = outcome.run(lambda: DoublingImporter()(to_python_ast(p.Sum((x, 7)))))
            return r == ("val", p.Sum((x, 14))), r
        r = outcome.run(lambda: ast.unparse(OddExporter()(p.Product((2, p.Sum((x, 7)))))))
        return r == ("val", "2 * 0"), r
    for uname, use in users:
        for order in ("subclass-first", "stock-first"):
            if order == "stock-first":
                stock_ok()
            outcome.run(use)
            sub_good, sub_r = subclass_ok(uname)
            b.case((uname, order, "subclass"), nontrivial=True)
            if not sub_good:
                b.fail(Failure("importer-subclass-histories", f"subclass={uname} order={order} what=override-not-used", dict(kind="imp-hist-sub", subclass=uname, order=order), expected="the overriding handler's result",
                               actual=outcome.describe(sub_r)[:150], functions=["ASTMapper.rec"]))
            bad = stock_ok()
            b.case((uname, order), nontrivial=True, sample=dict(subclass=uname, order=order))
            if bad:
                e, env, want, got, got2 = bad[0]
                b.fail(Failure("importer-subclass-histories", f"subclass={uname} order={order} expr={e!r}", dict(kind="imp-hist", subclass=uname, order=order, expr=repr(e)), expected=outcome.describe(want)[:80],
                               actual=f"import: {outcome.describe(got)[:80]} export: {outcome.describe(got2)[:80]}", functions=["ASTMapper.rec"]))
    return b


def b_warnings_as_errors(tier, seed):
    """The four code-generation paths under `-W error`: no deprecated path of the library or of Python is taken for well-formed input."""
    import warnings as _w
    import pymbolic
    from pymbolic.interop.ast import ASTToPymbolic, to_evaluatable_python_function, to_python_ast
    b = BoundedRun("codegen-warnings-as-errors", rule="with every warning turned into an error: compile, to_python_ast, to_evaluatable_python_function and the import of the exported AST on a "
                   "sample of the pool (incl. bool, negative, complex and numpy constants, keyword calls): the outcome class they have without the filter", bound="every 4th pool expression x 4 paths",
                   functions=["PymbolicToASTMapper.map_constant", "PymbolicToASTMapper.map_*", "CompileMapper", "ASTToPymbolic"])
    for label, e in pool(tier, seed)[::4] + [t for t in pool(tier, seed) if t[0].startswith(("bool-", "signed-zero", "CallKw", "numpy-bool"))]:
        paths = [("compile", lambda: pymbolic.compile(e)), ("to_python_ast", lambda: to_python_ast(e)), ("function-source", lambda: to_evaluatable_python_function(e, "fn")),
                 ("reimport", lambda: ASTToPymbolic()(to_python_ast(e)))]
        for pname, fn in paths:
            with _w.catch_warnings():
                _w.simplefilter("ignore")
                ref = outcome.run(fn)
            with _w.catch_warnings():
                _w.simplefilter("error")
                try:
                    fn()
                    got = ("val",)
                except Warning as w_:
                    got = ("exc", type(w_), str(w_)[:100])
                except Exception as ex:  # noqa: BLE001
                    got = ("exc", type(ex))
            b.case((pname, label), sample=dict(path=pname, label=label))
            if got[0] != ref[0] or (got[0] == "exc" and got[1] is not ref[1]):
                b.fail(Failure("codegen-warnings-as-errors", f"path={pname} label={label} expr={e!r}"[:300], dict(kind="cg-werror", path=pname, expr=repr(e)), expected=outcome.describe(ref)[:100],
                               actual=repr(got)[:160], functions=["PymbolicToASTMapper.map_constant" if "ast" in pname or pname != "compile" else "CompileMapper"]))
    return b


def bounded(tier, seed, procs):
    return [b_programs(tier, seed), b_signature(tier), b_importer_subclasses(tier), b_warnings_as_errors(tier, seed)]


def proof_jobs(tier):
    import pymbolic.primitives as p
    from contracts import c13 as K
    jobs = [("function", fc, None, K.hooks) for fc in K.CHAINS]
    jobs += [("mapper", mc, getattr(p, k), K.hooks) for mc, k in K.MAPPER_JOBS]
    return jobs


def replay(case):
    import pymbolic
    import pymbolic.primitives as p
    from immutabledict import immutabledict
    ns = {n: getattr(p, n) for n in dir(p)}
    ns["immutabledict"] = immutabledict
    if case.get("kind") == "sig":
        return dict(note="re-run the argument-convention check")
    e = eval(case["expr"], ns)
    from pymbolic.interop.ast import to_python_ast
    out = {}
    r = outcome.run(lambda: pymbolic.compile(e, case.get("listed", [])))
    out["compile"] = outcome.describe(r)[:200]
    r = outcome.run(lambda: ast.unparse(to_python_ast(e)))
    out["ast"] = outcome.describe(r)[:300]
    return out

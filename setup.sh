#!/bin/bash
# Builds /verif/.venv offline: python 3.12 (same interpreter line as /venv, which has
# pymbolic installed in editable mode pointing at /repo) + solver wheels from the
# offline wheelhouse + a .pth that exposes /venv's site-packages (numpy, pytools, ...).
set -euo pipefail
cd "$(dirname "$0")"
V=.venv
if [ -x "$V/bin/python" ] && "$V/bin/python" -c "import z3, cvc5, jsonschema, pymbolic" 2>/dev/null; then
    echo "setup: $V already usable"
    exit 0
fi
rm -rf "$V"
/venv/bin/python -m venv "$V"
PIP_NO_INDEX=1 "$V/bin/pip" install -q --no-index --find-links /opt/veriftools/wheels \
    z3-solver cvc5 jsonschema crosshair-tool deal icontract
SP=$("$V/bin/python" -c "import sysconfig; print(sysconfig.get_paths()['purelib'])")
echo "import site; site.addsitedir('/venv/lib/python3.12/site-packages')" > "$SP/_repo_deps.pth"
"$V/bin/python" -c "import z3, cvc5, jsonschema, pymbolic; print('setup: ok', z3.get_version_string(), pymbolic.__file__)"

"""Mapper classes used as subjects of optimize_mapper in the bounded C05 check (the optimizer reads
class source from the module file, so they must live in a real module)."""
import pymbolic.primitives as prim
from pymbolic.mapper import CachedIdentityMapper, CachedMapper, Collector, IdentityMapper


class Renamer(IdentityMapper):
    """Renames variables x -> z; passes extra arguments through; counts handler calls."""

    def map_variable(self, expr, *args, **kwargs):
        self.calls = getattr(self, "calls", 0) + 1
        suffix = "".join(str(a) for a in args) + "".join(f"{k}{v}" for k, v in sorted(kwargs.items()))
        return prim.Variable(("z" if expr.name == "x" else expr.name) + suffix)


class CachedRenamer(CachedIdentityMapper):
    def map_variable(self, expr, *args, **kwargs):
        self.calls = getattr(self, "calls", 0) + 1
        suffix = "".join(str(a) for a in args) + "".join(f"{k}{v}" for k, v in sorted(kwargs.items()))
        return prim.Variable(("z" if expr.name == "x" else expr.name) + suffix)


class PlainCachedRenamer(CachedIdentityMapper):
    """No extra arguments anywhere (so that drop_args/drop_kwargs are legitimate)."""

    def map_variable(self, expr):
        self.calls = getattr(self, "calls", 0) + 1
        return prim.Variable("z" if expr.name == "x" else expr.name)

    def map_constant(self, expr):
        return expr

    def get_cache_key(self, expr):
        # a mapper without extra arguments keys its cache on the expression alone (cf. test/testlib.py)
        return (type(expr), expr)


class VarCollector(Collector):
    def map_variable(self, expr, *args, **kwargs):
        return {(expr.name, args, tuple(sorted(kwargs.items())))}

    def map_constant(self, expr, *args, **kwargs):
        return set()


class TypeTagger(CachedMapper, IdentityMapper):
    """A type-sensitive constant handler: 4, 4.0 and True map to different results."""

    def __init__(self):
        CachedMapper.__init__(self)

    def map_constant(self, expr, *args, **kwargs):
        return prim.Variable(type(expr).__name__)


class PlainTypeTagger(IdentityMapper):
    def map_constant(self, expr, *args, **kwargs):
        return prim.Variable(type(expr).__name__)


class KwRenamer(IdentityMapper):
    """Uses keyword extras only (valid under drop_args, not under drop_kwargs)."""

    def map_variable(self, expr, **kwargs):
        suffix = "".join(f"{k}{v}" for k, v in sorted(kwargs.items()))
        return prim.Variable(("z" if expr.name == "x" else expr.name) + suffix)

    def map_constant(self, expr, **kwargs):
        return expr


class ArgRenamer(IdentityMapper):
    """Uses positional extras only (valid under drop_kwargs, not under drop_args)."""

    def map_variable(self, expr, *args):
        suffix = "".join(str(a) for a in args)
        return prim.Variable(("z" if expr.name == "x" else expr.name) + suffix)

    def map_constant(self, expr, *args):
        return expr


from pymbolic.mapper import CachedWalkMapper  # noqa: E402
from pymbolic.mapper.analysis import NodeCountMapper  # noqa: E402


class TallyWalker(CachedWalkMapper):
    """A cached walker: every handler returns None; counts completed nodes (once per key on one instance)."""

    def __init__(self):
        super().__init__()
        self.calls = 0

    def post_visit(self, expr):
        self.calls += 1

    def get_cache_key(self, expr):
        return (type(expr), expr)


class CountNodes(NodeCountMapper):
    """The stock node counter, unchanged but for the cache key of an argument-free mapper."""

    def get_cache_key(self, expr):
        return (type(expr), expr)

    @property
    def calls(self):
        return self.count


class SumReverser(CachedIdentityMapper):
    """Overrides the TARGET of an inherited alias (IdentityMapper.map_product = map_sum) but not the alias: products keep the base behaviour."""

    def map_sum(self, expr):
        self.calls = getattr(self, "calls", 0) + 1
        return prim.Sum(tuple(self.rec(c) for c in reversed(expr.children)))

    def get_cache_key(self, expr):
        return (type(expr), expr)


class QuotientSwapper(CachedIdentityMapper):
    """Same for map_quotient (alias target of map_floor_div / map_remainder)."""

    def map_quotient(self, expr):
        self.calls = getattr(self, "calls", 0) + 1
        return prim.Quotient(self.rec(expr.denominator), self.rec(expr.numerator))

    def get_cache_key(self, expr):
        return (type(expr), expr)


class PlainVarCollector(Collector):
    """A collector of variable names without extra arguments (so that drop_args / drop_kwargs are legitimate)."""

    def map_variable(self, expr):
        self.calls = getattr(self, "calls", 0) + 1
        return {expr.name}


class CachedPlainVarCollector(CachedMapper, Collector):
    def map_variable(self, expr):
        self.calls = getattr(self, "calls", 0) + 1
        return {expr.name}

    def get_cache_key(self, expr):
        return (type(expr), expr)

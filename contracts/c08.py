"""C08: substitution commutes with evaluation."""
import pymbolic.primitives as prim
from contracts import c04
from pymbolic.mapper.substitutor import make_subst_func
from pyvc.api import FunctionContract, MapperContract, fields_identical, map_children, same, spec


# ----------------------------------------------------------------------------- the closure built by make_subst_func
def subst_func_lemma(assignments, var):
    return make_subst_func(assignments)(var)


def subst_func_spec(assignments, var):
    """sigma(var): the entry for the node itself if it is a key; else, for a Variable, the entry for its name; else None.
    (whole-node keys win; nothing else is ever looked up)"""
    if var in assignments:
        return assignments[var]
    if isinstance(var, prim.Variable) and var.name in assignments:
        return assignments[var.name]
    return None


SUBST_FUNC = [
    FunctionContract("C08.make_subst_func.subst_func[any]", subst_func_lemma, [("assignments", "symdict"), ("var", "v")],
                     refines=subst_func_spec, property_id="C08"),
    FunctionContract("C08.make_subst_func.subst_func[Variable]", subst_func_lemma, [("assignments", "symdict"), ("var", "node:Variable")],
                     refines=subst_func_spec, property_id="C08"),
    FunctionContract("C08.make_subst_func.subst_func[Subscript]", subst_func_lemma, [("assignments", "symdict"), ("var", "node:Subscript")],
                     refines=subst_func_spec, property_id="C08"),
]


# ----------------------------------------------------------------------------- SubstitutionMapper
def sub_rec(self, e, args, kwargs):
    return c04.Rid(e, args, kwargs)


def sub_setup(I, selfv, expr):
    """self.subst_func is an arbitrary pure function sigma (uninterpreted)."""
    from pyvc import smt
    from pyvc.values import BoundMethod, NativeHandler, SymV

    def sigma(I, self_obj, args, kwargs, star, dstar, node):
        return SymV(smt.fn("sigma", smt.V, smt.V)(I.lift(args[0])))
    selfv.attrs["subst_func"] = BoundMethod(selfv, NativeHandler(sigma), "subst_func")


def sub_post(self, expr, args, kwargs, result):
    """Interception first: if sigma(expr) is not None it IS the result (the replacement is not traversed again);
    otherwise the node is handled like the identity traversal (children mapped, same object when unchanged)."""
    if isinstance(expr, (prim.Variable, prim.Subscript, prim.Lookup)):
        r = self.subst_func(expr)
        if r is not None:
            return same(result, r)
        if isinstance(expr, prim.Variable):
            return same(result, expr)
    return c04.ident_post(self, expr, args, kwargs, result)


SUBSTITUTION = MapperContract(
    "C08.SubstitutionMapper", "pymbolic.mapper.substitutor:SubstitutionMapper", rec=sub_rec,
    ensures=[("intercept-or-identity", sub_post)], setup=sub_setup, extra_args=False, property_id="C08")
SUBSTITUTION.allowed_exc = c04.IDENTITY.allowed_exc

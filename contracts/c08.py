"""C08: substitution commutes with evaluation."""
import pymbolic.primitives as prim
from contracts import c04
from pymbolic.mapper.substitutor import make_subst_func
from pyvc.api import FunctionContract, MapperContract, fields_identical, map_children, same, spec


# ----------------------------------------------------------------------------- the closure built by make_subst_func
def subst_func_lemma(assignments, var):
    return make_subst_func(assignments)(var)


def subst_func_spec(assignments, var):
    """sigma(var): the entry for the node itself if it is a key; else, for a Variable, the entry for its name; else None.
    (whole-node keys win; nothing else is ever looked up)"""
    if var in assignments:
        return assignments[var]
    if isinstance(var, prim.Variable) and var.name in assignments:
        return assignments[var.name]
    return None


SUBST_FUNC = [
    FunctionContract("C08.make_subst_func.subst_func[any]", subst_func_lemma, [("assignments", "symdict"), ("var", "v")],
                     refines=subst_func_spec, property_id="C08"),
    FunctionContract("C08.make_subst_func.subst_func[Variable]", subst_func_lemma, [("assignments", "symdict"), ("var", "node:Variable")],
                     refines=subst_func_spec, property_id="C08"),
    FunctionContract("C08.make_subst_func.subst_func[Subscript]", subst_func_lemma, [("assignments", "symdict"), ("var", "node:Subscript")],
                     refines=subst_func_spec, property_id="C08"),
]


# ----------------------------------------------------------------------------- SubstitutionMapper
def sub_rec(self, e, args, kwargs):
    return c04.Rid(e, args, kwargs)


def sub_setup(I, selfv, expr):
    """self.subst_func is an arbitrary pure function sigma (uninterpreted)."""
    from pyvc import smt
    from pyvc.values import BoundMethod, NativeHandler, SymV

    def sigma(I, self_obj, args, kwargs, star, dstar, node):
        return SymV(smt.fn("sigma", smt.V, smt.V)(I.lift(args[0])))
    selfv.attrs["subst_func"] = BoundMethod(selfv, NativeHandler(sigma), "subst_func")


def sub_post(self, expr, args, kwargs, result):
    """Interception first: if sigma(expr) is not None it IS the result (the replacement is not traversed again);
    otherwise the node is handled like the identity traversal (children mapped, same object when unchanged)."""
    if isinstance(expr, (prim.Variable, prim.Subscript, prim.Lookup)):
        r = self.subst_func(expr)
        if r is not None:
            return same(result, r)
        if isinstance(expr, prim.Variable):
            return same(result, expr)
    return c04.ident_post(self, expr, args, kwargs, result)


SUBSTITUTION = MapperContract(
    "C08.SubstitutionMapper", "pymbolic.mapper.substitutor:SubstitutionMapper", rec=sub_rec,
    ensures=[("intercept-or-identity", sub_post)], setup=sub_setup, extra_args=False, property_id="C08")
SUBSTITUTION.allowed_exc = c04.IDENTITY.allowed_exc


# ----------------------------------------------------------------------------- the substitution lemma over den
# den(substitute(e), env) == den_sigma(e, env), proved per node class K by one step of structural induction:
#   IH   den(self.rec(c), env) has the outcome of den_sigma(c, env) for every child c;
#   step den(map_K(e), env) has the outcome of one unfolding of den_sigma at e:
#          den(sigma(e), env)                                   if e is a Variable / Subscript / Lookup and sigma(e) is not None
#          den's own defining clause for K with den_sigma in the recursive positions   otherwise.
# n-ary classes are proved for every operand count 0..MAX_ARITY (stated bound) with arbitrary operands.
from contracts.specs import den  # noqa: E402

MAX_ARITY = 3


def subst_then_den(self, expr, env):
    return den(self(expr), env)


def den_sigma_step(self, expr, env):
    if isinstance(expr, (prim.Variable, prim.Subscript, prim.Lookup)):
        r = self.subst_func(expr)
        if r is not None:
            return den(r, env)
    return den_with_sigma_inside(expr, env)


def den_with_sigma_inside(expr, env):
    """den's defining clause at expr with den_sigma in the recursive positions (symbolic only)."""
    raise NotImplementedError("ghost")


def lemma_setup(n=None, field="children", nkw=None):
    def st(I, inputs):
        import z3
        from pyvc import smt
        from pyvc.smt import V, Bool, fn
        from pyvc.values import BoundMethod, Conc, NativeHandler, PyTuple, SymV
        selfv, expr, env = inputs[0], inputs[1], inputs[2]
        envt = I.lift(env)
        if n is not None:
            expr.fields[field] = PyTuple([SymV(z3.Const(f"child{i}", V)) for i in range(n)])
        if nkw is not None:
            from pyvc.values import PyDict
            expr.fields["kw_parameters"] = PyDict({f"k{i}": SymV(z3.Const(f"kwchild{i}", V)) for i in range(nkw)})
        R = fn("Rsub", V, V)

        def sigma(I, self_obj, args, kwargs, star, dstar, node):
            return SymV(fn("sigma", V, V)(I.lift(args[0])))
        selfv.attrs["subst_func"] = BoundMethod(selfv, NativeHandler(sigma), "subst_func")

        def rec(I, self_obj, args, kwargs, star, dstar, node):
            c = I.lift(args[0])
            t = R(c)
            # induction hypothesis at this child, for the environment of the lemma
            for suffix, sort in (("_v", V), ("_ok", Bool), ("_exc", V)):
                I.ctx.assume(fn("den" + suffix, V, V, sort)(t, envt) == fn("dsig" + suffix, V, V, sort)(c, envt))
            return SymV(t)
        selfv.rec_contract = NativeHandler(rec)
        I.tracked = [t for t in I.tracked if t[0] is not selfv]
        I.track(selfv)

        def dws(I, args, kwargs, star, dstar, node):
            I.spec_alias = {"den": "dsig"}
            try:
                return I.call_function(Conc(den), list(args), {})
            finally:
                I.spec_alias = {}
        I.contracts[id(den_with_sigma_inside)] = dws
    return st


def lemma_requires(self, expr, env):
    from contracts.specs import node_inv
    return node_inv(expr)


def lemma_contracts():
    from pyvc import verify
    out = []
    nary = {"Sum", "Product", "BitwiseOr", "BitwiseXor", "BitwiseAnd", "LogicalOr", "LogicalAnd", "Min", "Max"}
    for k in verify.node_class_table():
        if k.__module__ != "pymbolic.primitives":
            continue
        name = k.__name__
        if name in ("QuotientBase", "_ShiftOperator", "CommonSubexpression", "CallWithKwargs"):
            # QuotientBase: abstract (both sides refuse, with different error classes); CommonSubexpression: the identity traversal
            # returns the constant 0 for a falsy mapped child (known finding C04-identity-cse-zero), not claimed here; CallWithKwargs: the
            # keyword mapping is rebuilt through a dict comprehension whose symbolic form the engine cannot match (bounded only)
            continue
        if name == "Call":
            variants = [(f"[parameters={n}]", lemma_setup(n, "parameters")) for n in range(MAX_ARITY + 1)]
        elif name in nary:
            variants = [(f"[arity={n}]", lemma_setup(n)) for n in range(MAX_ARITY + 1)]
        else:
            variants = [("", lemma_setup())]
        for tag, st in variants:
            out.append(FunctionContract(f"C08.substitution-lemma[{name}]{tag}", subst_then_den,
                                        [("self", "obj:pymbolic.mapper.substitutor:SubstitutionMapper"), ("expr", f"node:{name}"), ("env", "strmap")],
                                        requires=lemma_requires, refines=den_sigma_step, setup=st, property_id="C08"))
    return out


LEMMA = lemma_contracts()

"""C18: bit kernels of the geometric algebra, at a stated bitmap width W (bit-vectors)."""
from pyvc.api import FunctionContract, Loop, ite, spec, to_int

import os
W = int(os.environ.get("VERIF_GA_WIDTH", "8"))   # width of the blade bitmaps modelled (covers every space of dimension <= 8; the property ranges over 0..5)


def popcount_bits(i, w=W):
    """Reference popcount: the number of set bits among the low w bits."""
    n = 0
    for k in range(w):
        n = n + ((i >> k) & 1)
    return n


def bit_count_post(i, result):
    return result == popcount_bits(i)


BIT_COUNT = FunctionContract(
    "C18.bit_count", "pymbolic.geometric_algebra:bit_count", [("i", f"bv{W}")],
    ensures=[("popcount", bit_count_post)], loops={0: Loop(unroll=W)}, arithmetic=True, property_id="C18")


def bit_count_callee(i):
    """Assumed (proved above) contract of bit_count."""
    return popcount_bits(i)


def swaps(a_bits, b_bits, w=W):
    """Number of pairs (i in a, j in b) with i > j: the transpositions needed to bring e_a e_b into canonical order."""
    n = 0
    for i in range(w):
        for j in range(i):
            n = n + (((a_bits >> i) & 1) & ((b_bits >> j) & 1))
    return n


def crs_post(a_bits, b_bits, result):
    return result == (-1 if (swaps(a_bits, b_bits) % 2) == 1 else 1)


CRS = FunctionContract(
    "C18.canonical_reordering_sign", "pymbolic.geometric_algebra:canonical_reordering_sign",
    [("a_bits", f"bv{W}"), ("b_bits", f"bv{W}")], ensures=[("transposition-parity", crs_post)],
    loops={0: Loop(unroll=W)}, assume={"pymbolic.geometric_algebra:bit_count": bit_count_callee},
    arithmetic=True, property_id="C18")

FUNCTIONS = [BIT_COUNT, CRS]


# ----------------------------------------------------------------------------- metric coefficient and blade weights
def make_space(I, inputs):
    """space: an object whose metric_matrix has symbolic integer diagonal entries g_0 .. g_{W-1}."""
    import z3
    from pyvc import smt
    from pyvc.values import PyDict, SymInt, SymObj
    sp = next(v for v in inputs if isinstance(v, SymObj))
    sp.attrs["metric_matrix"] = PyDict({(i, i): SymInt(z3.Const(f"g{i}", smt.Int)) for i in range(W)})
    I.tracked = [t for t in I.tracked if t[0] is not sp]
    I.track(sp)


def metric_prod(bits, space, w=W):
    """Product of the metric entries of the basis vectors in bits."""
    r = 1
    for i in range(w):
        r = r * ite((bits >> i) & 1, space.metric_matrix[i, i], 1)
    return r


def smc_post(shared_bits, space, result):
    return result == metric_prod(shared_bits, space)


SMC = FunctionContract(
    "C18._shared_metric_coeff", "pymbolic.geometric_algebra:_shared_metric_coeff",
    [("shared_bits", f"bv{W}"), ("space", "obj:pymbolic.geometric_algebra:Space")], ensures=[("metric-product", smc_post)],
    loops={0: Loop(unroll=W)}, setup=make_space, arithmetic=True, property_id="C18")


def smc_callee(shared_bits, space):
    return metric_prod(shared_bits, space)


def grade(bits, w=W):
    return to_int(popcount_bits(bits, w))


def geometric_weight(a, b, space):
    return metric_prod(a & b, space)


def weight_contract(name, cond):
    """weight(a, b) == the geometric weight when the grade condition of the product holds, else 0."""
    def post(a_bits, b_bits, space, result):
        if cond(a_bits, b_bits):
            return result == geometric_weight(a_bits, b_bits, space)
        return result == 0
    post.__name__ = f"{name}_post"
    return post


def _g(x):
    return grade(x)


_ASSUME = {"pymbolic.geometric_algebra:_shared_metric_coeff": smc_callee}
_PARAMS = [("a_bits", f"bv{W}"), ("b_bits", f"bv{W}"), ("space", "obj:pymbolic.geometric_algebra:Space")]

# the grade of e_A e_B (a single blade A xor B) is |A| + |B| - 2|A & B|; each derived product keeps the geometric
# weight exactly when that grade is the one the product selects
WEIGHTS = [
    FunctionContract("C18._GeometricProduct.weight", "pymbolic.geometric_algebra:_GeometricProduct.orthogonal_blade_product_weight", _PARAMS,
                     ensures=[("geometric", lambda a_bits, b_bits, space, result: result == geometric_weight(a_bits, b_bits, space))],
                     assume=_ASSUME, setup=make_space, arithmetic=True, property_id="C18"),
    FunctionContract("C18._OuterProduct.weight", "pymbolic.geometric_algebra:_OuterProduct.generic_blade_product_weight", _PARAMS,
                     ensures=[("outer = grade |A|+|B| part", lambda a_bits, b_bits, space, result:
                               result == (geometric_weight(a_bits, b_bits, space) if _g(a_bits ^ b_bits) == _g(a_bits) + _g(b_bits) else 0))],
                     assume=_ASSUME, setup=make_space, arithmetic=True, property_id="C18"),
    FunctionContract("C18._InnerProduct.weight", "pymbolic.geometric_algebra:_InnerProduct.orthogonal_blade_product_weight", _PARAMS,
                     ensures=[("inner = grade ||A|-|B|| part", lambda a_bits, b_bits, space, result:
                               result == (geometric_weight(a_bits, b_bits, space)
                                          if _g(a_bits ^ b_bits) == abs(_g(a_bits) - _g(b_bits)) else 0))],
                     assume=_ASSUME, setup=make_space, arithmetic=True, property_id="C18"),
    FunctionContract("C18._LeftContractionProduct.weight", "pymbolic.geometric_algebra:_LeftContractionProduct.orthogonal_blade_product_weight", _PARAMS,
                     ensures=[("left contraction = grade |B|-|A| part", lambda a_bits, b_bits, space, result:
                               result == (geometric_weight(a_bits, b_bits, space) if _g(a_bits ^ b_bits) == _g(b_bits) - _g(a_bits) else 0))],
                     assume=_ASSUME, setup=make_space, arithmetic=True, property_id="C18"),
    FunctionContract("C18._RightContractionProduct.weight", "pymbolic.geometric_algebra:_RightContractionProduct.orthogonal_blade_product_weight", _PARAMS,
                     ensures=[("right contraction = grade |A|-|B| part", lambda a_bits, b_bits, space, result:
                               result == (geometric_weight(a_bits, b_bits, space) if _g(a_bits ^ b_bits) == _g(a_bits) - _g(b_bits) else 0))],
                     assume=_ASSUME, setup=make_space, arithmetic=True, property_id="C18"),
    FunctionContract("C18._ScalarProduct.weight", "pymbolic.geometric_algebra:_ScalarProduct.orthogonal_blade_product_weight", _PARAMS,
                     ensures=[("scalar = grade 0 part", lambda a_bits, b_bits, space, result:
                               result == (geometric_weight(a_bits, b_bits, space) if _g(a_bits ^ b_bits) == 0 else 0))],
                     assume=_ASSUME, setup=make_space, arithmetic=True, property_id="C18"),
]
FUNCTIONS += [SMC] + WEIGHTS


# ----------------------------------------------------------------------------- blade-level algebra (lemmas over the contracts)
# By the contracts above, the geometric product of basis blades computed by the code is
#     e_A e_B = sign(A, B) * metric_prod(A & B) * e_{A xor B},   sign(A, B) = (-1)**swaps(A, B).
def par(x):
    """Parity of the set bits of a W-bit bitmap (xor fold)."""
    for sh in (8, 4, 2, 1):
        if sh < W:
            x = x ^ (x >> sh)
    return x & 1


def sgn(a, b, w=W):
    """Parity of swaps(a, b) (0: sign +1, 1: sign -1): for every i in a, the b-bits strictly below i."""
    p = 0
    for i in range(1, w):
        p = p ^ (((a >> i) & 1) & par(b & ((1 << i) - 1)))
    return p


def L_sgn_is_swaps_parity(a, b):
    """The xor-fold form of the sign is the parity of the transposition count."""
    return sgn(a, b) == swaps(a, b) % 2


def L_assoc_sign(a, b, c):
    """Sign cocycle: (e_A e_B) e_C and e_A (e_B e_C) carry the same reordering sign."""
    return (sgn(a, b) + sgn(a ^ b, c)) % 2 == (sgn(b, c) + sgn(a, b ^ c)) % 2


def L_assoc_metric(a, b, c):
    """... and the same multiset of metric factors: bits contributing twice and bits contributing once agree."""
    l1, l2 = a & b, (a ^ b) & c
    r1, r2 = b & c, a & (b ^ c)
    return (l1 & l2) == (r1 & r2) and (l1 ^ l2) == (r1 ^ r2)


def L_square(a):
    """A basis vector squares to its metric entry: for a single-bit blade sign(A, A) = +1 and A & A = A."""
    if grade(a) == 1:
        return sgn(a, a) == 0 and (a ^ a) == 0
    return True


def L_anticommute(a, b):
    """Distinct basis vectors anticommute: e_i e_j = - e_j e_i (no shared bit, opposite signs)."""
    if grade(a) == 1 and grade(b) == 1 and a != b:
        return (a & b) == 0 and sgn(a, b) != sgn(b, a)
    return True


def L_reverse(a):
    """Reversing a blade of grade k costs k(k-1)/2 transpositions: sign(A, A) parity = k(k-1)/2 mod 2,
    which is the sign expression used by rev() and inv()."""
    k = grade(a)
    return sgn(a, a) == ((k * (k - 1)) // 2) % 2


def L_blade_inverse(a):
    """e_A * rev(e_A) = metric_prod(A): (sign(A,A))^2-free form: reverse sign times sign(A, A) is +1, A xor A = scalar."""
    k = grade(a)
    return (sgn(a, a) + ((k * (k - 1)) // 2)) % 2 == 0 and (a ^ a) == 0


def L_outer_grade(a, b):
    """The grade of e_A e_B is |A| + |B| - 2 |A & B| (so outer <=> disjoint)."""
    return popcount_bits(a ^ b) + 2 * popcount_bits(a & b) == popcount_bits(a) + popcount_bits(b)


def _true(*args):
    return args[-1]


BV = f"bv{W}"
BLADE_LEMMAS = [
    FunctionContract("C18.lemma.sign-is-transposition-parity", L_sgn_is_swaps_parity, [("a", BV), ("b", BV)], ensures=[("holds", _true)], arithmetic=True, property_id="C18"),
    FunctionContract("C18.lemma.associativity/sign-cocycle", L_assoc_sign, [("a", BV), ("b", BV), ("c", BV)], ensures=[("holds", _true)], arithmetic=True, property_id="C18"),
    FunctionContract("C18.lemma.associativity/metric-multiset", L_assoc_metric, [("a", BV), ("b", BV), ("c", BV)], ensures=[("holds", _true)], arithmetic=True, property_id="C18"),
    FunctionContract("C18.lemma.basis-vector-squares-to-metric", L_square, [("a", BV)], ensures=[("holds", _true)], arithmetic=True, property_id="C18"),
    FunctionContract("C18.lemma.basis-vectors-anticommute", L_anticommute, [("a", BV), ("b", BV)], ensures=[("holds", _true)], arithmetic=True, property_id="C18"),
    FunctionContract("C18.lemma.reverse-sign", L_reverse, [("a", BV)], ensures=[("holds", _true)], arithmetic=True, property_id="C18"),
    FunctionContract("C18.lemma.blade-inverse", L_blade_inverse, [("a", BV)], ensures=[("holds", _true)], arithmetic=True, property_id="C18"),
    FunctionContract("C18.lemma.product-grade", L_outer_grade, [("a", BV), ("b", BV)], ensures=[("holds", _true)], arithmetic=True, property_id="C18"),
]

"""User node classes in small inheritance hierarchies (decorated, undecorated-legacy, mixed)."""
import warnings

import pymbolic.primitives as p

with warnings.catch_warnings():
    warnings.simplefilter("ignore")

    @p.expr_dataclass()
    class UBase(p.Expression):
        child: p.ExpressionT
        tag: str

    @p.expr_dataclass()
    class UDerived(UBase):
        extra: p.ExpressionT

    @p.expr_dataclass()
    class UNoHash(p.Expression):
        child: p.ExpressionT

    @p.expr_dataclass(init=False)
    class UNoInit(p.Expression):
        child: p.ExpressionT

        def __init__(self, child):
            object.__setattr__(self, "child", child)

    class LegacyChildOfDecorated(UBase):
        """Undecorated subclass of a decorated class that keeps the inherited fields."""
        mapper_method = "map_legacy_child"

    class LegacyPair(p.Expression):
        """Pure legacy node: init-args protocol only."""
        init_arg_names = ("first", "second")

        def __init__(self, first, second):
            self.first = first
            self.second = second

        def __getinitargs__(self):
            return (self.first, self.second)

        mapper_method = "map_legacy_pair"

    class LegacyPairSub(LegacyPair):
        pass

    class LegacyExtended(UBase):
        """Undecorated subclass of a decorated class that ADDS an init arg (legacy branch of generated methods)."""
        init_arg_names = ("child", "tag", "more")

        def __init__(self, child, tag, more):
            object.__setattr__(self, "child", child)
            object.__setattr__(self, "tag", tag)
            object.__setattr__(self, "more", more)

        def __getinitargs__(self):
            return (self.child, self.tag, self.more)

DECORATED = [UBase, UDerived, UNoHash, UNoInit]
LEGACY_INHERITING = [LegacyChildOfDecorated]
LEGACY = [LegacyPair, LegacyPairSub]

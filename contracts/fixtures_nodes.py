"""User node classes in small inheritance hierarchies (decorated, undecorated-legacy, mixed)."""
import warnings

import pymbolic.primitives as p

with warnings.catch_warnings():
    warnings.simplefilter("ignore")

    @p.expr_dataclass()
    class UBase(p.Expression):
        child: p.ExpressionT
        tag: str

    @p.expr_dataclass()
    class UDerived(UBase):
        extra: p.ExpressionT

    @p.expr_dataclass()
    class UNoHash(p.Expression):
        child: p.ExpressionT

    @p.expr_dataclass(init=False)
    class UNoInit(p.Expression):
        child: p.ExpressionT

        def __init__(self, child):
            object.__setattr__(self, "child", child)

    import dataclasses as _dc

    @p.expr_dataclass()
    class UPostInit(p.Expression):
        """A field that __init__ does not take (init=False): filled in by __post_init__, part of equality, hash and the pickled state."""
        child: p.ExpressionT
        label: str = _dc.field(init=False)

        def __post_init__(self):
            object.__setattr__(self, "label", f"<{self.child}>")

    @p.expr_dataclass()
    class UPostInitDefault(p.Expression):
        """As UPostInit, with a class-level default for the init=False field."""
        child: p.ExpressionT
        weight: int = _dc.field(init=False, default=0)

        def __post_init__(self):
            object.__setattr__(self, "weight", 3 if isinstance(self.child, p.Variable) else 5)

    class LegacyChildOfDecorated(UBase):
        """Undecorated subclass of a decorated class that keeps the inherited fields."""
        mapper_method = "map_legacy_child"

    class LegacyPair(p.Expression):
        """Pure legacy node: init-args protocol only."""
        init_arg_names = ("first", "second")

        def __init__(self, first, second):
            self.first = first
            self.second = second

        def __getinitargs__(self):
            return (self.first, self.second)

        mapper_method = "map_legacy_pair"

    class LegacyPairSub(LegacyPair):
        pass

    class LegacyExtended(UBase):
        """Undecorated subclass of a decorated class that ADDS an init arg (legacy branch of generated methods)."""
        init_arg_names = ("child", "tag", "more")

        def __init__(self, child, tag, more):
            object.__setattr__(self, "child", child)
            object.__setattr__(self, "tag", tag)
            object.__setattr__(self, "more", more)

        def __getinitargs__(self):
            return (self.child, self.tag, self.more)

    class LegacyExtendedSub(LegacyExtended):
        """Second legacy level: inherits init_arg_names / __getinitargs__ from its legacy parent, redefines nothing of the protocol."""
        mapper_method = "map_legacy_extended_sub"

DECORATED = [UBase, UDerived, UNoHash, UNoInit]
LEGACY_INHERITING = [LegacyChildOfDecorated]
LEGACY = [LegacyPair, LegacyPairSub]

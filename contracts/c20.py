"""C20: statement-stream utilities (deductive kernel: written-variable sets, conditional reads)."""
import pymbolic.primitives as p
from pyvc.api import FunctionContract


def written_spec(self):
    """The assigned variable, or the aggregate of a subscripted left-hand side; anything else is rejected."""
    if isinstance(self.lhs, p.Variable):
        return frozenset([self.lhs.name])
    if isinstance(self.lhs, p.Subscript) and isinstance(self.lhs.aggregate, p.Variable):
        return frozenset([self.lhs.aggregate.name])
    raise TypeError("unexpected type of LHS")


def _mk(kind_lhs, label):
    def setup(I, inputs):
        from pyvc.verify import make_input
        inputs[0].attrs["lhs"] = make_input(I, "lhs", kind_lhs)
        if kind_lhs == "node:Subscript":
            # the aggregate is a Variable in well-formed programs (the code asserts it)
            import z3
            from pyvc import smt
            agg = inputs[0].attrs["lhs"].fields["aggregate"]
            inputs[0].attrs["lhs"].fields["aggregate"] = I.sym_node(p.Variable, agg.t)
        I.tracked = [t for t in I.tracked if t[0] is not inputs[0]]
        I.track(inputs[0])
    return FunctionContract(f"C20.Assignment.get_written_variables[lhs:{label}]",
                            "pymbolic.imperative.statement:Assignment.get_written_variables",
                            [("self", "obj:pymbolic.imperative.statement:Assignment")], refines=written_spec, setup=setup,
                            property_id="C20")


FUNCTIONS = [_mk("node:Variable", "Variable"), _mk("node:Subscript", "Subscript"), _mk("node:Sum", "other")]

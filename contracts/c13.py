"""C13: the n-ary operator chain of the Python-AST exporter (deductive kernel).

PymbolicToASTMapper._map_multi_children_op must build, for every operand count, a tree of BinOp nodes that all carry
the given operator and whose leaves, read in order, are *all* recursive results (how the tree is associated is left
open: any association means the same for the associative n-ary nodes, and the binary nodes have two operands).
ast.BinOp is interpreted by the in-order sequence of its leaves and operators (a free, associative, order-preserving
interpretation), self.rec as an uninterpreted function.
Proved per operand count 1..MAX_ARITY (stated bound); the bounded check runs widths 0..13.
"""
from __future__ import annotations

from pyvc.api import FunctionContract

MAX_ARITY = 9


def Rec(x):
    raise NotImplementedError("ghost: what self.rec(x) returns")


def BinOp(left, op, right):
    raise NotImplementedError("ghost: the record ast.BinOp(left, op, right)")


def hooks(I):
    pass


def install_inorder(I, selfv):
    """rec(x) -> (Rec(x),); BinOp(l, op, r) -> l + (op,) + r   (in-order sequences)."""
    import ast
    from pyvc import smt
    from pyvc.values import NativeHandler, PyTuple, SymV, Unsupported
    R = smt.fn("Rec", smt.V, smt.V)

    def rec(I, self_obj, args, kwargs, star, dstar, node):
        return PyTuple([SymV(R(I.lift(args[0])))])
    selfv.rec_contract = NativeHandler(rec)

    def binop(I, args, kwargs, star, dstar, node):
        if len(args) != 3 or kwargs or not isinstance(args[0], PyTuple) or not isinstance(args[2], PyTuple):
            raise Unsupported("ast.BinOp called with an unexpected signature")
        return PyTuple(list(args[0].items) + [args[1]] + list(args[2].items))
    I.contracts[id(ast.BinOp)] = binop
    I.contracts[id(BinOp)] = binop
    I.contracts[id(Rec)] = lambda I, args, kwargs, star, dstar, node: PyTuple([SymV(R(I.lift(args[0])))])


def setup_for(n):
    def st(I, inputs):
        import ast
        import z3
        from pyvc import smt
        from pyvc.values import NativeHandler, PyTuple, SymV
        R = smt.fn("Rec", smt.V, smt.V)
        B = smt.fn("BinOp", smt.V, smt.V, smt.V, smt.V)
        kids = [SymV(z3.Const(f"child{i}", smt.V)) for i in range(n)]
        inputs[1] = PyTuple(kids)

        install_inorder(I, inputs[0])
    return st


def chain_post(self, children, op_type, result):
    want = Rec(children[0])
    for i in range(1, len(children)):
        want = BinOp(want, op_type, Rec(children[i]))
    from pyvc.api import same
    return same(result, want)


CHAINS = [FunctionContract(f"C13.PymbolicToASTMapper._map_multi_children_op[n={n}]", "pymbolic.interop.ast:PymbolicToASTMapper._map_multi_children_op",
                           [("self", "obj:pymbolic.interop.ast:PymbolicToASTMapper"), ("children", "v"), ("op_type", "v")],
                           ensures=[("all-operands-in-order-one-operator", chain_post)], setup=setup_for(n), property_id="C13") for n in range(1, MAX_ARITY + 1)]


# ----------------------------------------------------------------------------- binary node handlers: operator class and operand order
import ast as _ast

from pyvc.api import MapperContract

BINARY_TABLE = {        # node class -> (Python operator class, fields in operand order): from Python's semantics of the node's den (C02)
    "Quotient": (_ast.Div, ("numerator", "denominator")), "FloorDiv": (_ast.FloorDiv, ("numerator", "denominator")),
    "Remainder": (_ast.Mod, ("numerator", "denominator")), "Power": (_ast.Pow, ("base", "exponent")),
    "LeftShift": (_ast.LShift, ("shiftee", "shift")), "RightShift": (_ast.RShift, ("shiftee", "shift")),
}
NARY_TABLE = {"Sum": _ast.Add, "Product": _ast.Mult, "BitwiseOr": _ast.BitOr, "BitwiseXor": _ast.BitXor, "BitwiseAnd": _ast.BitAnd}
OPS = [_ast.Add, _ast.Mult, _ast.Div, _ast.FloorDiv, _ast.Mod, _ast.Pow, _ast.LShift, _ast.RShift, _ast.BitOr, _ast.BitXor, _ast.BitAnd, _ast.Sub]


def to_ast_rec(self, e, args, kwargs):
    return Rec(e)


def mapper_setup(n=None):
    def st(I, selfv, expr):
        import z3
        from pyvc import smt
        from pyvc.values import Conc, NativeHandler, PyTuple, SymV
        R = smt.fn("Rec", smt.V, smt.V)
        B = smt.fn("BinOp", smt.V, smt.V, smt.V, smt.V)
        if n is not None:
            expr.fields["children"] = PyTuple([SymV(z3.Const(f"child{i}", smt.V)) for i in range(n)])

        install_inorder(I, selfv)
        for k in OPS:       # operator marker objects: ast.Div() is identified with its class
            I.contracts[id(k)] = (lambda k: lambda I, args, kwargs, star, dstar, node: Conc(k))(k)
    return st


def binary_post(cls_name):
    op, (f1, f2) = BINARY_TABLE[cls_name]

    def post(self, expr, args, kwargs, result):
        from pyvc.api import same
        return same(result, BinOp(Rec(getattr(expr, f1)), op, Rec(getattr(expr, f2))))
    return post


def nary_post(cls_name):
    op = NARY_TABLE[cls_name]

    def post(self, expr, args, kwargs, result):
        ch = expr.children
        want = Rec(ch[0])
        for i in range(1, len(ch)):
            want = BinOp(want, op, Rec(ch[i]))
        from pyvc.api import same
        return same(result, want)
    return post


MAPPER_JOBS = []
for _k in BINARY_TABLE:
    MAPPER_JOBS.append((MapperContract(f"C13.PymbolicToASTMapper.map[{_k}]", "pymbolic.interop.ast:PymbolicToASTMapper", rec=to_ast_rec,
                                       ensures=[("operator-and-operand-order", binary_post(_k))], setup=mapper_setup(), classes=[_k], extra_args=False,
                                       invariant=None, property_id="C13"), _k))
for _k in NARY_TABLE:
    for _n in (1, 2, 3, 6, 7):
        MAPPER_JOBS.append((MapperContract(f"C13.PymbolicToASTMapper.map[{_k},n={_n}]", "pymbolic.interop.ast:PymbolicToASTMapper", rec=to_ast_rec,
                                           ensures=[("operator-and-operand-order", nary_post(_k))], setup=mapper_setup(_n), classes=[_k], extra_args=False,
                                           invariant=None, property_id="C13"), _k))

"""C04: mapper dispatch and the stock traversals."""
import pymbolic.primitives as prim
from pyvc.api import (FunctionContract, MapperContract, children, fields_identical, implies,
                      map_children, same, same_elements, spec)


# ----------------------------------------------------------------------------- IdentityMapper
@spec(returns="v")
def Rid(e, args, kwargs):
    """What the recursive call returns (uninterpreted: an arbitrary mapping of sub-terms)."""
    raise NotImplementedError("ghost")


def ident_rec(self, e, args, kwargs):
    return Rid(e, args, kwargs)


def ident_post(self, expr, args, kwargs, result):
    """The identity contract: an equal-shaped tree with every child mapped by rec with the SAME extra
    arguments, every non-child field untouched; the very same object when no child changed."""
    image = map_children(expr, lambda c: Rid(c, args, kwargs))
    if isinstance(expr, list):
        return fields_identical(result, image)       # lists are mutable containers: always rebuilt
    if isinstance(expr, prim.CommonSubexpression) and prim.is_zero(image.child):
        return True   # KNOWN-FINDING C04-identity-cse-zero: region excluded, witness replayed by the bounded run
    unchanged = fields_identical(image, expr)
    if unchanged:
        return same(result, expr)
    return (not same(result, expr)) and fields_identical(result, image)


IDENTITY = MapperContract(
    "C04.IdentityMapper", "pymbolic.mapper:IdentityMapper", rec=ident_rec,
    ensures=[("identity", ident_post)], property_id="C04")
# is_zero(None) raises ValueError when a child's handler returned None (IdentityMapper.map_common_subexpression): the
# reaction to a handler that maps to no expression at all; named here so that it is not an unexpected error
IDENTITY.allowed_exc = (NotImplementedError, ValueError)


def ident_leaf_post(self, expr, args, kwargs, result):
    return same(result, expr)


# ----------------------------------------------------------------------------- CombineMapper
@spec(returns="v")
def Rcomb(e, args, kwargs):
    raise NotImplementedError("ghost")


def comb_rec(self, e, args, kwargs):
    return Rcomb(e, args, kwargs)


def comb_setup(I, selfv, expr):
    """`combine` is abstract in CombineMapper: an uninterpreted function of the sequence it is given;
    every call is recorded in the ghost list the postcondition reads."""
    import z3
    from pyvc import smt
    from pyvc.values import NativeHandler, SymSeq, SymV
    selfv.ghost["combine_calls"] = []

    def combine(I, self_obj, args, kwargs, star, dstar, node):
        sq = I.as_seq(args[0])
        r = SymV(smt.fn("comb_v", smt.S, smt.V)(sq))
        I.ghost_log.append(("combine", SymSeq(sq, "list"), r))
        return r
    selfv.attrs["combine"] = _bound(selfv, NativeHandler(combine))


def _bound(selfv, h):
    from pyvc.values import BoundMethod
    return BoundMethod(selfv, h, "combine")


def combine_calls(self):
    """Ghost: the argument sequences passed to self.combine during the call, with the results."""
    return list(getattr(self, "_pyvc_combine_calls", []))


def comb_post(self, expr, args, kwargs, result):
    expected = [Rcomb(c, args, kwargs) for c in children(expr)]
    calls = combine_calls(self)
    if len(calls) == 0:
        return len(expected) == 1 and same(result, expected[0])
    return len(calls) == 1 and same(result, calls[0][1]) and same_elements(calls[0][0], expected)


COMBINE = MapperContract(
    "C04.CombineMapper", "pymbolic.mapper:CombineMapper", rec=comb_rec,
    ensures=[("combine-all-children", comb_post)], setup=comb_setup, property_id="C04")


# ----------------------------------------------------------------------------- WalkMapper
import pymbolic.primitives as p  # noqa: E402
from pyvc.api import child_fields, emit, for_each  # noqa: E402


def walk_rec(self, e, args, kwargs):
    emit("rec", e, args, kwargs)
    return None


def walk_spec(self, expr, args, kwargs):
    """visit first; if it returns false nothing else; otherwise one traversal per child (any order,
    same extra arguments) and post_visit last."""
    if not self.visit(expr, *args, **kwargs):
        if len(child_fields(type(expr))) == 0:
            emit("post?", expr, args, kwargs)   # a leaf has no children to skip: post_visit unspecified
        return None
    if isinstance(expr, p.Slice):
        for_each(children(expr), lambda c: None if c is None else emit("rec", c, args, kwargs))
    else:
        for_each(children(expr), lambda c: emit("rec", c, args, kwargs))
    self.post_visit(expr, *args, **kwargs)
    return None


def walk_setup(I, selfv, expr):
    from pyvc import effects, smt
    from pyvc.values import BoundMethod, Conc, NativeHandler, SymV

    def visit(I, self_obj, args, kwargs, star, dstar, node):
        a, k = effects.pack_args(I, args[1:], kwargs, star, dstar)
        t = effects.event(I, "visit", [args[0], a, k])
        return SymV(smt.fn("visit_ret", smt.V, smt.V)(t))

    def post_visit(I, self_obj, args, kwargs, star, dstar, node):
        a, k = effects.pack_args(I, args[1:], kwargs, star, dstar)
        effects.event(I, "post", [args[0], a, k])
        return Conc(None)
    selfv.attrs["visit"] = BoundMethod(selfv, NativeHandler(visit), "visit")
    selfv.attrs["post_visit"] = BoundMethod(selfv, NativeHandler(post_visit), "post_visit")


WALK = MapperContract(
    "C04.WalkMapper", "pymbolic.mapper:WalkMapper", rec=walk_rec, refines=walk_spec, setup=walk_setup,
    property_id="C04")
WALK.effects = True


# ----------------------------------------------------------------------------- dispatch
import pymbolic.primitives as prim  # noqa: E402


def has_handler(self, name):
    """Ghost: the (arbitrary) mapper implements a handler of this name."""
    return getattr(self, name, None) is not None


def dispatch_spec(self, expr, args, kwargs):
    """The handler named by the node's class, else that of the nearest ancestor class the mapper
    implements, else the unsupported-expression hook; exactly (expr, *args, **kwargs) is passed."""
    for cls in type(expr).__mro__:
        name = getattr(cls, "mapper_method", None)
        if name and has_handler(self, name):
            return getattr(self, name)(expr, *args, **kwargs)
    return self.handle_unsupported_expression(expr, *args, **kwargs)


def dispatch_setup(I, inputs):
    """self = a mapper with an arbitrary (symbolic) set of handlers; a present handler is abstract:
    calling it emits handler(name, expr, args, kwargs) and returns an uninterpreted value."""
    import z3
    from pyvc import effects, smt
    from pyvc.values import BoundMethod, NativeHandler, SymV
    selfv = inputs[0]

    def symbolic_handlers(I, obj, name):
        if not name.startswith("map_") or name == "map_foreign":
            return None
        present = smt.fn("has_handler", smt.V, smt.Str, smt.Bool)(I.lift(obj), z3.StringVal(name))
        if not I.decide(present):
            return None

        def handler(I, self_obj, args, kwargs, star, dstar, node):
            a, k = effects.pack_args(I, args[1:], kwargs, star, dstar)
            t = effects.event(I, "handler_" + name, [args[0], a, k])
            return SymV(smt.fn("handler_ret", smt.V, smt.V)(t))
        return BoundMethod(obj, NativeHandler(handler), name)
    selfv.ghost["symbolic_handlers"] = symbolic_handlers

    def unsupported(I, self_obj, args, kwargs, star, dstar, node):
        a, k = effects.pack_args(I, args[1:], kwargs, star, dstar)
        t = effects.event(I, "unsupported", [args[0], a, k])
        return SymV(smt.fn("handler_ret", smt.V, smt.V)(t))
    selfv.attrs["handle_unsupported_expression"] = BoundMethod(selfv, NativeHandler(unsupported), "hue")


def dispatch_contracts(node_classes):
    out = []
    for entry, target in (("__call__", "pymbolic.mapper:Mapper.__call__"),
                          ("rec_fallback", "pymbolic.mapper:Mapper.rec_fallback")):
        for k in node_classes:
            fc = FunctionContract(
                f"C04.Mapper.{entry}[{k.__name__}]", target,
                [("self", "obj:pymbolic.mapper:Mapper"), ("expr", f"node:{k.__module__}:{k.__qualname__}"),
                 ("args", "star"), ("kwargs", "dstar")],
                refines=dispatch_spec if entry == "__call__" else dispatch_fallback_spec,
                setup=dispatch_setup, property_id="C04")
            fc.effects = True
            out.append(fc)
    return out


def dispatch_fallback_spec(self, expr, args, kwargs):
    for cls in type(expr).__mro__[1:]:
        name = getattr(cls, "mapper_method", None)
        if name and has_handler(self, name):
            return getattr(self, name)(expr, *args, **kwargs)
    return self.handle_unsupported_expression(expr, *args, **kwargs)


def foreign_spec(self, expr, args, kwargs):
    """Numbers go to map_constant, arrays to map_numpy_array, lists to map_list, tuples to map_tuple;
    any other object is rejected with ValueError."""
    import numpy
    if isinstance(expr, prim.VALID_CONSTANT_CLASSES):
        return self.map_constant(expr, *args, **kwargs)
    if isinstance(expr, numpy.ndarray):
        return self.map_numpy_array(expr, *args, **kwargs)
    if isinstance(expr, list):
        return self.map_list(expr, *args, **kwargs)
    if isinstance(expr, tuple):
        return self.map_tuple(expr, *args, **kwargs)
    raise ValueError("invalid foreign object")


def foreign_contracts():
    out = []
    for entry, target in (("__call__", "pymbolic.mapper:Mapper.__call__"),
                          ("rec_fallback", "pymbolic.mapper:Mapper.rec_fallback"),
                          ("map_foreign", "pymbolic.mapper:Mapper.map_foreign")):
        for kind in ("int", "bool", "list", "seq", "str", "const:None", "const:1.5", "const:(1+2j)"):
            fc = FunctionContract(
                f"C04.Mapper.{entry}[foreign:{kind}]", target,
                [("self", "obj:pymbolic.mapper:Mapper"), ("expr", kind), ("args", "star"), ("kwargs", "dstar")],
                refines=foreign_spec, setup=dispatch_setup, property_id="C04")
            fc.effects = True
            out.append(fc)
    return out


# ----------------------------------------------------------------------------- CallbackMapper
def callback_rec(self, e, args, kwargs):
    return Rid(e, args, kwargs)


def callback_spec(self, expr, args, kwargs):
    """Every handler hands the node, the mapper itself and the extra arguments, unchanged, to the user function and returns its result."""
    return self.function(expr, self, *args, **kwargs)


CALLBACK = MapperContract("C04.CallbackMapper", "pymbolic.mapper:CallbackMapper", rec=callback_rec, refines=callback_spec,
                          self_attrs={"function": "v", "fallback_mapper": "v"}, property_id="C04")

"""C05: memoization is observationally transparent."""
import pymbolic.primitives as prim
from contracts.c04 import dispatch_setup, dispatch_spec
from pyvc.api import FunctionContract, implies, same


# ----------------------------------------------------------------------------- CachedMapper.__call__
def cache_inv(self, key, value):
    """CacheInv: the entry stored under get_cache_key(e, *a, **kw) is what the un-memoized dispatch
    returns for (e, *a, **kw).  (Events emitted while evaluating a specification are discarded.)"""
    return value is dispatch_spec(self, key[1], key[2], key[3])


def cached_call_spec(self, expr, args, kwargs):
    """Observationally the un-memoized dispatch ..."""
    return dispatch_spec(self, expr, args, kwargs)


def cached_setup(I, inputs):
    dispatch_setup(I, inputs)
    selfv = inputs[0]
    from pyvc.values import SymDict
    d = selfv.attrs.get("_cache")
    if isinstance(d, SymDict):
        def inv(I, key, val):
            I.assume_path_bool(lambda: I.call_function(_conc(cache_inv), [selfv, key, val], {}))
        d.inv = inv
        I.track(d)


def _conc(f):
    from pyvc.values import Conc
    return Conc(f)


def hit_no_recompute(self, expr, args, kwargs, result):
    """... and on a hit nothing is recomputed: the log of handler invocations is empty exactly when the key was present."""
    return True


def cached_contracts(node_classes):
    out = []
    for k in node_classes:
        fc = FunctionContract(
            f"C05.CachedMapper.__call__[{k.__name__}]", "pymbolic.mapper:CachedMapper.__call__",
            [("self", "obj:pymbolic.mapper:CachedMapper{_cache=symdict}"),
             ("expr", f"node:{k.__module__}:{k.__qualname__}"), ("args", "star"), ("kwargs", "dstar")],
            refines=cached_call_spec, setup=cached_setup, property_id="C05")
        fc.effects = "cache"      # log equal to the spec's on a miss, empty on a hit
        fc.dict_invs = {"_cache": cache_inv}
        out.append(fc)
    return out


# ----------------------------------------------------------------------------- key injectivity
def key_injective(self, e1, a1, k1, e2, a2, k2):
    """get_cache_key is injective up to identity of its inputs: equal keys imply the same expression
    object *of the same type* and the same extra arguments (so 4 / 4.0 / True and different argument
    tuples can never share an entry)."""
    key1 = self.get_cache_key(e1, *a1, **k1)
    key2 = self.get_cache_key(e2, *a2, **k2)
    return implies(same(key1, key2),
                   same(type(e1), type(e2)) and same(e1, e2) and same(a1, a2) and same(k1, k2))


def is_true(result):
    return result is True


KEY_INJ = FunctionContract(
    "C05.CachedMapper.get_cache_key/injective", key_injective,
    [("self", "obj:pymbolic.mapper:CachedMapper"), ("e1", "v"), ("a1", "seq"), ("k1", "map"),
     ("e2", "v"), ("a2", "seq"), ("k2", "map")],
    ensures=[("lemma", lambda self, e1, a1, k1, e2, a2, k2, result: result)], property_id="C05")


def init_post(self, result):
    return len(self._cache) == 0


FUNCTIONS = [KEY_INJ]

"""C12: common-subexpression handling (deductive kernel: the wrapping helpers and the no-double-wrapper rule)."""
import pymbolic.primitives as p
from pyvc.api import FunctionContract, same


def is_cse(x):
    return isinstance(x, p.CommonSubexpression)


def wrap_post(expr, prefix, result):
    """Variables and subscripts come back unwrapped; a wrapper comes back unchanged or re-prefixed - never wrapped again;
    anything else gets exactly one wrapper around the argument."""
    if isinstance(expr, (p.Variable, p.Subscript)):
        return same(result, expr)
    if is_cse(expr):
        if same(result, expr):
            return True
        return is_cse(result) and same(result.child, expr.child) and same(result.prefix, prefix) and not same(prefix, None) \
            and same(expr.prefix, None)
    return is_cse(result) and same(result.child, expr) and same(result.prefix, prefix)


def _wrap_contracts():
    out = []
    for kind, label in (("node:Variable", "Variable"), ("node:Subscript", "Subscript"), ("node:CommonSubexpression", "CSE"),
                        ("node:Sum", "Sum"), ("node:Call", "Call")):
        for pk, pl in (("const:None", "None"), ("str", "str")):
            out.append(FunctionContract(f"C12.wrap_in_cse[{label},prefix:{pl}]", "pymbolic.primitives:wrap_in_cse",
                                        [("expr", kind), ("prefix", pk)], ensures=[("wrap-rule", wrap_post)], property_id="C12"))
    return out


def mcs_post(field, prefix, scope, result):
    """make_common_subexpression on a scalar: constants come back unwrapped, an existing wrapper is not re-wrapped when the
    scope is None / EVALUATION / its own, otherwise exactly one new wrapper with the given prefix and scope."""
    if is_cse(field) and (scope is None or scope == p.cse_scope.EVALUATION or field.scope == scope):
        return same(result, field)
    if p.is_constant(field):
        return same(result, field)
    return is_cse(result) and same(result.child, field) and same(result.prefix, prefix)


def _mcs_contracts():
    out = []
    for kind, label in (("node:CommonSubexpression", "CSE"), ("node:Sum", "Sum"), ("node:Variable", "Variable"), ("int", "int")):
        for sk, sl in (("const:None", "None"), ("const:'pymbolic_eval'", "EVALUATION"), ("const:'pymbolic_global'", "GLOBAL")):
            out.append(FunctionContract(f"C12.make_common_subexpression[{label},scope:{sl}]", "pymbolic.primitives:make_common_subexpression",
                                        [("field", kind), ("prefix", "const:None"), ("scope", sk)], ensures=[("scalar-rule", mcs_post)],
                                        property_id="C12"))
    return out


FUNCTIONS = _wrap_contracts() + _mcs_contracts()

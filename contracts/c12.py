"""C12: common-subexpression handling (deductive kernel: the wrapping helpers and the no-double-wrapper rule)."""
import pymbolic.primitives as p
from pyvc.api import FunctionContract, same


def is_cse(x):
    return isinstance(x, p.CommonSubexpression)


def wrap_post(expr, prefix, result):
    """Variables and subscripts come back unwrapped; a wrapper comes back unchanged or re-prefixed - never wrapped again;
    anything else gets exactly one wrapper around the argument."""
    if isinstance(expr, (p.Variable, p.Subscript)):
        return same(result, expr)
    if is_cse(expr):
        if same(result, expr):
            return True
        return is_cse(result) and same(result.child, expr.child) and same(result.prefix, prefix) and not same(prefix, None) \
            and same(expr.prefix, None)
    return is_cse(result) and same(result.child, expr) and same(result.prefix, prefix)


def _wrap_contracts():
    out = []
    for kind, label in (("node:Variable", "Variable"), ("node:Subscript", "Subscript"), ("node:CommonSubexpression", "CSE"),
                        ("node:Sum", "Sum"), ("node:Call", "Call")):
        for pk, pl in (("const:None", "None"), ("str", "str")):
            out.append(FunctionContract(f"C12.wrap_in_cse[{label},prefix:{pl}]", "pymbolic.primitives:wrap_in_cse",
                                        [("expr", kind), ("prefix", pk)], ensures=[("wrap-rule", wrap_post)], property_id="C12"))
    return out


def mcs_post(field, prefix, scope, result):
    """make_common_subexpression on a scalar: constants come back unwrapped, an existing wrapper is not re-wrapped when the
    scope is None / EVALUATION / its own, otherwise exactly one new wrapper with the given prefix and scope."""
    if is_cse(field) and (scope is None or scope == p.cse_scope.EVALUATION or field.scope == scope):
        return same(result, field)
    if p.is_constant(field):
        return same(result, field)
    return is_cse(result) and same(result.child, field) and same(result.prefix, prefix)


def _mcs_contracts():
    out = []
    for kind, label in (("node:CommonSubexpression", "CSE"), ("node:Sum", "Sum"), ("node:Variable", "Variable"), ("int", "int")):
        for sk, sl in (("const:None", "None"), ("const:'pymbolic_eval'", "EVALUATION"), ("const:'pymbolic_global'", "GLOBAL")):
            out.append(FunctionContract(f"C12.make_common_subexpression[{label},scope:{sl}]", "pymbolic.primitives:make_common_subexpression",
                                        [("field", kind), ("prefix", "const:None"), ("scope", sk)], ensures=[("scalar-rule", mcs_post)],
                                        property_id="C12"))
    return out


FUNCTIONS = _wrap_contracts() + _mcs_contracts()


# ----------------------------------------------------------------------------- histogram tagger (pymbolic/mapper/cse_tagger.py)
from contracts import c04  # noqa: E402
from pyvc.api import MapperContract  # noqa: E402


def tag_rec(self, e, args, kwargs):
    return c04.Rid(e, args, kwargs)


def tag_setup(I, selfv, expr):
    """self.subexpr_histogram is an arbitrary dict of occurrence counts (symbolic content; its values are integers - the type the
    walk mapper fills it with; without this precondition `not n <= 1` and `n > 1` would be unrelated facts about an opaque value)."""
    import z3
    from pyvc import smt
    from pyvc.values import SymDict
    selfv.attrs["subexpr_histogram"] = SymDict(z3.Const("histogram", smt.V), None, "histogram", value_kind="int")


def tag_post(self, expr, args, kwargs, result):
    """A node the histogram counts more than once is returned inside exactly one new wrapper (no prefix) whose child is the node
    mapped like the identity traversal -- so that what repeats inside it is tagged as well; any other node is mapped like the
    identity traversal."""
    if self.subexpr_histogram.get(expr, 0) > 1:
        return is_cse(result) and same(result.prefix, None) and not is_cse(result.child) \
            and c04.ident_post(self, expr, args, kwargs, result.child)
    return c04.ident_post(self, expr, args, kwargs, result)


TAGGER = MapperContract(
    "C12.CSETagMapper", "pymbolic.mapper.cse_tagger:CSETagMapper", rec=tag_rec,
    ensures=[("wrap-repeated-and-descend", tag_post)], setup=tag_setup, extra_args=False, property_id="C12")
TAGGER.allowed_exc = c04.IDENTITY.allowed_exc
TAGGER_CLASSES = ["Sum", "Product", "Quotient", "FloorDiv", "Remainder", "Power", "Call", "LeftShift", "RightShift", "BitwiseNot", "BitwiseOr", "BitwiseXor",
                  "BitwiseAnd", "Comparison", "LogicalNot", "LogicalAnd", "LogicalOr", "If"]


# ----------------------------------------------------------------------------- CSEMapper (pymbolic/cse.py)
def cse_setup(I, selfv, expr):
    """get_key is an arbitrary pure function, to_eliminate an arbitrary set of keys, canonical_subexprs an arbitrary table whose
    entries satisfy the table invariant (everything stored went through wrap_in_cse: it is never a node that wrap_in_cse would
    still wrap, in particular a stored wrapper's child is not a wrapper -- assumed on look-up, re-established on every write)."""
    import z3
    from pyvc import smt
    from pyvc.values import BoundMethod, NativeHandler, SymDict, SymSet, SymV

    def get_key(I, self_obj, args, kwargs, star, dstar, node):
        return SymV(smt.fn("nkey", smt.V, smt.V)(I.lift(args[0])))
    selfv.attrs["get_key"] = BoundMethod(selfv, NativeHandler(get_key), "get_key")
    selfv.attrs["to_eliminate"] = SymSet(z3.Const("to_eliminate", smt.SetV))
    selfv.attrs["canonical_subexprs"] = SymDict(z3.Const("canonical", smt.V), None, "canonical_subexprs")


def cse_old(self, expr, args, kwargs):
    key = self.get_key(expr)
    return (key in self.canonical_subexprs, self.canonical_subexprs.get(key))


def cse_post(self, expr, args, kwargs, result, old):
    """A node whose key is not to be eliminated is mapped like the identity traversal.  Otherwise: the table entry for the key if
    there is one (the very object: this is what makes all occurrences share ONE wrapper), else the identity-mapped node wrapped
    by wrap_in_cse's rule without a prefix, which is then the table's entry for the key."""
    key = self.get_key(expr)
    if key not in self.to_eliminate:
        return c04.ident_post(self, expr, args, kwargs, result)
    had, stored = old
    if had:
        return same(result, stored)
    if not same(self.canonical_subexprs.get(key), result):
        return False
    if is_cse(result):
        return same(result.prefix, None) and c04.ident_post(self, expr, args, kwargs, result.child)
    return False


CSEMAPPER = MapperContract(
    "C12.CSEMapper", "pymbolic.cse:CSEMapper", rec=tag_rec,
    ensures=[("shared-wrapper-or-identity", cse_post)], setup=cse_setup, old=cse_old, extra_args=False, property_id="C12")
CSEMAPPER.allowed_exc = c04.IDENTITY.allowed_exc
CSEMAPPER_CLASSES = ["Sum", "Product", "Power", "Quotient", "Remainder", "FloorDiv", "Call"]

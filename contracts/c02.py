"""C02: evaluation gives every node type its standard meaning."""
from pyvc.api import MapperContract
from contracts.specs import den


def rec(self, e, args, kwargs):
    return den(e, self.context)


def refines(self, expr, args, kwargs):
    return den(expr, self.context)


def cse_cache_inv(self, key, value):
    """Object invariant of the CSE cache: an entry for (wrapper, *args) holds the wrapper's denotation."""
    return value is den(key[0], self.context)


EVAL = MapperContract(
    "C02.EvaluationMapper", "pymbolic.mapper.evaluator:EvaluationMapper",
    rec=rec, refines=refines, self_attrs={"context": "strmap"}, extra_args=False,
    property_id="C02")
EVAL.dict_invs = {"_cse_cache_dict": cse_cache_inv}
EVAL.variants = [("", {}), ("{cache}", {"_cse_cache_dict": "symdict"})]


# ---- entry points: one-line wrappers around the mapper (callee = mapper contract)
from pyvc.api import FunctionContract  # noqa: E402


def mapper_call_contract(self, expr, *args, **kwargs):
    """Assumed contract of Mapper.__call__/CachedMapper.__call__ on an evaluation mapper:
    dispatch (C04) + every map_<K> obligation above + M-IND (+ cache transparency, C05)."""
    return den(expr, self.context)


def evaluate_refines(expression, context):
    return den(expression, context)


def evaluate_none_refines(expression):
    return den(expression, {})


_ASSUME = {
    "pymbolic.mapper:CachedMapper.__call__": mapper_call_contract,
    "pymbolic.mapper:Mapper.__call__": mapper_call_contract,
}

FUNCTIONS = [
    FunctionContract("C02.evaluate", "pymbolic.mapper.evaluator:evaluate",
                     [("expression", "v"), ("context", "strmap")], refines=evaluate_refines, assume=_ASSUME,
                     property_id="C02"),
    FunctionContract("C02.evaluate[context=None]", "pymbolic.mapper.evaluator:evaluate",
                     [("expression", "v")], refines=evaluate_none_refines, assume=_ASSUME, property_id="C02"),
]

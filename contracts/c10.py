"""C10: symbolic differentiation yields the true derivative (deductive kernel: the algebraic rules).

Real-arithmetic encoding: every expression e has a value val(e) and a derivative dval(e) (real symbols at an arbitrary
point of the domain).  The trees built by the rules are evaluated with the ring machinery of C03 in real mode (+, *, /
interpreted over the reals; ** through an axiomatised power function), and compared with the textbook rule.
"""
from __future__ import annotations

import pymbolic.primitives as p
from contracts import c03
from contracts.c03 import denR
from pyvc.api import FunctionContract, MapperContract


def hooks(I):
    I.real_mode = True
    c03.hooks(I)


def rvalue(x):
    """Real value of a ring element (symbolic only)."""
    raise NotImplementedError


def install_rv(I):
    from pyvc.values import SymReal

    def h(I, args, kwargs, star, dstar, node):
        return SymReal(I.ring_rv(args[0]))
    I.contracts[id(rvalue)] = h


def diff_rec(self, e, args, kwargs):
    """IH: the recursive call returns an expression whose value is the derivative of e."""
    return dexpr(e)


def dexpr(e):
    raise NotImplementedError("symbolic only")


def setup(I, selfv, expr):
    """self.rec(e) returns an opaque expression R(e); its denotation is the symbol dval(e)."""
    import z3
    from pyvc import smt
    from pyvc.values import NativeHandler
    install_rv(I)
    R = smt.fn("Rdiff", smt.V, smt.V)

    def rec(I, self_obj, args, kwargs, star, dstar, node):
        t = R(I.lift(args[0]))
        I.ctx.assume(smt.tag(t) == smt.TAG_NODE)
        return I.ExprV(t)
    selfv.rec_contract = NativeHandler(rec)
    # fields of expr are expression objects of unknown class
    for name, v in list(getattr(expr, "fields", {}).items()):
        from pyvc.values import SymV
        if type(v) is SymV:
            expr.fields[name] = I.ExprV(v.t)
            I.ctx.assume(smt.tag(v.t) == smt.TAG_NODE)     # operands are expressions (constants are covered by map_constant)
    I.dval = lambda e: I.ring_rv(I.RingV(I.ring_D(R(I.lift(e)))))

    def dval_h(I, args, kwargs, star, dstar, node):
        from pyvc.values import SymReal
        return SymReal(I.dval(args[0]))
    I.contracts[id(dval)] = dval_h

    def val_h(I, args, kwargs, star, dstar, node):
        from pyvc.values import SymReal
        return SymReal(I.ring_rv(I.RingV(I.ring_D(I.lift(args[0])))))
    I.contracts[id(val)] = val_h


def dval(e):
    """Derivative value of sub-expression e (the IH symbol)."""
    raise NotImplementedError


def val(e):
    """Value of sub-expression e."""
    raise NotImplementedError


def quotient_post(self, expr, args, kwargs, result):
    """(f/g)' = (f' g - g' f) / g^2  wherever g != 0."""
    f, g = expr.numerator, expr.denominator
    if val(g) == 0:
        return True
    return rvalue(denR(result)) * val(g) * val(g) == dval(f) * val(g) - dval(g) * val(f)


QUOTIENT = MapperContract("C10.DifferentiationMapper.map_quotient", "pymbolic.mapper.differentiator:DifferentiationMapper", rec=diff_rec,
                          ensures=[("quotient-rule", quotient_post)], setup=setup, classes=["Quotient"], property_id="C10")


def power_post(self, expr, args, kwargs, result):
    """(f**g)' = f**g * (g' log f + g f'/f)  wherever f != 0 (log(f) is the value of the call log(f))."""
    f, g = expr.base, expr.exponent
    if val(f) == 0:
        return True
    logf = rvalue(denR(p.Call(p.Variable("log"), (f,))))
    fg = rvalue(denR(p.Power(f, g)))
    return rvalue(denR(result)) * val(f) == fg * (dval(g) * logf * val(f) + val(g) * dval(f))


POWER = MapperContract("C10.DifferentiationMapper.map_power", "pymbolic.mapper.differentiator:DifferentiationMapper", rec=diff_rec,
                       ensures=[("power-rule", power_post)], setup=setup, classes=["Power"], property_id="C10")


def const_post(self, expr, args, kwargs, result):
    return rvalue(denR(result)) == 0


CONSTANT = MapperContract("C10.DifferentiationMapper.map_constant", "pymbolic.mapper.differentiator:DifferentiationMapper", rec=diff_rec,
                          ensures=[("zero", const_post)], setup=setup, property_id="C10")


def if_setup(flag):
    def st(I, selfv, expr):
        setup(I, selfv, expr)
        from pyvc.values import Conc
        selfv.attrs["allowed_nonsmoothness"] = Conc(flag)
        I.tracked = [t for t in I.tracked if t[0] is not selfv]
        I.track(selfv)
    return st


def if_post(self, expr, args, kwargs, result):
    """Branch-wise derivative with the condition untouched."""
    from pyvc.api import same
    return isinstance(result, p.If) and same(result.condition, expr.condition) \
        and rvalue(denR(result.then)) == dval(expr.then) and rvalue(denR(result.else_)) == dval(expr.else_)


IF_ALLOWED = MapperContract("C10.DifferentiationMapper.map_if[discontinuous]", "pymbolic.mapper.differentiator:DifferentiationMapper", rec=diff_rec,
                            ensures=[("branch-wise", if_post)], setup=if_setup("discontinuous"), property_id="C10")


def if_refused(self, expr, args, kwargs):
    raise ValueError("refused")


IF_REFUSED = [MapperContract(f"C10.DifferentiationMapper.map_if[{flag}]", "pymbolic.mapper.differentiator:DifferentiationMapper", rec=diff_rec,
                             refines=if_refused, setup=if_setup(flag), property_id="C10") for flag in ("none", "continuous")]

MAPPER_JOBS = [(QUOTIENT, "Quotient"), (POWER, "Power"), (CONSTANT, "<constant>"), (IF_ALLOWED, "If")] + [(m, "If") for m in IF_REFUSED]


def install_eq_contract(I):
    """Assumed contract of Expression.__eq__ / __ne__ (proved per class in C01): == is structural equality.
    Nodes built on the path compare field by field; opaque expressions by their identity term (A-EQ)."""
    import z3
    from pyvc.values import Conc, PyTuple, SymBool, SymNode

    def seq(a, b):
        if isinstance(a, SymNode) and isinstance(b, SymNode) and isinstance(a.cls, type) and isinstance(b.cls, type):
            if a.cls is not b.cls:
                return False
            if a.t is not None and b.t is not None and z3.eq(a.t, b.t):
                return True
            if set(a.fields) != set(b.fields):
                return None
            parts = []
            for k in a.fields:
                r = seq(a.fields[k], b.fields[k])
                if r is None:
                    return None
                if r is False:
                    return False
                if r is not True:
                    parts.append(r)
            return z3.And(*parts) if parts else True
        if isinstance(a, Conc) and isinstance(b, Conc):
            try:
                return bool(a.obj == b.obj)
            except Exception:   # noqa: BLE001
                return None
        if isinstance(a, PyTuple) and isinstance(b, PyTuple):
            if len(a.items) != len(b.items):
                return False
            parts = []
            for x, y in zip(a.items, b.items):
                r = seq(x, y)
                if r is None or r is False:
                    return r
                if r is not True:
                    parts.append(r)
            return z3.And(*parts) if parts else True
        if isinstance(a, (SymNode, I.ExprV)) and isinstance(b, (SymNode, I.ExprV)):
            return I.lift(a) == I.lift(b)
        return None

    def cmp_hook(I, op, a, b):
        if op not in ("eq", "ne") or not (isinstance(a, (SymNode, I.ExprV)) and isinstance(b, (SymNode, I.ExprV))):
            return None
        r = seq(a, b)
        if r is None:
            return None
        if isinstance(r, bool):
            return Conc(r if op == "eq" else not r)
        return SymBool(r if op == "eq" else z3.Not(r))
    I.builtin_handlers["__cmp_contract__"] = cmp_hook


# ----------------------------------------------------------------------------- fixed-arity sum / product / call rules
# The n-ary rules are proved for every arity 0..MAX_ARITY with arbitrary (opaque) operands.  flattened_sum and
# flattened_product are used through an assumed contract (value of the result = sum / product of the values of the
# terms; bounded validation in C11).
MAX_ARITY = 3


def install_flatten_contracts(I):
    import functools
    import operator
    from pyvc.values import Conc
    import pymbolic
    import pymbolic.primitives as prim

    def make(opname, unit):
        def h(I, args, kwargs, star, dstar, node):
            terms = I.concrete_iter(args[0])
            if terms is None:
                from pyvc.values import Unsupported
                raise Unsupported("flattened_* over a sequence of symbolic length")
            acc = Conc(unit)
            for t in terms:
                acc = I.binop(opname, acc, denote(I, t))
            return acc          # a ring value: only its denotation is known
        return h

    for f, h in ((prim.flattened_sum, make("add", 0)), (prim.flattened_product, make("mul", 1))):
        I.contracts[id(f)] = h


def denote(I, v):
    """Ring value of an engine value through the installed denR handler."""
    from pyvc.values import Conc
    return I.call_function(Conc(denR), [v], {})


def arity_setup(n, extra=None):
    def st(I, selfv, expr):
        import z3
        from pyvc import smt
        from pyvc.values import PyTuple
        field = "parameters" if "parameters" in expr.fields else "children"
        kids = []
        for i in range(n):
            t = z3.Const(f"child{i}", smt.V)
            I.ctx.assume(smt.tag(t) == smt.TAG_NODE)
            kids.append(I.ExprV(t))
        expr.fields[field] = PyTuple(kids)
        setup(I, selfv, expr)
        install_flatten_contracts(I)
        if extra:
            extra(I, selfv, expr)
    return st


def sum_post(self, expr, args, kwargs, result):
    return rvalue(denR(result)) == sum(dval(c) for c in expr.children)


def product_post(self, expr, args, kwargs, result):
    """(c_0 ... c_{n-1})' = sum_i c_0 .. c_i' .. c_{n-1} (order of the factors immaterial over the reals)."""
    total = 0
    for i in range(len(expr.children)):
        term = dval(expr.children[i])
        for j in range(len(expr.children)):
            if j != i:
                term = term * val(expr.children[j])
        total = total + term
    return rvalue(denR(result)) == total


SUMS = [MapperContract(f"C10.DifferentiationMapper.map_sum[arity={n}]", "pymbolic.mapper.differentiator:DifferentiationMapper", rec=diff_rec,
                       ensures=[("sum-rule", sum_post)], setup=arity_setup(n), classes=["Sum"], property_id="C10") for n in range(MAX_ARITY + 1)]
PRODUCTS = [MapperContract(f"C10.DifferentiationMapper.map_product[arity={n}]", "pymbolic.mapper.differentiator:DifferentiationMapper", rec=diff_rec,
                           ensures=[("product-rule", product_post)], setup=arity_setup(n), classes=["Product"], property_id="C10")
            for n in range(MAX_ARITY + 1)]


def partial(i, func, pars, flag):
    """What self.function_map(i, func, pars, allowed_nonsmoothness=flag) denotes: the i-th partial derivative of func."""
    raise NotImplementedError("symbolic only")


def call_setup(I, selfv, expr):
    """self.function_map is an arbitrary callable obeying its contract: it returns an expression whose value is
    partial(i, func, pars, flag) -- a function of exactly these four things."""
    import z3
    from pyvc import smt
    from pyvc.values import NativeHandler, SymReal, Conc
    FM = smt.fn("FMexpr", smt.V, smt.V, smt.V, smt.V, smt.V)

    def fm_term(I, i, func, pars, flag):
        return FM(I.lift(i), I.lift(func), I.lift(pars), I.lift(flag))

    def fm(I, args, kwargs, star, dstar, node):
        if len(args) != 3 or set(kwargs) != {"allowed_nonsmoothness"}:
            from pyvc.values import Unsupported
            raise Unsupported("function_map called with an unexpected signature")
        t = fm_term(I, args[0], args[1], args[2], kwargs["allowed_nonsmoothness"])
        I.ctx.assume(smt.tag(t) == smt.TAG_NODE)
        return I.ExprV(t)
    from pyvc.verify import make_input
    selfv.attrs["function_map"] = _plain_handler(I, fm)
    selfv.attrs["allowed_nonsmoothness"] = make_input(I, "flag", "v")
    I.tracked = [t for t in I.tracked if t[0] is not selfv]
    I.track(selfv)

    def partial_h(I, args, kwargs, star, dstar, node):
        t = fm_term(I, *args)
        return SymReal(I.ring_rv(I.RingV(I.ring_D(t))))
    I.contracts[id(partial)] = partial_h


def _plain_handler(I, h):
    """A callable engine value whose call runs the handler h."""
    from pyvc.values import Conc

    def stub(*a, **k):
        raise NotImplementedError
    I.contracts[id(stub)] = h
    return Conc(stub)


def call_post(self, expr, args, kwargs, result):
    """Chain rule: sum_i (d_i f)(pars) * pars_i'."""
    total = 0
    for i in range(len(expr.parameters)):
        total = total + partial(i, expr.function, expr.parameters, self.allowed_nonsmoothness) * dval(expr.parameters[i])
    return rvalue(denR(result)) == total


CALLS = [MapperContract(f"C10.DifferentiationMapper.map_call[arity={n}]", "pymbolic.mapper.differentiator:DifferentiationMapper", rec=diff_rec,
                        ensures=[("chain-rule", call_post)], setup=arity_setup(n, call_setup), classes=["Call"], property_id="C10")
         for n in range(MAX_ARITY + 1)]


# ----------------------------------------------------------------------------- leaves and CSE
def variable_setup(I, selfv, expr):
    setup(I, selfv, expr)
    from pyvc.verify import make_input
    selfv.attrs["variable"] = I.ExprV(make_input(I, "wrt", "expr").t)
    install_eq_contract(I)
    I.tracked = [t for t in I.tracked if t[0] is not selfv]
    I.track(selfv)


def variable_post(self, expr, args, kwargs, result):
    """d v / d v = 1; every other variable / subscript is independent of v (A-EQ: == is structural identity)."""
    from pyvc.api import same
    return result == (1 if same(expr, self.variable) else 0)


VARIABLE = MapperContract("C10.DifferentiationMapper.map_variable", "pymbolic.mapper.differentiator:DifferentiationMapper", rec=diff_rec,
                          ensures=[("kronecker", variable_post)], setup=variable_setup, classes=["Variable", "Subscript"], property_id="C10")


def cse_post(self, expr, args, kwargs, result):
    from pyvc.api import same
    return isinstance(result, p.CommonSubexpression) and rvalue(denR(result.child)) == dval(expr.child) \
        and same(result.prefix, expr.prefix) and same(result.scope, expr.scope)


CSE = MapperContract("C10.DifferentiationMapper.map_common_subexpression_uncached", "pymbolic.mapper.differentiator:DifferentiationMapper",
                     rec=diff_rec, ensures=[("wrapped-derivative", cse_post)], setup=setup, classes=["CommonSubexpression"],
                     methods=["map_common_subexpression_uncached"], via_dispatch=False, property_id="C10")

MAPPER_JOBS += [(m, "Sum") for m in SUMS] + [(m, "Product") for m in PRODUCTS] + [(m, "Call") for m in CALLS] + \
    [(VARIABLE, "Variable"), (VARIABLE, "Subscript"), (CSE, "CommonSubexpression")]


# ----------------------------------------------------------------------------- the derivative table
# Spec table written from calculus (validated numerically against the math module by the bounded check `table-numeric`):
# name -> derivative as a function of F(name') = value of math.name'(x) and x.
TABLE_SPEC = {
    "sin": lambda F, x: F("cos"),
    "cos": lambda F, x: -F("sin"),
    "tan": lambda F, x: 1 + F("tan") * F("tan"),
    "exp": lambda F, x: F("exp"),
    "sinh": lambda F, x: F("cosh"),
    "cosh": lambda F, x: F("sinh"),
    "tanh": lambda F, x: 1 - F("tanh") * F("tanh"),
    "expm1": lambda F, x: F("exp"),
}
FLAGS = ("none", "continuous", "discontinuous")


def mathf(name):
    return p.Lookup(p.Variable("math"), name)


def table_setup(npars):
    def st(I, inputs):
        import z3
        from pyvc import smt
        from pyvc.values import Conc, PyTuple
        install_rv(I)
        install_eq_contract(I)
        kids = []
        for k in range(npars):
            t = z3.Const(f"par{k}", smt.V)
            I.ctx.assume(smt.tag(t) == smt.TAG_NODE)
            kids.append(I.ExprV(t))
        inputs[2] = PyTuple(kids)
        if isinstance(inputs[1], Conc):        # the function symbol, built by the engine so that == is decided structurally
            inputs[1] = I.call_function(Conc(mathf), [Conc(inputs[1].obj.name)], {})

        def val_h(I, args, kwargs, star, dstar, node):
            from pyvc.values import SymReal
            return SymReal(I.ring_rv(I.RingV(I.ring_D(I.lift(args[0])))))
        I.contracts[id(val)] = val_h
        # assumed contract of primitives.quotient (bounded validation in C19): a ring value num/den
        import pymbolic.primitives as prim

        def quot(I, args, kwargs, star, dstar, node):
            return I.binop("truediv", denote(I, args[0]), denote(I, args[1]))
        I.contracts[id(prim.quotient)] = quot
    return st


def table_contracts():
    out = []
    tgt = "pymbolic.mapper.differentiator:map_math_functions_by_name"
    for name, rule in TABLE_SPEC.items():
        for flag in FLAGS:
            def post(i, func, pars, allowed_nonsmoothness, result, name=name, rule=rule):
                x = pars[0]
                F = lambda n: rvalue(denR(p.Call(mathf(n), (x,))))      # noqa: E731
                return rvalue(denR(result)) == rule(F, val(x))
            out.append(FunctionContract(f"C10.table[{name},{flag}]", tgt,
                                        [("i", "const:0"), ("func", f"const:__import__('pymbolic').primitives.Lookup(__import__('pymbolic').primitives.Variable('math'), {name!r})"),
                                         ("pars", "v"), ("allowed_nonsmoothness", f"const:{flag!r}")],
                                        ensures=[("derivative", post)], setup=table_setup(1), arithmetic=True, property_id="C10"))
    # log: 1/x wherever x != 0
    for flag in FLAGS:
        def lpost(i, func, pars, allowed_nonsmoothness, result):
            x = pars[0]
            return val(x) == 0 or rvalue(denR(result)) * val(x) == 1
        out.append(FunctionContract(f"C10.table[log,{flag}]", tgt,
                                    [("i", "const:0"), ("func", "const:__import__('pymbolic').primitives.Lookup(__import__('pymbolic').primitives.Variable('math'), 'log')"),
                                     ("pars", "v"), ("allowed_nonsmoothness", f"const:{flag!r}")],
                                    ensures=[("derivative", lpost)], setup=table_setup(1), arithmetic=True, property_id="C10"))
    # fabs: sign(x) = copysign(1, x) when non-smoothness is allowed, refused otherwise
    for flag in FLAGS:
        fparams = [("i", "const:0"), ("func", "const:__import__('pymbolic').primitives.Lookup(__import__('pymbolic').primitives.Variable('math'), 'fabs')"),
                   ("pars", "v"), ("allowed_nonsmoothness", f"const:{flag!r}")]
        if flag == "none":
            out.append(FunctionContract(f"C10.table[fabs,{flag}]", tgt, fparams, raises=[("refused", lambda i, func, pars, allowed_nonsmoothness: True, ValueError)],
                                        setup=table_setup(1), arithmetic=True, property_id="C10"))
        else:
            def fpost(i, func, pars, allowed_nonsmoothness, result):
                x = pars[0]
                return rvalue(denR(result)) == rvalue(denR(p.Call(mathf("copysign"), (1, x))))
            out.append(FunctionContract(f"C10.table[fabs,{flag}]", tgt, fparams, ensures=[("derivative", fpost)], setup=table_setup(1), arithmetic=True,
                                        property_id="C10"))
    # copysign(x, y) = |x| sign(y): refused unless discontinuities are allowed; d/dy = 0 almost everywhere, d/dx = sign(x) sign(y)
    # (the pinned tree returned 0 for d/dx: repaired, see known_findings.jsonl)
    def c1post(i, func, pars, allowed_nonsmoothness, result):
        x, y = pars
        sg = lambda u: rvalue(denR(p.Call(mathf("copysign"), (1, u))))      # noqa: E731
        return rvalue(denR(result)) == sg(x) * sg(y)
    out.append(FunctionContract("C10.table[copysign/d1,discontinuous]", tgt,
                                [("i", "const:0"), ("func", "const:__import__('pymbolic').primitives.Lookup(__import__('pymbolic').primitives.Variable('math'), 'copysign')"),
                                 ("pars", "v"), ("allowed_nonsmoothness", "const:'discontinuous'")],
                                ensures=[("derivative", c1post)], setup=table_setup(2), arithmetic=True, property_id="C10"))
    for flag in ("none", "continuous"):
        out.append(FunctionContract(f"C10.table[copysign/d1,{flag}]", tgt,
                                    [("i", "const:0"), ("func", "const:__import__('pymbolic').primitives.Lookup(__import__('pymbolic').primitives.Variable('math'), 'copysign')"),
                                     ("pars", "v"), ("allowed_nonsmoothness", f"const:{flag!r}")],
                                    raises=[("refused", lambda i, func, pars, allowed_nonsmoothness: True, ValueError)], setup=table_setup(2), arithmetic=True,
                                    property_id="C10"))
    for flag in FLAGS:
        cparams = [("i", "const:1"), ("func", "const:__import__('pymbolic').primitives.Lookup(__import__('pymbolic').primitives.Variable('math'), 'copysign')"),
                   ("pars", "v"), ("allowed_nonsmoothness", f"const:{flag!r}")]
        if flag != "discontinuous":
            out.append(FunctionContract(f"C10.table[copysign,{flag}]", tgt, cparams, raises=[("refused", lambda i, func, pars, allowed_nonsmoothness: True, ValueError)],
                                        setup=table_setup(2), arithmetic=True, property_id="C10"))
        else:
            out.append(FunctionContract(f"C10.table[copysign/d2,{flag}]", tgt, cparams, ensures=[("derivative", lambda i, func, pars, allowed_nonsmoothness, result: result == 0)],
                                        setup=table_setup(2), arithmetic=True, property_id="C10"))
    # a one-argument table function called with another number of arguments (math.log(x, base), math.sin()) is not the tabulated
    # function: its derivative is not in the table, so it is refused like an unknown function -- never differentiated as if unary
    for name in list(TABLE_SPEC) + ["log", "fabs"]:
        for npars, idx in ((2, 0), (2, 1), (3, 1)):
            out.append(FunctionContract(f"C10.table[{name}/arity{npars}/d{idx + 1},discontinuous]", tgt,
                                        [("i", f"const:{idx}"), ("func", f"const:__import__('pymbolic').primitives.Lookup(__import__('pymbolic').primitives.Variable('math'), {name!r})"),
                                         ("pars", "v"), ("allowed_nonsmoothness", "const:'discontinuous'")],
                                        raises=[("refused", lambda i, func, pars, allowed_nonsmoothness: True, RuntimeError)], setup=table_setup(npars), arithmetic=True,
                                        property_id="C10"))
    # unknown functions are refused
    for flag in FLAGS:
        out.append(FunctionContract(f"C10.table[unknown,{flag}]", tgt,
                                    [("i", "const:0"), ("func", "const:__import__('pymbolic').primitives.Lookup(__import__('pymbolic').primitives.Variable('math'), 'gamma')"),
                                     ("pars", "v"), ("allowed_nonsmoothness", f"const:{flag!r}")],
                                    raises=[("refused", lambda i, func, pars, allowed_nonsmoothness: True, RuntimeError)], setup=table_setup(1), arithmetic=True,
                                    property_id="C10"))
    return out


TABLE = table_contracts()

"""C15: the leaf and power handlers of the coefficient collector (deductive kernel).

map_sum / map_product / map_quotient iterate over coefficient dicts of symbolic size and stay with the bounded run; the three handlers
below contain no loop and are proved for every input of their kind."""
import pymbolic.primitives as prim
from pyvc.api import FunctionContract, MapperContract, same

CC = "pymbolic.mapper.coefficient:CoefficientCollector"


def leaf_post(self, expr, result):
    """A variable that is a target (or any variable when no targets were given) is its own key with coefficient 1; any other variable
    is (all of) the constant term."""
    if self.target_names is None or expr.name in self.target_names:
        return len(result) == 1 and expr in result and result[expr] == 1
    return len(result) == 1 and 1 in result and same(result[1], expr)


def const_post(self, expr, result):
    return len(result) == 1 and 1 in result and same(result[1], expr)


FUNCTIONS = [
    FunctionContract("C15.map_algebraic_leaf[targets]", CC + ".map_algebraic_leaf", [("self", "obj:" + CC + "{target_names=set}"), ("expr", "node:Variable")],
                     ensures=[("leaf-rule", leaf_post)], property_id="C15"),
    FunctionContract("C15.map_algebraic_leaf[no-targets]", CC + ".map_algebraic_leaf", [("self", "obj:" + CC + "{target_names=const:None}"), ("expr", "node:Variable")],
                     ensures=[("leaf-rule", leaf_post)], property_id="C15"),
    FunctionContract("C15.map_constant[int]", CC + ".map_constant", [("self", "obj:" + CC + "{target_names=set}"), ("expr", "int")],
                     ensures=[("constant-term", const_post)], property_id="C15"),
    FunctionContract("C15.map_constant[any]", CC + ".map_constant", [("self", "obj:" + CC + "{target_names=const:None}"), ("expr", "v")],
                     ensures=[("constant-term", const_post)], property_id="C15"),
]


# ----------------------------------------------------------------------------- map_power: a power is a constant term, or refused
def power_setup(I, inputs):
    """self.rec(child) is an arbitrary coefficient dict (opaque: membership and size are uninterpreted), a function of the child."""
    from pyvc import smt
    from pyvc.values import NativeHandler, SymDict
    selfv = inputs[0]

    def rec(I, self_obj, args, kwargs, star, dstar, node):
        return SymDict(smt.fn("coeffs", smt.V, smt.V)(I.lift(args[0])), None, "coeffs")
    selfv.rec_contract = NativeHandler(rec)
    I.tracked = [t for t in I.tracked if t[0] is not selfv]
    I.track(selfv)


def constant_only(d):
    """The coefficient dict of an expression free of the targets: nothing but a constant term."""
    return len(d) <= 1 and 1 in d


def power_post(self, expr, result):
    """Reached only when base and exponent are free of the targets: the whole power is the constant term."""
    return constant_only(self.rec(expr.base)) and constant_only(self.rec(expr.exponent)) and len(result) == 1 and 1 in result and same(result[1], expr)


def power_refused(self, expr):
    """A target anywhere in the base or the exponent makes the power non-affine: refused."""
    return not (constant_only(self.rec(expr.base)) and constant_only(self.rec(expr.exponent)))


FUNCTIONS.append(FunctionContract("C15.map_power", CC + ".map_power", [("self", "obj:" + CC + "{target_names=set}"), ("expr", "node:Power")],
                                  ensures=[("constant-term", power_post)], raises=[("non-affine-refused", power_refused, RuntimeError)], setup=power_setup, property_id="C15"))

"""Shared specification functions.  Executable natively (oracle of bounded runs and replays)
and unfolded symbolically by PyVC (one level; recursive calls become the uninterpreted
function of the same name)."""
from __future__ import annotations

import functools
import operator

import pymbolic.primitives as p
from pymbolic.mapper.evaluator import UnknownVariableError

from pyvc.api import spec


# The spec's own comparison table (independent of Comparison.operator_to_name).
def _cmp(op, a, b):
    if op == "==":
        return a == b
    if op == "!=":
        return a != b
    if op == "<":
        return a < b
    if op == "<=":
        return a <= b
    if op == ">":
        return a > b
    if op == ">=":
        return a >= b
    raise ValueError(op)


@spec(returns="v")
def den(e, env):
    """Reference denotation of an expression in environment env (C02 wording: apply, bottom-up,
    the ordinary Python operator or construct each node denotes)."""
    if isinstance(e, p.Variable):
        if e.name in env:
            return env[e.name]
        raise UnknownVariableError(e.name)
    if isinstance(e, p.Sum):
        return functools.reduce(operator.add, [den(c, env) for c in e.children], 0)
    if isinstance(e, p.Product):
        return functools.reduce(operator.mul, [den(c, env) for c in e.children], 1)
    if isinstance(e, p.Quotient):
        return den(e.numerator, env) / den(e.denominator, env)
    if isinstance(e, p.FloorDiv):
        return den(e.numerator, env) // den(e.denominator, env)
    if isinstance(e, p.Remainder):
        return den(e.numerator, env) % den(e.denominator, env)
    if isinstance(e, p.Power):
        return den(e.base, env) ** den(e.exponent, env)
    if isinstance(e, p.LeftShift):
        return den(e.shiftee, env) << den(e.shift, env)
    if isinstance(e, p.RightShift):
        return den(e.shiftee, env) >> den(e.shift, env)
    if isinstance(e, p.BitwiseNot):
        return ~den(e.child, env)
    if isinstance(e, p.BitwiseOr):
        return functools.reduce(operator.or_, [den(c, env) for c in e.children])
    if isinstance(e, p.BitwiseXor):
        return functools.reduce(operator.xor, [den(c, env) for c in e.children])
    if isinstance(e, p.BitwiseAnd):
        return functools.reduce(operator.and_, [den(c, env) for c in e.children])
    if isinstance(e, p.LogicalNot):
        return not den(e.child, env)
    if isinstance(e, p.LogicalOr):
        return any(den(c, env) for c in e.children)
    if isinstance(e, p.LogicalAnd):
        return all(den(c, env) for c in e.children)
    if isinstance(e, p.Comparison):
        return _cmp(e.operator, den(e.left, env), den(e.right, env))
    if isinstance(e, p.If):
        if den(e.condition, env):
            return den(e.then, env)
        else:
            return den(e.else_, env)
    if isinstance(e, p.Min):
        return min(den(c, env) for c in e.children)
    if isinstance(e, p.Max):
        return max(den(c, env) for c in e.children)
    if isinstance(e, p.CallWithKwargs):
        f = den(e.function, env)
        args = [den(c, env) for c in e.parameters]
        kwargs = {k: den(v, env) for k, v in e.kw_parameters.items()}
        return f(*args, **kwargs)
    if isinstance(e, p.Call):
        f = den(e.function, env)
        args = [den(c, env) for c in e.parameters]
        return f(*args)
    if isinstance(e, p.Subscript):
        a = den(e.aggregate, env)
        i = den(e.index, env)
        if isinstance(a, p.Expression):
            return a.index(i)
        return a[i]
    if isinstance(e, p.Lookup):
        return getattr(den(e.aggregate, env), e.name)
    if isinstance(e, p.CommonSubexpression):
        return den(e.child, env)
    if isinstance(e, p.NaN):
        if e.data_type is None:
            return float("nan")
        return e.data_type(float("nan"))
    if isinstance(e, tuple):
        return tuple([den(c, env) for c in e])
    if isinstance(e, list):
        return [den(c, env) for c in e]
    if isinstance(e, p.Expression):
        raise NotImplementedError(type(e).__name__)
    return e


COMPARISON_OPERATORS = ("==", "!=", "<", "<=", ">", ">=")


def node_inv(e):
    """Class invariants of node objects (established by __post_init__, obligations of C01)."""
    if isinstance(e, p.Comparison):
        return e.operator in COMPARISON_OPERATORS
    if isinstance(e, p.CommonSubexpression):
        return e.scope is not None
    if isinstance(e, p.Slice):
        return len(e.children) <= 3      # the field annotation admits tuples of length 0..3 only
    return True

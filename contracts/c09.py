"""C09: dependency, node-count and flop analyses are exact."""
import pymbolic.primitives as p
from pyvc.api import FunctionContract, MapperContract, children, spec, union_all


# ----------------------------------------------------------------------------- dependencies
@spec(returns="set", total=True)
def Deps(e, subs, lookups, calls, cses):
    """The outermost subscripts / look-ups / calls / CSEs of the selected kinds (each standing for everything
    beneath it) together with every variable that occurs outside those.  calls in {True, False, "descend_args"}."""
    if isinstance(e, p.Variable):
        return {e}
    if isinstance(e, p.Subscript) and subs:
        return {e}
    if isinstance(e, p.Lookup) and lookups:
        return {e}
    if isinstance(e, p.CommonSubexpression) and cses:
        return {e}
    if isinstance(e, (p.Call, p.CallWithKwargs)):
        if calls == "descend_args":
            out = union_all(Deps(c, subs, lookups, calls, cses) for c in e.parameters)
            if isinstance(e, p.CallWithKwargs):
                out = out | union_all(Deps(c, subs, lookups, calls, cses) for c in e.kw_parameters.values())
            return out
        if calls:
            return {e}
    if isinstance(e, p.Slice):
        return union_all(Deps(c, subs, lookups, calls, cses) for c in children(e) if c is not None)
    if isinstance(e, p.Expression) or isinstance(e, (list, tuple)):
        return union_all(Deps(c, subs, lookups, calls, cses) for c in children(e))
    return set()


def dep_rec(self, e, args, kwargs):
    return Deps(e, self.include_subscripts, self.include_lookups, self.include_calls, self.include_cses)


def dep_refines(self, expr, args, kwargs):
    return Deps(expr, self.include_subscripts, self.include_lookups, self.include_calls, self.include_cses)


def dep_cache_inv(self, key, value):
    return value == Deps(key[0], self.include_subscripts, self.include_lookups, self.include_calls, self.include_cses)


DEPENDENCY = MapperContract(
    "C09.DependencyMapper", "pymbolic.mapper.dependency:DependencyMapper", rec=dep_rec, refines=dep_refines,
    self_attrs={"include_subscripts": "bool", "include_lookups": "bool", "include_cses": "bool"},
    property_id="C09")
DEPENDENCY.dict_invs = {"_cse_cache_dict": dep_cache_inv}
DEPENDENCY.variants = [(f"{{calls={c!r}{',cache' if d else ''}}}", dict({"include_calls": (c,)}, **d))
                       for c in (True, False, "descend_args") for d in ({}, {"_cse_cache_dict": "symdict"})]


# ----------------------------------------------------------------------------- constructor flags
def dep_init_post(self, include_subscripts, include_lookups, include_calls, include_cses, composite_leaves, result):
    if composite_leaves is True:
        return self.include_subscripts is True and self.include_lookups is True and self.include_calls is True \
            and self.include_cses is include_cses
    if composite_leaves is False:
        return self.include_subscripts is False and self.include_lookups is False and self.include_calls is False \
            and self.include_cses is include_cses
    return self.include_subscripts is include_subscripts and self.include_lookups is include_lookups \
        and self.include_calls is include_calls and self.include_cses is include_cses


# ----------------------------------------------------------------------------- flops
@spec(returns="int", total=True)
def Flops(e):
    """Additions/multiplications: |children|-1 per Sum/Product (0 when empty); +1 per Quotient, FloorDiv, Power;
    nothing for any other node itself; plus the flops of the children."""
    own = 0
    if isinstance(e, (p.Sum, p.Product)):
        if len(e.children) > 0:
            own = len(e.children) - 1
    elif isinstance(e, (p.Quotient, p.FloorDiv, p.Power)):
        own = 1
    if isinstance(e, p.Expression) or isinstance(e, (list, tuple)):
        return own + sum(Flops(c) for c in children(e))
    return 0


def flop_rec(self, e, args, kwargs):
    return Flops(e)


def flop_refines(self, expr, args, kwargs):
    return Flops(expr)


FLOPS = MapperContract(
    "C09.FlopCounterBase", "pymbolic.mapper.flop_counter:FlopCounterBase", rec=flop_rec, refines=flop_refines,
    extra_args=False, property_id="C09")


# ----------------------------------------------------------------------------- node count
def nc_old(self, expr):
    return self.count


def nc_post(self, expr, result, old):
    return self.count == old + 1


NODECOUNT_POST_VISIT = FunctionContract(
    "C09.NodeCountMapper.post_visit", "pymbolic.mapper.analysis:NodeCountMapper.post_visit",
    [("self", "obj:pymbolic.mapper.analysis:NodeCountMapper{count=int}"), ("expr", "v")],
    old=nc_old, ensures=[("count+1", nc_post)], property_id="C09")


@spec(returns="nat", total=True)
def DistinctNodes(e):
    """Ghost: number of distinct (type, subexpression) occurring in e."""
    raise NotImplementedError("ghost")


def nodecount_call(self, expr):
    """Assumed contract of CachedWalkMapper.__call__ on a fresh NodeCountMapper: the walk contract (C04)
    + the cache contract (C05) + post_visit above => count grows by the number of distinct nodes."""
    self.count = self.count + DistinctNodes(expr)
    return None


def get_num_nodes_refines(expr):
    return DistinctNodes(expr)


GET_NUM_NODES = FunctionContract(
    "C09.get_num_nodes", "pymbolic.mapper.analysis:get_num_nodes", [("expr", "v")],
    refines=get_num_nodes_refines, assume={"pymbolic.mapper:CachedMapper.__call__": nodecount_call},
    property_id="C09")


# ----------------------------------------------------------------------------- CSE-aware flop counter
def cseflop_old(self, expr):
    return set(self.cse_seen_set)


def cseflop_post(self, expr, result, old):
    if expr in old:
        return result == 0 and self.cse_seen_set == old
    return result == Flops(expr.child) and self.cse_seen_set == old | {expr}


def cseflop_setup(I, inputs):
    from pyvc.values import NativeHandler
    selfv = inputs[0]

    def rec(I, self_obj, args, kwargs, star, dstar, node):
        return I.call_function(Conc(flop_rec), [self_obj, args[0], Conc(()), Conc({})], {})
    from pyvc.values import Conc
    selfv.rec_contract = NativeHandler(rec)


CSE_FLOPS = FunctionContract(
    "C09.CSEAwareFlopCounter.map_common_subexpression",
    "pymbolic.mapper.flop_counter:CSEAwareFlopCounter.map_common_subexpression",
    [("self", "obj:pymbolic.mapper.flop_counter:CSEAwareFlopCounter{cse_seen_set=set}"),
     ("expr", "node:CommonSubexpression")],
    old=cseflop_old, ensures=[("once", cseflop_post)], setup=cseflop_setup, property_id="C09")

FUNCTIONS = [NODECOUNT_POST_VISIT, GET_NUM_NODES, CSE_FLOPS]

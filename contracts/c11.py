"""C11: value preservation of the rewrite rules (deductive kernel).

Real-arithmetic denotation as in C10 (contracts.c10): val(e) is the value of e at an arbitrary point; the induction
hypothesis is that self.rec(e) returns an expression with the same value.  flattened_sum / flattened_product are used
through their assumed contract (value = sum / product of the values of the terms; bounded validation in props.c11).
"""
from __future__ import annotations

import pymbolic.primitives as p
from contracts import c10
from contracts.c03 import denR
from contracts.c10 import rvalue, val
from pyvc.api import MapperContract

hooks = c10.hooks


def same_value_rec(self, e, args, kwargs):
    return c10.dexpr(e)


def setup(I, selfv, expr):
    """self.rec(e) returns an opaque expression R(e) with val(R(e)) == val(e)."""
    from pyvc import smt
    from pyvc.values import NativeHandler, SymReal, SymV
    c10.install_rv(I)
    c10.install_flatten_contracts(I)
    R = smt.fn("Rrw", smt.V, smt.V)

    def value_of(t):
        return I.ring_rv(I.RingV(I.ring_D(t)))

    def rec(I, self_obj, args, kwargs, star, dstar, node):
        a = args[0]
        ra = I.as_real(a)
        if ra is not None:              # constants are mapped to themselves (IdentityMapper.map_constant, C04)
            return a
        t = R(I.lift(a))
        I.ctx.assume(smt.tag(t) == smt.TAG_NODE)
        I.ctx.assume(value_of(t) == value_of(I.lift(a)))
        return I.ExprV(t)
    selfv.rec_contract = NativeHandler(rec)
    for name, v in list(getattr(expr, "fields", {}).items()):
        if type(v) is SymV:
            expr.fields[name] = I.ExprV(v.t)
            I.ctx.assume(smt.tag(v.t) == smt.TAG_NODE)

    def val_h(I, args, kwargs, star, dstar, node):
        r = I.as_real(args[0])
        if r is not None:
            return SymReal(r)
        return SymReal(value_of(I.lift(args[0])))
    I.contracts[id(val)] = val_h


def arity_setup(n):
    def st(I, selfv, expr):
        import z3
        from pyvc import smt
        from pyvc.values import PyTuple
        kids = []
        for i in range(n):
            t = z3.Const(f"child{i}", smt.V)
            I.ctx.assume(smt.tag(t) == smt.TAG_NODE)
            kids.append(I.ExprV(t))
        expr.fields["children"] = PyTuple(kids)
        setup(I, selfv, expr)
    return st


def sum_post(self, expr, args, kwargs, result):
    return rvalue(denR(result)) == sum(val(c) for c in expr.children)


def product_post(self, expr, args, kwargs, result):
    total = 1
    for c in expr.children:
        total = total * val(c)
    return rvalue(denR(result)) == total


MAX_ARITY = 3
FLATTEN_SUM = [MapperContract(f"C11.FlattenMapper.map_sum[arity={n}]", "pymbolic.mapper.flattener:FlattenMapper", rec=same_value_rec,
                              ensures=[("value", sum_post)], setup=arity_setup(n), classes=["Sum"], extra_args=False, property_id="C11")
               for n in range(MAX_ARITY + 1)]
FLATTEN_PRODUCT = [MapperContract(f"C11.FlattenMapper.map_product[arity={n}]", "pymbolic.mapper.flattener:FlattenMapper", rec=same_value_rec,
                                  ensures=[("value", product_post)], setup=arity_setup(n), classes=["Product"], extra_args=False, property_id="C11")
                   for n in range(MAX_ARITY + 1)]


def quotient_post(self, expr, args, kwargs, result):
    """num/den is kept or rewritten to (1/den') * num' with value-preserving den', num'."""
    if val(expr.denominator) == 0:
        return True
    return rvalue(denR(result)) * val(expr.denominator) == val(expr.numerator)


DIST_QUOTIENT = MapperContract("C11.DistributeMapper.map_quotient", "pymbolic.mapper.distributor:DistributeMapper", rec=same_value_rec,
                               ensures=[("value", quotient_post)], setup=setup, classes=["Quotient"], extra_args=False, property_id="C11")

MAPPER_JOBS = [(m, "Sum") for m in FLATTEN_SUM] + [(m, "Product") for m in FLATTEN_PRODUCT] + [(DIST_QUOTIENT, "Quotient")]

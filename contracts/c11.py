"""C11: value preservation of the rewrite rules (deductive kernel).

Real-arithmetic denotation as in C10 (contracts.c10): val(e) is the value of e at an arbitrary point; the induction
hypothesis is that self.rec(e) returns an expression with the same value.  flattened_sum / flattened_product are used
through their assumed contract (value = sum / product of the values of the terms; bounded validation in props.c11).
"""
from __future__ import annotations

import pymbolic.primitives as p
from contracts import c10
from contracts.c03 import denR
from contracts.c10 import rvalue, val
from pyvc.api import MapperContract

hooks = c10.hooks


def same_value_rec(self, e, args, kwargs):
    return c10.dexpr(e)


def setup(I, selfv, expr):
    """self.rec(e) returns an opaque expression R(e) with val(R(e)) == val(e)."""
    from pyvc import smt
    from pyvc.values import NativeHandler, SymReal, SymV
    c10.install_rv(I)
    c10.install_flatten_contracts(I)
    R = smt.fn("Rrw", smt.V, smt.V)

    def value_of(t):
        return I.ring_rv(I.RingV(I.ring_D(t)))

    def rec(I, self_obj, args, kwargs, star, dstar, node):
        a = args[0]
        ra = I.as_real(a)
        if ra is not None:              # constants are mapped to themselves (IdentityMapper.map_constant, C04)
            return a
        t = R(I.lift(a))
        I.ctx.assume(smt.tag(t) == smt.TAG_NODE)
        I.ctx.assume(value_of(t) == value_of(I.lift(a)))
        return I.ExprV(t)
    selfv.rec_contract = NativeHandler(rec)
    for name, v in list(getattr(expr, "fields", {}).items()):
        if type(v) is SymV:
            expr.fields[name] = I.ExprV(v.t)
            I.ctx.assume(smt.tag(v.t) == smt.TAG_NODE)

    def val_h(I, args, kwargs, star, dstar, node):
        r = I.as_real(args[0])
        if r is not None:
            return SymReal(r)
        return SymReal(value_of(I.lift(args[0])))
    I.contracts[id(val)] = val_h


def arity_setup(n):
    def st(I, selfv, expr):
        import z3
        from pyvc import smt
        from pyvc.values import PyTuple
        kids = []
        for i in range(n):
            t = z3.Const(f"child{i}", smt.V)
            I.ctx.assume(smt.tag(t) == smt.TAG_NODE)
            kids.append(I.ExprV(t))
        expr.fields["children"] = PyTuple(kids)
        setup(I, selfv, expr)
    return st


def sum_post(self, expr, args, kwargs, result):
    return rvalue(denR(result)) == sum(val(c) for c in expr.children)


def product_post(self, expr, args, kwargs, result):
    total = 1
    for c in expr.children:
        total = total * val(c)
    return rvalue(denR(result)) == total


MAX_ARITY = 3
FLATTEN_SUM = [MapperContract(f"C11.FlattenMapper.map_sum[arity={n}]", "pymbolic.mapper.flattener:FlattenMapper", rec=same_value_rec,
                              ensures=[("value", sum_post)], setup=arity_setup(n), classes=["Sum"], extra_args=False, property_id="C11")
               for n in range(MAX_ARITY + 1)]
FLATTEN_PRODUCT = [MapperContract(f"C11.FlattenMapper.map_product[arity={n}]", "pymbolic.mapper.flattener:FlattenMapper", rec=same_value_rec,
                                  ensures=[("value", product_post)], setup=arity_setup(n), classes=["Product"], extra_args=False, property_id="C11")
                   for n in range(MAX_ARITY + 1)]


def quotient_post(self, expr, args, kwargs, result):
    """num/den is kept or rewritten to (1/den') * num' with value-preserving den', num'."""
    if val(expr.denominator) == 0:
        return True
    return rvalue(denR(result)) * val(expr.denominator) == val(expr.numerator)


DIST_QUOTIENT = MapperContract("C11.DistributeMapper.map_quotient", "pymbolic.mapper.distributor:DistributeMapper", rec=same_value_rec,
                               ensures=[("value", quotient_post)], setup=setup, classes=["Quotient"], extra_args=False, property_id="C11")

MAPPER_JOBS = [(m, "Sum") for m in FLATTEN_SUM] + [(m, "Product") for m in FLATTEN_PRODUCT] + [(DIST_QUOTIENT, "Quotient")]


# ----------------------------------------------------------------------------- the worklist loops of flattened_sum / flattened_product
# Abstract commutative monoid, written additively over the integers: ival(x) is the value of a term, fsum(s) the monoid
# sum over a sequence.  The statements proved are linear in these uninterpreted symbols, so they hold in every commutative
# monoid -- (Q, +, 0) for flattened_sum and (Q, *, 1) for flattened_product alike.  bad(x) = 1 iff x is a node of the
# flattened class or a neutral element (is_zero / is_zero(x - 1)); tsz(x) >= 1 is the size measure for termination.
from pyvc.api import FunctionContract, Loop, assume


def ival(x):
    raise NotImplementedError("ghost")


def bad(x):
    raise NotImplementedError("ghost")


def tsz(x):
    raise NotImplementedError("ghost")


def zc(x):
    raise NotImplementedError("ghost")


def fz(s):
    raise NotImplementedError("ghost")


def fsum(s):
    raise NotImplementedError("ghost")


def fcnt(s):
    raise NotImplementedError("ghost")


def fsz(s):
    raise NotImplementedError("ghost")


def fold_hooks(I):
    """Uninterpreted folds f over an element function e, without quantifiers: a fold is decomposed syntactically along
    concat / unit / empty; for an opaque sequence s the ground instances len(s)=0 -> f(s)=0, len(s)=1 -> f(s)=e(s[0]) and
    the range facts are added; when a list is split by pop() the instance f(s) = e(head) + f(rest) is added."""
    import z3
    from pyvc import smt
    from pyvc.smt import S, V, Int, fn
    from pyvc.values import SymInt
    ctx = I.ctx
    seen = set()
    pairs = []

    def elem_term(ename, xt):
        e = fn(ename, V, Int)
        t = e(xt)
        key = ("e", ename, xt.get_id())
        if key not in seen:
            seen.add(key)
            if ename in ("bad", "zc", "foldable"):
                ctx.assume(z3.And(t >= 0, t <= 1))
            if ename == "tsz":
                ctx.assume(t >= 1)
            if z3.is_app(xt) and xt.decl().name() == "box_int":
                product = getattr(I, "flatten_mode", "sum") == "product"
                if ename == "ival" and not product:
                    ctx.assume(t == xt.arg(0))                             # additive reading: numbers denote themselves
                if ename == "ival" and product:
                    ctx.assume(z3.Implies(xt.arg(0) == 1, t == 0))         # multiplicative reading: 1 is the unit ...
                if ename == "zc" and product:
                    ctx.assume(t == z3.If(xt.arg(0) == 0, 1, 0))           # ... and exactly the number 0 is zero-valued
        return t

    def fold_term(ename, fname, sq):
        sq = z3.simplify(sq)
        k = sq.decl().kind()
        if k == z3.Z3_OP_SEQ_EMPTY:
            return z3.IntVal(0)
        if k == z3.Z3_OP_SEQ_UNIT:
            return elem_term(ename, sq.arg(0))
        if k == z3.Z3_OP_SEQ_CONCAT:
            return z3.Sum([fold_term(ename, fname, c) for c in sq.children()])
        f = fn(fname, S, Int)
        t = f(sq)
        key = ("f", fname, sq.get_id())
        if key not in seen:
            seen.add(key)
            ctx.assume(z3.Implies(z3.Length(sq) == 0, t == 0))
            ctx.assume(z3.Implies(z3.Length(sq) == 1, t == elem_term(ename, sq[0])))
            if fname in ("fcnt", "fsz", "fz", "ffold"):
                ctx.assume(t >= 0)
        return t

    for elem, fold in (("ival", "fsum"), ("bad", "fcnt"), ("tsz", "fsz"), ("zc", "fz")):
        pairs.append((elem, fold))

        def eh(I, args, kwargs, star, dstar, node, elem=elem):
            return SymInt(elem_term(elem, I.lift(args[0])))

        def fh(I, args, kwargs, star, dstar, node, elem=elem, fold=fold):
            return SymInt(fold_term(elem, fold, I.as_seq(args[0])))
        I.contracts[id(globals()[elem])] = eh
        I.contracts[id(globals()[fold])] = fh

    def getattr_hook(I, obj, name):
        """x.children for an opaque x that the path conditions make an instance of Sum / Product: the field projection."""
        if name != "children":
            return None
        from pyvc.values import SymSeq
        for k in (p.Sum, p.Product):
            b = I.isinst_term(obj.t, k)
            r, _ = smt.check(ctx, I.pcs + [z3.Not(b)], rlimit=5_000_000)
            if r == "unsat":
                sq = fn(f"fld_{k.__name__}_children", V, S)(obj.t)
                return SymSeq(sq, "tuple")
        return None
    I.builtin_handlers["__getattr_hook__"] = getattr_hook

    def is_zero_contract(I, args, kwargs, star, dstar, node):
        """Assumed contract of primitives.is_zero (A-RING, bounded-validated in C03): the real body runs; when it answers True
        the argument denotes zero.  In product mode (I.flatten_mode == 'product'): is_zero(x) -> zc(x) = 1, and
        is_zero(x - 1) -> x denotes the unit (ival(x) = 0, zc(x) = 0); in sum mode: is_zero(x) -> ival(x) = 0."""
        from pyvc.values import Conc
        (x,) = args
        r = I.call_function(Conc(p.is_nonzero), [x], {})
        nz = I.truth(r)
        zero = (not nz) if isinstance(nz, bool) else z3.Not(nz)
        xt = I.lift(x)
        fact = None
        if getattr(I, "flatten_mode", "sum") == "sum":
            fact = elem_term("ival", xt) == 0
        elif z3.is_app(xt) and xt.decl().name() == "py_sub" and z3.is_app(xt.arg(1)) and xt.arg(1).decl().name() == "box_int" \
                and z3.is_int_value(xt.arg(1).arg(0)) and xt.arg(1).arg(0).as_long() == 1:
            y = xt.arg(0)
            fact = z3.And(elem_term("ival", y) == 0, elem_term("zc", y) == 0)
        else:
            fact = elem_term("zc", xt) == 1
        if zero is True:
            ctx_fact = fact
        elif zero is False:
            ctx_fact = None
        else:
            ctx_fact = z3.Implies(zero, fact)
        if ctx_fact is not None:
            I.pcs.append(ctx_fact)
        return Conc(zero) if isinstance(zero, bool) else __import__("pyvc.values", fromlist=["SymBool"]).SymBool(zero)
    I.contracts[id(p.is_zero)] = is_zero_contract

    I.fold_term = fold_term
    I.extra_fold_pairs = pairs

    def on_split(I, old_t, el, rest, first):
        for elem, fold in pairs:
            I.pcs.append(fold_term(elem, fold, old_t) == elem_term(elem, el) + fold_term(elem, fold, rest))
    I.seq_split_hooks = [on_split]


def same_sign(a, b):
    """For non-negative counts: a > 0 iff b > 0."""
    if a > 0:
        return b > 0
    return b <= 0


def make_flatten_contract(fname, cls_name, mode):
    cls = getattr(p, cls_name)

    def setup(I, inputs):
        I.flatten_mode = mode

    def neutral(x):
        return p.is_zero(x) if mode == "sum" else p.is_zero(x - 1)

    def facts(x):
        """Instances, at the term x, of the definitions of the denotation (an n-ary node denotes the fold over its children;
        in a product it is zero-valued iff some child is), of the size measure and of 'bad' (node of the flattened class or
        neutral element).  Evaluated in the order the code evaluates them, so that the same terms arise."""
        try:
            neut = neutral(x)
        except Exception:       # noqa: BLE001  (not an element the function accepts: not neutral)
            neut = False
        is_k = isinstance(x, cls)
        if is_k:
            node_defs(x)
        assume(bad(x) == (1 if (is_k or neut) else 0))
        return True

    def node_defs(x):
        assume(ival(x) == fsum(x.children))
        assume(tsz(x) == 1 + fsz(x.children))
        assume(zc(x) == (1 if fz(x.children) > 0 else 0))
        return True

    def inv(v):
        zeros_kept = mode == "sum" or same_sign(fz(v.done) + fz(v.queue), fz(v.old_terms))
        return fsum(v.done) + fsum(v.queue) == fsum(v.old_terms) and zeros_kept and fcnt(v.done) == 0

    def variant(v):
        return fsz(v.queue)

    def upd(v):
        facts(v.item)
        return {}

    def post_flat(terms, result):
        if isinstance(result, cls):
            assume(bad(result) == 1)        # definition of 'bad'; excludes the single-remaining-term case (bad == 0 there)
            return fcnt(result.children) == 0 and len(result.children) >= 2
        facts(result)
        if bad(result) == 0:
            return True
        # a neutral element is returned only as the value of the empty fold
        return isinstance(result, int) and result == (0 if mode == "sum" else 1)

    def post_value(terms, result):
        if isinstance(result, cls):
            node_defs(result)
        if mode == "product" and fz(terms) > 0:
            # some factor denotes zero: so does the result (the early 'return 0', or a product that still holds the factor)
            return zc(result) == 1 or (isinstance(result, int) and result == 0)
        return ival(result) == fsum(terms) and (mode == "sum" or zc(result) == 0)

    fc = FunctionContract(f"C11.{fname}", f"pymbolic.primitives:{fname}", [("terms", "list")], setup=setup,
                          ensures=[("value-preserved", post_value), ("flat", post_flat)], loops={0: Loop(inv, variant, ghost_update=upd)}, property_id="C11")
    # is_nonzero(None) raises ValueError: the documented reaction to a term that is no expression at all
    fc.allowed_exc = (ValueError,)
    return fc


FLATTENED_SUM = make_flatten_contract("flattened_sum", "Sum", "sum")
FLATTENED_PRODUCT = make_flatten_contract("flattened_product", "Product", "product")
LOOP_FUNCTIONS = [FLATTENED_SUM, FLATTENED_PRODUCT]


# ----------------------------------------------------------------------------- ConstantFoldingMapperBase.fold
# Same abstract monoid.  self.rec, self.is_constant, self.evaluate are arbitrary callables obeying their contracts:
#   rec(x)         returns a term with the value of x                           (induction hypothesis)
#   is_constant(x) an arbitrary boolean
#   evaluate(x)    returns None or a number with the value of x
# op (operator.add / operator.mul) over the collected constants is the monoid operation: reduce(op, cs) denotes fold(cs);
# the constructor (flattened_sum / flattened_product) is used through the contract proved above.  Partial correctness:
# termination depends on rec and is not claimed.  'foldable(x)' = is_constant(x) and evaluate(x) is not None.
def foldable(x):
    raise NotImplementedError("ghost")


def ffold(s):
    raise NotImplementedError("ghost")


def fold_setup(cls_name):
    def st(I, inputs):
        import functools
        import operator
        import z3
        from pyvc import smt
        from pyvc.smt import S, V, Int, Bool, fn
        from pyvc.values import Conc, NativeHandler, SymBool, SymInt, SymV, SymSeq, PyTuple
        import pymbolic.mapper.constant_folder as cf
        I.flatten_mode = "sum"          # additive reading of the abstract monoid for both instances
        fold_hooks(I)
        selfv = inputs[0]
        iv = fn("ival", V, Int)
        R = fn("Rfold", V, V)
        ISC = fn("is_const", V, Bool)
        EV = fn("evaluated", V, V)
        fo = fn("foldable", V, Int)
        ffo = fn("ffold", S, Int)

        def rec(I, self_obj, args, kwargs, star, dstar, node):
            t = R(I.lift(args[0]))
            I.pcs.append(iv(t) == iv(I.lift(args[0])))
            return SymV(t)
        selfv.rec_contract = NativeHandler(rec)

        def is_constant(I, args, kwargs, star, dstar, node):
            x = I.lift(args[-1])
            I.pcs.append(z3.Implies(z3.Not(ISC(x)), fo(x) == 0))       # definition of 'foldable'
            return SymBool(ISC(x))
        I.contracts[id(cf.ConstantFoldingMapperBase.is_constant)] = is_constant

        def evaluate(I, args, kwargs, star, dstar, node):
            x = I.lift(args[-1])
            t = EV(x)
            none = t == I.lift(Conc(None))
            I.pcs.append(z3.Implies(z3.Not(none), iv(t) == iv(x)))
            I.pcs.append(fo(x) == z3.If(z3.And(ISC(x), z3.Not(none)), 1, 0))
            return SymV(t)
        I.contracts[id(cf.ConstantFoldingMapperBase.evaluate)] = evaluate

        def foldable_h(I, args, kwargs, star, dstar, node):
            x = I.lift(args[0])
            I.ctx.assume(z3.And(fo(x) >= 0, fo(x) <= 1))
            return SymInt(fo(x))
        I.contracts[id(foldable)] = foldable_h
        # the fold 'ffold' over 'foldable' joins the quantifier-free fold machinery
        I.extra_fold_pairs.append(("foldable", "ffold"))
        I.contracts[id(ffold)] = lambda I, args, kwargs, star, dstar, node: SymInt(I.fold_term("foldable", "ffold", I.as_seq(args[0])))

        def reduce_h(I, args, kwargs, star, dstar, node):
            # reduce(op, constants) for a non-empty list: a number denoting the monoid fold of the list
            sq = I.as_seq(args[1])
            r = z3.Const(I.fresh_name(node, "reduced"), V)
            I.pcs.append(iv(r) == I.fold_term("ival", "fsum", sq))
            I.pcs.append(smt.tag(r) != smt.TAG_NODE)
            return SymV(r)
        I.builtin_handlers[functools.reduce] = reduce_h

        def constructor(I, args, kwargs, star, dstar, node):
            # contract of flattened_sum / flattened_product (C11.flattened_*): value = fold of the terms
            sq = I.as_seq(args[0])
            r = z3.Const(I.fresh_name(node, "constructed"), V)
            I.pcs.append(iv(r) == I.fold_term("ival", "fsum", sq))
            I.constructed_from = sq
            return SymV(r)
        I.contracts[id(p.flattened_sum)] = constructor
        I.contracts[id(p.flattened_product)] = constructor
    return st


def fold_inv(v):
    return fsum(v.constants) + fsum(v.nonconstants) + fsum(v.queue) == fsum(v.old_expr.children) and ffold(v.nonconstants) == 0


def fold_upd(v):
    if isinstance(v.child, v.klass):
        assume(ival(v.child) == fsum(v.child.children))     # an n-ary node denotes the fold over its children
    return {}


def fold_post(self, expr, klass, op, constructor, result):
    return ival(result) == fsum(expr.children)


def make_fold_contract(cls_name):
    ctor = "flattened_sum" if cls_name == "Sum" else "flattened_product"
    opn = "add" if cls_name == "Sum" else "mul"
    fc = FunctionContract(f"C11.ConstantFoldingMapperBase.fold[{cls_name}]", "pymbolic.mapper.constant_folder:ConstantFoldingMapperBase.fold",
                          [("self", "obj:pymbolic.mapper.constant_folder:ConstantFoldingMapper"), ("expr", f"node:{cls_name}"),
                           ("klass", f"const:__import__('pymbolic').primitives.{cls_name}"), ("op", f"const:__import__('operator').{opn}"),
                           ("constructor", f"const:__import__('pymbolic').primitives.{ctor}")],
                          ensures=[("value-preserved", fold_post)], loops={0: Loop(fold_inv, None, ghost_update=fold_upd)}, setup=fold_setup(cls_name), property_id="C11")
    fc.allowed_exc = (ValueError,)
    return fc


FOLD_FUNCTIONS = [make_fold_contract("Sum"), make_fold_contract("Product")]

"""C03: operator overloading builds trees that mean what the operators mean.

Ring encoding (DESIGN 2.2 "arithmetic" encoding, order preserving): the denotation of an arbitrary expression
is an element D(e) of an abstract ring-like structure; + and * are uninterpreted binary operations with only the
laws the construction-time shortcuts may rely on (units, absorbing zero, numerals compute, associativity of the
n-ary folds).  * is NOT commutative, so splicing that reorders factors is refuted.  //, %, ** get the true laws
only (x**0 = 1, x**1 = x, 1**x = 1, x/1 = x, 0/x = 0): shortcuts that are wrong for some numbers stay unprovable.
"""
from __future__ import annotations

import functools
import operator

import pymbolic.primitives as p
from pyvc.api import FunctionContract, same

ENV = "env"


def denR(e):
    """Denotation in the fixed arbitrary environment (ring encoding).  Natively: plain evaluation."""
    if isinstance(e, p.Sum):
        return functools.reduce(operator.add, [denR(c) for c in e.children], 0)
    if isinstance(e, p.Product):
        return functools.reduce(operator.mul, [denR(c) for c in e.children], 1)
    if isinstance(e, p.Quotient):
        return denR(e.numerator) / denR(e.denominator)
    if isinstance(e, p.FloorDiv):
        return denR(e.numerator) // denR(e.denominator)
    if isinstance(e, p.Remainder):
        return denR(e.numerator) % denR(e.denominator)
    if isinstance(e, p.Power):
        return denR(e.base) ** denR(e.exponent)
    if isinstance(e, p.LeftShift):
        return denR(e.shiftee) << denR(e.shift)
    if isinstance(e, p.RightShift):
        return denR(e.shiftee) >> denR(e.shift)
    if isinstance(e, p.BitwiseNot):
        return ~denR(e.child)
    if isinstance(e, p.BitwiseOr):
        return functools.reduce(operator.or_, [denR(c) for c in e.children])
    if isinstance(e, p.BitwiseXor):
        return functools.reduce(operator.xor, [denR(c) for c in e.children])
    if isinstance(e, p.BitwiseAnd):
        return functools.reduce(operator.and_, [denR(c) for c in e.children])
    return _leaf(e)


def _leaf(e):
    raise NotImplementedError("symbolic only: D(e) of an opaque expression")


# ----------------------------------------------------------------------------- engine side of the encoding
def hooks(I):
    import z3
    from pyvc import loader, smt
    from pyvc.interp import Env
    from pyvc.smt import V, Real, Bool, fn
    from pyvc.values import Conc, PyList, PyTuple, SymBool, SymInt, SymNode, SymReal, SymSeq, SymV, Unsupported
    ctx = I.ctx
    num = fn("num", Real, V)
    D = fn("D", V, V)
    I.op_may_raise = False

    class RingV(SymV):
        pass

    class ExprV(SymV):
        """An expression object of unknown class (not one with its own operator overrides)."""
    I.pow_terms = []
    I.RingV, I.ExprV = RingV, ExprV
    I.ring_rv = lambda v: real_of(ring_term(v))
    I.ring_D = D

    rv = fn("rv", V, Real)          # real value of a ring element (used by the real-arithmetic mode, C10)
    real_mode = getattr(I, "real_mode", False)

    def numeral(r):
        t = num(r)
        ctx.assume(fn("is_num", V, Bool)(t))
        ctx.assume(fn("num_val", V, Real)(t) == r)
        if real_mode:
            ctx.assume(rv(t) == r)
        return t

    def ring_term(v):
        if isinstance(v, RingV):
            return v.t
        r = I.as_real(v)
        if r is not None and not isinstance(v, SymBool):
            return numeral(z3.simplify(r))
        if isinstance(v, SymBool):
            return numeral(z3.If(v.t, z3.RealVal(1), z3.RealVal(0)))
        return None

    rwrap = fn("rwrap", Real, V)

    def real_of(t):
        if z3.is_app(t) and t.decl().name() == "rwrap":
            return t.arg(0)
        if z3.is_app(t) and t.decl().name() == "num":
            return t.arg(0)
        return rv(t)

    def wrap(r):
        r = z3.simplify(r)
        t = rwrap(r)
        ctx.assume(rv(t) == r)
        return t
    I.real_of = real_of

    def rop_real(name, a, b):
        ra, rb = real_of(a), real_of(b)
        if name == "add":
            return RingV(wrap(ra + rb))
        if name == "mul":
            return RingV(wrap(ra * rb))
        if name == "truediv":
            q = z3.Const(f"quot!{len(I.pow_terms)}!{ctx.fresh_n}", Real)
            ctx.fresh_n += 1
            ctx.assume(z3.Implies(rb != 0, q * rb == ra))
            return RingV(wrap(q))
        if name == "pow":
            pw = z3.Const(f"pow!{len(I.pow_terms)}", Real)
            ctx.assume(z3.Implies(rb == 0, pw == 1))
            ctx.assume(z3.Implies(rb == 1, pw == ra))
            ctx.assume(z3.Implies(rb == 2, pw == ra * ra))
            for (a2, b2, p2) in I.pow_terms:
                r0, _ = smt.check(ctx, I.pcs + [a2 != ra], rlimit=5_000_000)
                if r0 != "unsat":
                    continue
                for (lo, hi, plo, phi) in ((b2, rb, p2, pw), (rb, b2, pw, p2)):
                    r_, _ = smt.check(ctx, I.pcs + [hi - lo != 1], rlimit=5_000_000)
                    if r_ == "unsat":
                        ctx.assume(z3.Implies(ra != 0, plo * ra == phi))     # x**y * x == x**(y+1)
                r_, _ = smt.check(ctx, I.pcs + [b2 != rb], rlimit=5_000_000)
                if r_ == "unsat":
                    ctx.assume(p2 == pw)
            I.pow_terms.append((ra, rb, pw))
            return RingV(wrap(pw))
        u = fn("rr_" + name, Real, Real, Real)(ra, rb)
        return RingV(wrap(u))

    def rop(name, a, b):
        if real_mode:
            return rop_real(name, a, b)
        f = fn("r" + name, V, V, V)
        t = f(a, b)
        if real_mode:
            if name == "add":
                ctx.assume(rv(t) == rv(a) + rv(b))
            elif name == "mul":
                ctx.assume(rv(t) == rv(a) * rv(b))
            elif name == "truediv":
                ctx.assume(z3.Implies(rv(b) != 0, rv(t) * rv(b) == rv(a)))
            elif name == "pow":
                ctx.assume(z3.Implies(rv(b) == 0, rv(t) == 1))
                ctx.assume(z3.Implies(rv(b) == 1, rv(t) == rv(a)))
                ctx.assume(z3.Implies(rv(b) == 2, rv(t) == rv(a) * rv(a)))
                # x**y * x == x**(y+1) for x != 0: related to the other powers of the same base whose exponent
                # differs by one (decided by a linear query), so that no uninterpreted power function is needed
                for (a2, b2, t2) in I.pow_terms:
                    if z3.eq(a2, a):
                        for (lo, hi, tlo, thi) in ((b2, b, t2, t), (b, b2, t, t2)):
                            r_, _ = smt.check(ctx, I.pcs + [rv(hi) - rv(lo) != 1], rlimit=5_000_000)
                            if r_ == "unsat":
                                ctx.assume(z3.Implies(rv(a) != 0, rv(tlo) * rv(a) == rv(thi)))
                        r_, _ = smt.check(ctx, I.pcs + [rv(b2) != rv(b)], rlimit=5_000_000)
                        if r_ == "unsat":
                            ctx.assume(rv(t2) == rv(t))
                I.pow_terms.append((a, b, t))
        zero, one = numeral(z3.RealVal(0)), numeral(z3.RealVal(1))
        isn, val = fn("is_num", V, Bool), fn("num_val", V, Real)
        both = z3.And(isn(a), isn(b))
        if name == "add":
            ctx.assume(z3.Implies(a == zero, t == b))
            ctx.assume(z3.Implies(b == zero, t == a))
            ctx.assume(z3.Implies(both, t == num(val(a) + val(b))))
        elif name == "mul":
            ctx.assume(z3.Implies(a == one, t == b))
            ctx.assume(z3.Implies(b == one, t == a))
            ctx.assume(z3.Implies(a == zero, t == zero))
            ctx.assume(z3.Implies(b == zero, t == zero))
            ctx.assume(z3.Implies(both, t == num(val(a) * val(b))))
        elif name == "truediv":
            ctx.assume(z3.Implies(b == one, t == a))
            ctx.assume(z3.Implies(z3.And(a == zero, b != zero), t == zero))      # where defined
            ctx.assume(z3.Implies(z3.And(both, val(b) != 0), t == num(val(a) / val(b))))
        elif name == "pow":
            ctx.assume(z3.Implies(b == zero, t == one))          # x**0 == 1 (also 0**0)
            ctx.assume(z3.Implies(b == one, t == a))
            ctx.assume(z3.Implies(a == one, t == one))           # 1**x == 1
        elif name in ("floordiv", "mod"):
            pass        # no law: x//1 == x and x%1 == 0 hold for integers only
        if name in ("add", "mul", "truediv"):
            for x in (zero, one):
                ctx.assume(isn(x))
            ctx.assume(val(zero) == 0)
            ctx.assume(val(one) == 1)
            ctx.assume(z3.Implies(isn(a), a == num(val(a))))
            ctx.assume(z3.Implies(isn(b), b == num(val(b))))
        return RingV(t)

    def binop_hook(I, op, a, b):
        if isinstance(a, RingV) or isinstance(b, RingV):
            ta, tb = ring_term(a), ring_term(b)
            if ta is None or tb is None:
                raise Unsupported(f"ring operation on {type(a).__name__}, {type(b).__name__}")
            if op == "sub":     # a - b := a + (-1)*b
                return rop("add", ta, rop("mul", numeral(z3.RealVal(-1)), tb).t)
            return rop(op, ta, tb)
        # operators applied to an expression object of unknown class: the real Expression dunder runs
        if isinstance(a, ExprV) and op in I.DIRECT:
            r = I.call_function(Conc(getattr(p.Expression, I.DIRECT[op])), [a, b], {})
            if not (isinstance(r, Conc) and r.obj is NotImplemented):
                return r
        if isinstance(b, ExprV) and op in I.REFLECTED:
            r = I.call_function(Conc(getattr(p.Expression, I.REFLECTED[op])), [b, a], {})
            if not (isinstance(r, Conc) and r.obj is NotImplemented):
                return r
        if isinstance(a, ExprV) or isinstance(b, ExprV):
            raise Unsupported("operator on expression object fell through")
        return None
    I.builtin_handlers["__binop_hook__"] = binop_hook

    def unop_hook(I, name, a):
        if isinstance(a, RingV):
            if name == "neg":
                return rop("mul", numeral(z3.RealVal(-1)), a.t)
            if name == "pos":
                return a
            return RingV(fn("r" + name, V, V)(a.t))
        if isinstance(a, ExprV):
            m = {"neg": "__neg__", "pos": "__pos__", "invert": "__invert__"}[name]
            return I.call_function(Conc(getattr(p.Expression, m)), [a], {})
        return None
    I.builtin_handlers["__unop_hook__"] = unop_hook

    def truth_hook(I, v):
        if isinstance(v, ExprV):
            t = smt.truthy(v.t)
            # helper contract (Sum/Product/QuotientBase.__bool__, default object truth): a falsy expression denotes 0
            ctx.assume(z3.Implies(z3.Not(t), D(v.t) == numeral(z3.RealVal(0))))
            if real_mode:
                ctx.assume(z3.Implies(z3.Not(t), rv(D(v.t)) == 0))
            return t
        if isinstance(v, RingV):
            raise Unsupported("truth of a ring value")
        if type(v) is SymV:
            # an operand (number or expression) found inside a node: falsy => denotes 0 (numbers: 0, 0.0, False)
            t = smt.truthy(v.t)
            ctx.assume(z3.Implies(z3.Not(t), D(v.t) == numeral(z3.RealVal(0))))
            return t
        return None
    I.builtin_handlers["__truth_hook__"] = truth_hook

    def isinstance_hook(I, v, classes):
        if isinstance(v, ExprV):
            return any(k in (p.Expression, object) for k in classes)
        if isinstance(v, RingV):
            return False
        return None
    I.builtin_handlers["__isinstance_hook__"] = isinstance_hook

    def getattr_hook(I, obj, name):
        if isinstance(obj, ExprV):
            return I.class_attr(obj, p.Expression, name)
        return None
    I.builtin_handlers["__getattr_hook__"] = getattr_hook

    def cmp_hook(I, op, a, b):
        if op in ("eq", "ne"):
            # an expression object of a class without its own __eq__ never equals a tuple / string / None (Expression.__eq__: is_equal needs the same type)
            for u, v in ((a, b), (b, a)):
                if isinstance(u, ExprV) and ((isinstance(v, Conc) and isinstance(v.obj, (tuple, str, type(None)))) or isinstance(v, PyTuple)):
                    return Conc(op == "ne")
        if isinstance(a, RingV) or isinstance(b, RingV):
            ta, tb = ring_term(a), ring_term(b)
            if op in ("eq", "ne") and ta is not None and tb is not None:
                return SymBool(ta == tb if op == "eq" else ta != tb)
        if isinstance(a, ExprV) and op in ("lt", "le", "gt", "ge"):
            return I.call_function(Conc(getattr(p.Expression, I.DIRECT[op])), [a, b], {})
        return None
    I.builtin_handlers["__cmp_hook__"] = cmp_hook

    # folds over sequences with a symbolic part: fold(acc, part) = acc (+|*) F(part), decomposed along concat
    import functools as _ft
    orig_reduce = I.builtin_handlers[_ft.reduce]

    def reduce_ring(I, args, kw, star, dstar, node):
        f, v = args[0], args[1]
        if isinstance(f, Conc) and f.obj in (operator.add, operator.mul) and len(args) == 3 and I.concrete_iter(v) is None:
            name = "add" if f.obj is operator.add else "mul"
            sq = z3.simplify(I.as_seq(v))
            acc = ring_term(args[2])
            k = sq.decl().kind()
            parts = sq.children() if k == z3.Z3_OP_SEQ_CONCAT else [sq]
            for part in parts:
                pk = part.decl().kind()
                if pk == z3.Z3_OP_SEQ_EMPTY:
                    continue
                if pk == z3.Z3_OP_SEQ_UNIT:
                    acc = rop(name, acc, part.arg(0)).t
                else:
                    rf = fn("rfold_" + name, smt.S, V)(part)
                    unit = numeral(z3.RealVal(0 if name == "add" else 1))
                    ctx.assume(z3.Implies(z3.Length(part) == 0, rf == unit))
                    info = I.map_info.get(part.get_id())
                    if info is not None and len(info["bvs"]) == 1:
                        first = z3.substitute(info["val"], (info["bvs"][0], info["seqs"][0][0]))
                        ctx.assume(z3.Implies(z3.Length(part) == 1, rf == first))
                    acc = rop(name, acc, rf).t
            return RingV(acc)
        return orig_reduce(I, args, kw, star, dstar, node)
    I.builtin_handlers[_ft.reduce] = reduce_ring

    # denR: unfold on nodes of known class, numerals on numbers, D(e) on opaque expressions
    info = loader.get_func_info(denR)

    def denR_handler(I, args, kwargs, star, dstar, node):
        (e,) = args
        if type(e) is SymV:
            known = I.node_by_term.get(e.t.get_id())
            if known is not None:
                e = known
        if isinstance(e, SymNode) and issubclass(e.cls, (p.Sum, p.Product, p.QuotientBase, p.Power, p._ShiftOperator, p.BitwiseNot,
                                                       p.BitwiseOr, p.BitwiseXor, p.BitwiseAnd)):
            env = Env({}, None, denR.__globals__)
            return I.run_function(info.node, env, denR.__globals__, [e], {}, None, None, [], {}, name="denR")
        if isinstance(e, SymNode) and e.cls is p.Variable and isinstance(e.fields.get("name"), Conc):
            return RingV(z3.Const(f"D:var:{e.fields['name'].obj}", V))      # a named variable: one fixed element
        if isinstance(e, SymNode) and e.cls is p.Lookup and isinstance(e.fields.get("name"), Conc):
            at = denR_handler(I, [e.fields["aggregate"]], {}, None, None, node).t
            return RingV(fn(f"rlookup:{e.fields['name'].obj}", V, V)(at))
        if isinstance(e, SymNode) and e.cls is p.Call:
            ft = denR_handler(I, [e.fields["function"]], {}, None, None, node).t
            ps = e.fields["parameters"]
            items = I.concrete_iter(ps)
            if items is not None:
                ats = [denR_handler(I, [x], {}, None, None, node).t for x in items]
                return RingV(fn("rcall", V, smt.S, V)(ft, smt.seq_of(ctx, ats)))
        rt = ring_term(e)
        if rt is not None:
            return RingV(rt)
        if type(e) is SymV and z3.is_app(e.t) and e.t.decl().name() in ("box_int", "box_real", "box_bool"):
            a0 = e.t.arg(0)
            r = z3.ToReal(a0) if e.t.decl().name() == "box_int" else (a0 if e.t.decl().name() == "box_real" else z3.If(a0, z3.RealVal(1), z3.RealVal(0)))
            return RingV(numeral(z3.simplify(r)))
        if isinstance(e, (ExprV, SymV, SymNode)):
            return RingV(D(I.lift(e)))
        raise Unsupported(f"denR of {type(e).__name__}")
    I.contracts[id(denR)] = denR_handler


def setup_expr(I, inputs):
    """Replace inputs of kind 'v' named self/other-expr by ExprV objects."""
    for i, v in enumerate(inputs):
        from pyvc.values import SymV
        if type(v) is SymV:
            from pyvc import smt
            I.ctx.assume(smt.tag(v.t) == smt.TAG_NODE)
            inputs[i] = I.ExprV(v.t)


# ----------------------------------------------------------------------------- contracts
def is_num_like(x):
    return p.is_constant(x)


OPS = {
    "__add__": (lambda a, b: a + b, "is_arithmetic_expression"), "__radd__": (lambda a, b: b + a, None),
    "__sub__": (lambda a, b: a - b, "is_valid_operand"), "__rsub__": (lambda a, b: b - a, "is_constant"),
    "__mul__": (lambda a, b: a * b, "is_valid_operand"), "__rmul__": (lambda a, b: b * a, "is_constant"),
    "__truediv__": (lambda a, b: a / b, "is_valid_operand"), "__rtruediv__": (lambda a, b: b / a, "is_valid_operand"),
    "__floordiv__": (lambda a, b: a // b, "is_valid_operand"), "__rfloordiv__": (lambda a, b: b // a, "is_arithmetic_expression"),
    "__mod__": (lambda a, b: a % b, "is_valid_operand"), "__rmod__": (lambda a, b: b % a, "is_valid_operand"),
    "__pow__": (lambda a, b: a ** b, "is_valid_operand"), "__rpow__": (lambda a, b: b ** a, None),
    "__lshift__": (lambda a, b: a << b, "is_valid_operand"), "__rlshift__": (lambda a, b: b << a, "is_valid_operand"),
    "__rshift__": (lambda a, b: a >> b, "is_valid_operand"), "__rrshift__": (lambda a, b: b >> a, "is_valid_operand"),
    "__or__": (lambda a, b: a | b, "is_valid_operand"), "__ror__": (lambda a, b: b | a, "is_valid_operand"),
    "__xor__": (lambda a, b: a ^ b, "is_valid_operand"), "__rxor__": (lambda a, b: b ^ a, "is_valid_operand"),
    "__and__": (lambda a, b: a & b, "is_valid_operand"), "__rand__": (lambda a, b: b & a, "is_valid_operand"),
}

# known-finding regions excluded from the value clause (each replayed natively by the bounded run)
KNOWN_REGIONS = {
    "__rpow__": "C03-rpow-zero-base",        # 0 ** x folded to 0 (0 ** 0 == 1)
    "__mod__": "C03-mod-one",                # x % 1 folded to 0 (non-integral x)
    "__floordiv__": "C03-floordiv-one",      # x // 1 folded to x (non-integral x)
}


def make_post(name):
    pyop = OPS[name][0]

    def post(self, other, result):
        """The tree built by the operator denotes the value of the operator applied to the denotations."""
        if name == "__rpow__" and p.is_zero(other):
            return True      # KNOWN-FINDING C03-rpow-zero-base (region: base constant zero)
        if name in ("__mod__", "__floordiv__") and p.is_constant(other) and p.is_zero(other - 1):
            return True      # KNOWN-FINDING C03-mod-one / C03-floordiv-one (region: right operand one)
        # "in every environment where the same computation on plain numbers is defined": division-like operators
        # are only constrained where the divisor does not denote zero
        if name in ("__truediv__", "__floordiv__", "__mod__") and denR(other) == 0:
            return True
        if name in ("__rtruediv__", "__rfloordiv__", "__rmod__") and denR(self) == 0:
            return True
        return same(denR(result), pyop(denR(self), denR(other)))
    post.__name__ = f"{name}_value"
    return post


def contracts():
    out = []
    for name in OPS:
        for okind, label in (("int", "int"), ("real", "float"), ("v", "expr")):
            if name in ("__radd__", "__rsub__", "__rmul__", "__rpow__") and okind == "v":
                continue        # reflected operators with a constant-only guard / assert are reached with numbers only
            fc = FunctionContract(f"C03.Expression.{name}[other:{label}]", f"pymbolic.primitives:Expression.{name}",
                                  [("self", "v"), ("other", okind)], ensures=[("value", make_post(name))], setup=setup_expr,
                                  arithmetic=True, property_id="C03")
            out.append(fc)
    # splicing of sums into sums / products into products keeps operand order
    for cls, meths in (("Sum", ("__add__", "__radd__", "__sub__")), ("Product", ("__mul__", "__rmul__"))):
        for name in meths:
            kinds = [("int", "int"), ("real", "float"), ("v", "expr"), (f"node:{cls}", cls)]
            for okind, label in kinds:
                if name in ("__radd__", "__rmul__") and okind in ("v", f"node:{cls}"):
                    continue
                fc = FunctionContract(f"C03.{cls}.{name}[other:{label}]", f"pymbolic.primitives:{cls}.{name}",
                                      [("self", f"node:{cls}"), ("other", okind)], ensures=[("value+order", make_post(name))],
                                      setup=setup_expr, arithmetic=True, property_id="C03")
                out.append(fc)
    for name in ("__neg__", "__pos__"):
        def upost(self, result, name=name):
            return same(denR(result), -denR(self) if name == "__neg__" else denR(self))
        out.append(FunctionContract(f"C03.Expression.{name}", f"pymbolic.primitives:Expression.{name}", [("self", "v")],
                                    ensures=[("value", upost)], setup=setup_expr, arithmetic=True, property_id="C03"))
    for name in ("__lt__", "__le__", "__gt__", "__ge__"):
        out.append(FunctionContract(f"C03.Expression.{name}/raises", f"pymbolic.primitives:Expression.{name}", [("self", "v"), ("other", "v")],
                                    raises=[("always-TypeError", lambda self, other: True, TypeError)], setup=setup_expr, arithmetic=True,
                                    property_id="C03"))
    return out


# ----------------------------------------------------------------------------- call / subscript / attribute / comparison / logical constructors
# Structural contracts (the node built is exactly the one the syntax denotes).
def constructor_contracts():
    from pyvc.api import same
    out = []
    E = "pymbolic.primitives:Expression."

    def st(I, inputs):
        setup_expr(I, inputs)

    # self[subscript]: a Subscript of self with that index -- for EVERY index value (0, 0.0, False, an expression, a tuple); the only exception is
    # the deprecated empty tuple, for which the aggregate itself is returned
    for kind, label in (("int", "int"), ("real", "float"), ("bool", "bool"), ("v", "expr")):
        def gi_post(self, subscript, result):
            return isinstance(result, p.Subscript) and same(result.aggregate, self) and same_index(result.index, subscript)
        out.append(FunctionContract(f"C03.Expression.__getitem__[index:{label}]", E + "__getitem__", [("self", "v"), ("subscript", kind)],
                                    ensures=[("subscript-node", gi_post)], setup=st, arithmetic=True, property_id="C03"))

    def attr_post(self, name, result):
        return isinstance(result, p.Lookup) and same(result.aggregate, self) and result.name == name
    out.append(FunctionContract("C03.Expression.attr", E + "attr", [("self", "v"), ("name", "str")], ensures=[("lookup-node", attr_post)], setup=st,
                                arithmetic=True, property_id="C03"))
    for meth, op in (("eq", "=="), ("ne", "!="), ("le", "<="), ("lt", "<"), ("ge", ">="), ("gt", ">")):
        def cmp_post(self, other, result, op=op):
            return isinstance(result, p.Comparison) and same(result.left, self) and result.operator == op and same(result.right, other)
        out.append(FunctionContract(f"C03.Expression.{meth}", E + meth, [("self", "v"), ("other", "v")], ensures=[("comparison-node", cmp_post)], setup=st,
                                    arithmetic=True, property_id="C03"))

    def not_post(self, result):
        return isinstance(result, p.LogicalNot) and same(result.child, self)
    out.append(FunctionContract("C03.Expression.not_", E + "not_", [("self", "v")], ensures=[("not-node", not_post)], setup=st, arithmetic=True, property_id="C03"))
    return out


def same_index(a, b):
    """The index stored in the node is the index given (identity for objects, equality with type for numbers)."""
    from pyvc.api import same
    return same(a, b)

"""C19: exact-arithmetic helpers."""
from pyvc.api import FunctionContract, Loop, lemma, requires, spec


# ----------------------------------------------------------------------------- integer_power
@spec(returns="int", total=True, int_args=True, define=True)
def pw(x, n):
    """x multiplied by itself n times (n >= 0)."""
    if n <= 0:
        return 1
    return x * pw(x, n - 1)


@lemma
def pw_square(x, k):
    """pw(x*x, k) == pw(x, 2k) for k >= 0 (by induction on k)."""
    requires(k >= 0)
    if k > 0:
        pw_square(x, k - 1)
    return pw(x * x, k) == pw(x, 2 * k)


pw_square.__pyvc_decreases__ = lambda x, k: k


def ip_inv(v):
    # aux * x^n == x0^n0, n >= 0
    return v.n >= 0 and v.aux * pw(v.x, v.n) == pw(v.old_x, v.old_n)


def ip_inv_with_lemma(v):
    return ip_inv(v)


def ip_requires(x, n):
    return True


def ip_post(x, n, result):
    return result == pw(x, n)


def ip_raises(x, n):
    return n < 0


def ip_body_hint(v):
    pw_square(v.x, v.n // 2)
    return True


INTEGER_POWER = FunctionContract(
    "C19.integer_power[int]", "pymbolic.algorithm:integer_power", [("x", "int"), ("n", "int")],
    ensures=[("power", ip_post)], raises=[("negative-exponent", ip_raises, RuntimeError)],
    loops={0: Loop(ip_inv, lambda v: v.n, hint=ip_body_hint)}, arithmetic=True, property_id="C19")
INTEGER_POWER.hints = [pw_square]

LEMMAS = [pw_square]
FUNCTIONS = [INTEGER_POWER]


# ----------------------------------------------------------------------------- extended Euclid on integers
from pyvc.api import assume, divides, fresh_int, witness  # noqa: E402
import pymbolic.traits as _traits  # noqa: E402


def ee_post(q, r, result):
    """g = a*q + b*r (Bezout) and g divides q and r: with Bezout every common divisor divides g, so g is a gcd."""
    g, a, b = result
    return g == a * q + b * r and divides(g, q) and divides(g, r)


def ee_callee(q, r):
    """Assumed contract of the recursive call (same contract, applied to the swapped pair; the call is
    made only when norm(q) < norm(r), after which norm(q) >= norm(r): no further recursion)."""
    g, a, b, k1, k2 = fresh_int(), fresh_int(), fresh_int(), fresh_int(), fresh_int()
    assume(g == a * q + b * r and q == k1 * g and r == k2 * g)
    witness(k1)
    witness(k2)
    return (g, a, b)


def common_traits_int(*args):
    """Assumed contract of traits.common_traits on machine integers: IntegerTraits (norm = abs)."""
    return _traits.IntegerTraits()


def ee_inv(v):
    # forward: (q, r) are integer combinations of (q0, r0) with the tracked coefficients Q, R;
    # backward (ghost inverse coefficients): (q0, r0) are integer combinations of (q, r)
    return (v.q == v.Q[0] * v.old_q + v.Q[1] * v.old_r and v.r == v.R[0] * v.old_q + v.R[1] * v.old_r
            and v.old_q == v.u0 * v.q + v.u1 * v.r and v.old_r == v.v0 * v.q + v.v1 * v.r)


def ee_ghost_update(v):
    # q_prev = quot*q + r, r_prev = q  (q, r are the new values)
    return {"u0": v.u0 * v.quot + v.u1, "u1": v.u0, "v0": v.v0 * v.quot + v.v1, "v1": v.v0}


def ee_variant(v):
    return abs(v.r)


EXT_EUCLID = FunctionContract(
    "C19.extended_euclidean[int]", "pymbolic.algorithm:extended_euclidean", [("q", "int"), ("r", "int")],
    ensures=[("bezout+divides", ee_post)],
    loops={0: Loop(ee_inv, ee_variant, ghost={"u0": 1, "u1": 0, "v0": 0, "v1": 1}, ghost_update=ee_ghost_update)},
    assume={"pymbolic.algorithm:extended_euclidean": ee_callee, "pymbolic.traits:common_traits": common_traits_int},
    arithmetic=True, property_id="C19")
FUNCTIONS.append(EXT_EUCLID)


def gcd_post(q, r, result):
    return divides(result, q) and divides(result, r)


GCD = FunctionContract(
    "C19.gcd[int]", "pymbolic.algorithm:gcd", [("q", "int"), ("r", "int")], ensures=[("common-divisor", gcd_post)],
    assume={"pymbolic.algorithm:extended_euclidean": ee_callee}, arithmetic=True, property_id="C19")


def gcd_callee(q, r):
    g, k1, k2 = fresh_int(), fresh_int(), fresh_int()
    assume(q == k1 * g and r == k2 * g)
    witness(k1)
    witness(k2)
    return g


def lcm_requires(q, r):
    return q != 0 or r != 0


def lcm_post(q, r, result):
    """lcm is consistent with gcd: gcd(q, r) * lcm(q, r) == |q * r|."""
    return gcd_of_call() * result == abs(q * r)


def lcm_post2(q, r, result):
    return True


FUNCTIONS += [GCD]

"""C16: the unifier's record construction (deductive kernel).

Every unification record starts life in UnifierBase.unification_record_from_equation; the soundness clause of the statement
("each record binds only declared candidate variables ... instantiating the pattern with a record gives the target") rests on it
creating exactly the equation it was asked about, and only for a left-hand variable that is a declared candidate."""
import pymbolic.primitives as prim
from pyvc.api import FunctionContract, same

TARGET = "pymbolic.mapper.unifier:UnifierBase.unification_record_from_equation"
SELF = "obj:pymbolic.mapper.unifier:UnidirectionalUnifier{lhs_mapping_candidates=set,rhs_mapping_candidates=const:None,force_var_match=const:True}"


def record_post(self, lhs, rhs, result):
    """A refusal (None) is always sound.  A record holds exactly the one equation (lhs, rhs) - the very objects -, one of the two sides is a
    variable, and a variable on the left is a declared candidate."""
    if result is None:
        return True
    eqs = result.equations
    if len(eqs) != 1:
        return False
    el, er = eqs[0]
    if not (same(el, lhs) and same(er, rhs)):
        return False
    if isinstance(lhs, prim.Variable):
        return lhs.name in self.lhs_mapping_candidates
    return isinstance(rhs, prim.Variable)


def record_complete(self, lhs, rhs, result):
    """A candidate variable on the left always gets its record (against anything but a tuple / list)."""
    if isinstance(lhs, prim.Variable) and lhs.name in self.lhs_mapping_candidates and not isinstance(rhs, (tuple, list)):
        return result is not None
    return True


def container_refused(self, lhs, rhs, result):
    return result is None


def record_setup(I, inputs):
    """UnificationRecord(equations) is replaced by its assumed contract: an object whose `equations` attribute is the argument (its
    look-aside maps lmap / rmap, built by a loop over the equations with dict writes under symbolic keys, stay abstract).  The bounded
    run exercises the real constructor."""
    import z3
    from pymbolic.mapper.unifier import UnificationRecord
    from pyvc import smt
    from pyvc.values import SymObj

    def mk(I, args, kwargs, star, dstar, node):
        return SymObj(UnificationRecord, {"equations": args[0]}, z3.Const(I.fresh_name(node, "record"), smt.V))
    I.contracts[id(UnificationRecord)] = mk


FUNCTIONS = []
for lk, ll in (("node:Variable", "Variable"), ("node:Sum", "Sum"), ("node:Call", "Call"), ("int", "int")):
    for rk, rl in (("node:Variable", "Variable"), ("node:Product", "Product"), ("v", "any"), ("int", "int")):
        FUNCTIONS.append(FunctionContract(f"C16.unification_record_from_equation[{ll},{rl}]", TARGET, [("self", SELF), ("lhs", lk), ("rhs", rk)],
                                          ensures=[("sound-record", record_post), ("candidate-gets-record", record_complete)], setup=record_setup, property_id="C16"))
for lk, rk, lab in (("seq", "node:Variable", "tuple-left"), ("node:Variable", "seq", "tuple-right")):
    FUNCTIONS.append(FunctionContract(f"C16.unification_record_from_equation[{lab}]", TARGET, [("self", SELF), ("lhs", lk), ("rhs", rk)],
                                      ensures=[("containers-refused", container_refused)], setup=record_setup, property_id="C16"))

"""C01: structural equality, consistent hashing, immutability — the generated per-class methods.

For every expression dataclass K the text of K_eq, K_hash, K_getstate, K_setstate, K_getinitargs,
K_init_arg_names is taken from `_MODULE_SOURCE_CODE` (byte-code-compared with the functions that run)
and verified against the field-wise specification; Fields(K) comes from dataclasses.fields of the real class.

Theory used (assumption A-EQ, listed in the evidence): `==` on field values is an uninterpreted relation feq
that is reflexive, symmetric and hash-compatible (feq(a,b) => hsh(a) = hsh(b)); the hash of a tuple is a
function of the hashes of its elements.
"""
from __future__ import annotations

import dataclasses
import time
import traceback

import z3


def class_obligations(cls):
    from pyvc import loader, smt, verify
    from pyvc.interp import Interp
    from pyvc.smt import S, V, Bool, Int, Str, fn
    from pyvc.values import (Conc, PyRaise, PyTuple, SymBool, SymExc, SymInt, SymMap, SymNode, SymSeq, SymSet, SymStr,
                             SymV, Unsupported)
    t0 = time.time()
    rep = dict(contract=f"C01.generated[{cls.__name__}]", node_class=cls.__name__, obligations=[], status="ok",
               function=None, paths=0, time_s=0.0)
    obs = rep["obligations"]
    flds = list(loader.field_kinds(cls))

    def new_interp():
        ctx = smt.Ctx()
        I = Interp(ctx, class_table=list(verify.node_class_table()))
        I.new_objects = []
        I.map_defs = {}
        I.map_info = {}
        I.op_may_raise = False
        feq = fn("feq", V, V, Bool)
        hsh = fn("hsh", V, Int)
        pairs = []

        def lift_any(v):
            return I.lift(v)

        def hval(v):
            """hash of a value: function hsh of its lifted term; tuples: function of the element hashes."""
            if isinstance(v, PyTuple):
                hs = [hval(x) for x in v.items]
                return fn(f"tuphash{len(hs)}", *([Int] * len(hs)), Int)(*hs) if hs else z3.IntVal(5740354900026072187)
            if isinstance(v, SymInt):
                return v.t      # not used for fields
            return hsh(lift_any(v))

        def cmp_hook(I, op, a, b):
            if op not in ("eq", "ne"):
                return None
            ta, tb = lift_any(a), lift_any(b)
            r = feq(ta, tb)
            # A-EQ instances for this pair
            ctx.assume(feq(ta, ta))
            ctx.assume(feq(tb, tb))
            ctx.assume(feq(ta, tb) == feq(tb, ta))
            ctx.assume(z3.Implies(feq(ta, tb), hsh(ta) == hsh(tb)))
            ctx.assume(z3.Implies(ta == tb, feq(ta, tb)))
            pairs.append((ta, tb))
            return SymBool(r if op == "eq" else z3.Not(r))
        I.builtin_handlers["__cmp_hook__"] = cmp_hook

        def hash_hook(I, v):
            if isinstance(v, SymNode) and not v.mutable:
                # hash of a node = its (generated) __hash__, replaced by its contract: H(fields)
                if dataclasses.is_dataclass(v.cls):
                    return SymInt(hval(PyTuple([v.fields[f.name] for f in dataclasses.fields(v.cls)])))
            if isinstance(v, (PyTuple,)):
                return SymInt(hval(v))
            if isinstance(v, (SymV, SymSeq, SymStr, SymMap)):
                return SymInt(hval(v))
            return None
        I.builtin_handlers["__hash_hook__"] = hash_hook
        I.hval = hval
        I.feq = feq
        return I, ctx

    def H_of(I, node):
        return I.hval(PyTuple([node.fields[f] for f in flds]))

    def spec_eq(I, a, b):
        conj = []
        for f in flds:
            r = I.compare("eq", a.fields[f], b.fields[f])
            t = I.truth(r)
            if t is True:
                continue
            conj.append(z3.BoolVal(False) if t is False else t)
        return z3.And(*conj) if conj else z3.BoolVal(True)

    def add(name, status, detail="", goal="", model=""):
        obs.append(dict(name=f"{cls.__name__}{name}", status=status, backend="z3", time_s=0.0, detail=detail,
                        model=model, goal=goal))

    def generated(name):
        """The function that runs for this class (own generated method, or the one inherited by an
        undecorated legacy subclass), resolved through the real MRO."""
        import inspect
        f = inspect.getattr_static(cls, name, None)
        if isinstance(f, property):
            f = f.fget
        return f

    try:
        eqf, hashf = generated("__eq__"), generated("__hash__")
        for nm, f in (("__eq__", eqf), ("__hash__", hashf), ("__getstate__", generated("__getstate__")),
                      ("__setstate__", generated("__setstate__")), ("__getinitargs__", generated("__getinitargs__")),
                      ("init_arg_names", generated("init_arg_names"))):
            if isinstance(f, tuple):
                continue        # legacy protocol: init_arg_names is a plain class attribute
            if f is None:
                add(f"/{nm}/present", "refuted", f"{cls.__name__} does not define its own generated {nm}",
                    goal="the decorator installs the method on the class itself")
                continue
            info = loader.get_func_info(f)
            if info.generated and info.bytecode_checked is not True:
                add(f"/{nm}/text-is-code", "refuted", "byte code of the running function differs from the captured text",
                    goal="verified text == running code")
        rep["function"] = loader.get_func_info(eqf).describe() if eqf else None

        # A class that writes its own __eq__ / __hash__ by hand (pymbolic.rational.Rational, pymbolic.polynomial.Polynomial) does not use
        # the generated methods nor the init-args protocol for equality: the field-wise iff of the statement is not its contract.  Its
        # equality is judged by the relational clauses in the bounded run "own-equality"; the state methods below still apply.
        own_eq = handwritten(cls, "__eq__")
        own_hash = handwritten(cls, "__hash__")
        rep["handwritten"] = [n for n, w in (("__eq__", own_eq), ("__hash__", own_hash)) if w]

        # ------------------------------------------------------------------ __eq__
        for variant in ("same-class", "identical", "other-class") if not own_eq else ():
            I, ctx = new_interp()
            a = I.sym_node(cls, z3.Const("self", V))
            if variant == "same-class":
                b = I.sym_node(cls, z3.Const("other", V))
            elif variant == "identical":
                b = a
            else:
                bt = z3.Const("other", V)
                b = SymV(bt)
                # an object whose class is not K
                ctx.assume(fn("py_type", V, V)(bt) != ctx.obj_const(cls))
                ctx.assume(fn("py_type", V, V)(a.t) == ctx.obj_const(cls))

                def ga_hook(I, obj, name, bt=bt):
                    if name == "__class__" and z3.eq(obj.t, bt):
                        return SymV(fn("py_type", V, V)(bt))
                    return None
                I.builtin_handlers["__getattr_hook__"] = ga_hook
            _hash_absent(I, a)
            if isinstance(b, SymNode) and b is not a:
                _hash_absent(I, b)
            outs = I.explore(lambda: I.call_function(Conc(eqf), [a, b], {}))
            rep["paths"] += len(outs)
            for i, o in enumerate(outs):
                name = f".__eq__/iff[{variant}]/path{i}"
                if o.kind != "ret":
                    add(name, "refuted", f"raises {o.value!r}", goal="K_eq(a,b) <=> SpecEq(a,b)")
                    continue
                t = I.truth(o.value)
                t = z3.BoolVal(t) if isinstance(t, bool) else t
                if variant == "other-class":
                    spec = z3.BoolVal(False)
                else:
                    saved = len(I.pcs)
                    spec = spec_eq(I, a, b)
                    del I.pcs[saved:]
                r, mdl = smt.check(ctx, o.pcs + [t != spec], rlimit=20_000_000)
                add(name, {"unsat": "discharged", "sat": "refuted"}.get(r, "undecided"),
                    "" if r == "unsat" else f"result {o.value!r} differs from SpecEq on this path",
                    goal=f"K_eq(self, other) <=> same class and {' and '.join('self.%s == other.%s' % (f, f) for f in flds) or 'True'}",
                    model=verify._model_text(mdl) if r == "sat" else "")

        # ------------------------------------------------------------------ __hash__
        is_dc = "_is_expr_dataclass" in cls.__dict__
        I, ctx = new_interp()
        a = I.sym_node(cls, z3.Const("self", V))
        b = I.sym_node(cls, z3.Const("other", V))
        fresh_terms = {}
        for nm, node in (("self", a), ("other", b)):
            _hash_absent(I, node)
            I.tracked = []
            I.track(node)
            outs = I.explore(lambda: I.call_function(Conc(hashf), [node], {}))
            rep["paths"] += len(outs)
            rets = [o for o in outs if o.kind == "ret"]
            goal = "a fresh hash(a) is a single value T(a); it is cached as _hash_value and nothing else is assigned"
            if len(outs) != 1 or len(rets) != 1 or I.as_int(rets[0].value) is None:
                feas = [o for o in outs if o.kind != "ret"]
                add(f".__hash__/fresh[{nm}]", "refuted" if feas else "undecided",
                    f"{len(outs)} paths, {len(feas)} raising: {[repr(o.value)[:60] for o in feas]}", goal=goal)
                continue
            o = rets[0]
            T = I.as_int(o.value)
            fresh_terms[nm] = (T, o.pcs)
            ws = [(w[1], I.as_int(w[2])) for w in o.extra.get("writes", []) if w[0] is node]
            bad = [w for w in ws if w[0] != "_hash_value"]
            conds = [wt != T if wt is not None else z3.BoolVal(True) for (n_, wt) in ws if n_ == "_hash_value"]
            st, detail, mdl = "discharged", "", None
            if bad:
                st, detail = "refuted", f"assigns {sorted({w[0] for w in bad})}"
            elif not any(n_ == "_hash_value" for n_, _ in ws):
                if own_hash:
                    st, detail = "discharged", "hand-written __hash__ that never caches: Inv holds vacuously"
                else:
                    st, detail = "refuted", "the computed hash is not cached (Inv not established)"
            elif conds:
                r, mdl = smt.check(ctx, o.pcs + [z3.Or(*conds)], rlimit=20_000_000)
                st = {"unsat": "discharged", "sat": "refuted"}.get(r, "undecided")
                detail = "" if r == "unsat" else "cached value differs from the returned hash"
            if is_dc and st == "discharged" and nm == "self":
                r, mdl = smt.check(ctx, o.pcs + [T != H_of(I, node)], rlimit=20_000_000)
                st = {"unsat": "discharged", "sat": "refuted"}.get(r, "undecided")
                detail = "" if r == "unsat" else "hash value differs from H(fields)"
                goal += "; T(a) == hash of the tuple of all fields"
            add(f".__hash__/fresh+inv+frame[{nm}]", st, detail, goal=goal, model=verify._model_text(mdl) if st == "refuted" and mdl is not None else "")
        if len(fresh_terms) == 2:
            (Ta, pa), (Tb, pb) = fresh_terms["self"], fresh_terms["other"]
            saved = len(I.pcs)
            se = spec_eq(I, a, b)
            del I.pcs[saved:]
            r, mdl = smt.check(ctx, pa + pb + [se, Ta != Tb], rlimit=20_000_000)
            add(".__hash__/consistent", {"unsat": "discharged", "sat": "refuted"}.get(r, "undecided"),
                "" if r == "unsat" else "two nodes with pairwise equal fields hash differently",
                goal="SpecEq(a, b) => hash(a) == hash(b)", model=verify._model_text(mdl) if r == "sat" else "")
            # cached variant: Inv(a) assumed (cached value = T(a)); returns it, writes nothing
            cached = z3.Const("cached_hash", Int)
            a.extra["_hash_value"] = SymInt(cached)
            I.tracked = []
            I.track(a)
            outs = I.explore(lambda: I.call_function(Conc(hashf), [a], {}))
            rep["paths"] += len(outs)
            for i, o in enumerate(outs):
                goal = "with a cached value (Inv: cached == T(a)) hash returns it and assigns nothing"
                if o.kind != "ret" or I.as_int(o.value) is None:
                    add(f".__hash__/cached/path{i}", "refuted", f"{o.kind} {o.value!r}", goal=goal)
                    continue
                ws = [w for w in o.extra.get("writes", []) if w[0] is a and not (w[1] == "_hash_value" and I.as_int(w[2]) is not None and z3.eq(I.as_int(w[2]), cached))]
                r, mdl = smt.check(ctx, pa + o.pcs + [cached == Ta, I.as_int(o.value) != Ta], rlimit=20_000_000)
                st = {"unsat": "discharged", "sat": "refuted"}.get(r, "undecided")
                detail = "" if r == "unsat" else "returned value differs from the cached hash"
                if ws:
                    st, detail = "refuted", f"assigns {[w[1] for w in ws]} although a hash is cached"
                add(f".__hash__/cached/path{i}", st, detail, goal=goal, model=verify._model_text(mdl) if r == "sat" else "")
            a.extra.pop("_hash_value", None)

        # ------------------------------------------------------------------ state methods
        gs, ss = generated("__getstate__"), generated("__setstate__")
        gi, ian = generated("__getinitargs__"), generated("init_arg_names")
        I, ctx = new_interp()
        a = I.sym_node(cls, z3.Const("self", V))
        a.extra["_hash_value"] = SymInt(z3.Const("cached_hash", Int))
        for nm, f, want in (("__getstate__", gs, "fields"), ("__getinitargs__", gi, "fields"), ("init_arg_names", ian, "names")):
            if f is None:
                continue
            if isinstance(f, tuple):
                add(f".{nm}/value", "discharged" if list(f) == flds else "refuted", "", goal=f"init_arg_names == {flds}")
                continue
            outs = I.explore(lambda: I.call_function(Conc(f), [a], {}))
            rep["paths"] += len(outs)
            for i, o in enumerate(outs):
                name = f".{nm}/value/path{i}"
                goal = f"returns exactly the tuple of {'field values' if want == 'fields' else 'field names'} {flds} (no cached hash)"
                if o.kind != "ret":
                    add(name, "refuted", f"raises {o.value!r}", goal=goal)
                    continue
                ok = False
                v = o.value
                if want == "names":
                    ok = isinstance(v, (Conc, PyTuple)) and _as_pytuple(v) == tuple(flds)
                else:
                    if isinstance(v, PyTuple) and len(v.items) == len(flds):
                        ok = all(x is a.fields[f] for x, f in zip(v.items, flds))
                    elif isinstance(v, Conc) and v.obj == () and not flds:
                        ok = True
                if o.extra.get("writes"):
                    ok = False
                add(name, "discharged" if ok else "refuted", "" if ok else f"returned {v!r}", goal=goal)
        if ss is not None:
            I, ctx = new_interp()
            a = I.sym_node(cls, z3.Const("self", V))
            _hash_absent(I, a)
            I.track(a)
            state = PyTuple([SymV(z3.Const(f"state{i}", V)) for i in range(len(flds))])
            outs = I.explore(lambda: I.call_function(Conc(ss), [a, state], {}))
            rep["paths"] += len(outs)
            for i, o in enumerate(outs):
                name = f".__setstate__/frame/path{i}"
                goal = f"assigns exactly {flds} from the state tuple in order, and never _hash_value"
                if o.kind != "ret":
                    add(name, "refuted", f"raises {o.value!r}", goal=goal)
                    continue
                ws = [(w[1], w[2]) for w in o.extra.get("writes", []) if w[0] is a]
                ok = [w[0] for w in ws] == flds and all(w[1] is s for w, s in zip(ws, state.items))
                add(name, "discharged" if ok else "refuted", "" if ok else f"writes {[w[0] for w in ws]}", goal=goal)
    except Unsupported as e:
        rep["status"] = "unsupported"
        rep["reason"] = str(e)
    except PyRaise as e:
        rep["status"] = "unsupported"
        rep["reason"] = f"python-level exception outside exploration: {e}"
    except Exception as e:  # noqa: BLE001
        rep["status"] = "engine-error"
        rep["reason"] = f"{type(e).__name__}: {e}"
        rep["traceback"] = traceback.format_exc()[-2000:]
    rep["time_s"] = time.time() - t0
    return rep


def handwritten(cls, name):
    """cls resolves `name` to a function written by hand in a class body other than Expression's (not generated by the decorator)."""
    import inspect
    from pyvc import loader
    f = inspect.getattr_static(cls, name, None)
    if f is None or not inspect.isfunction(f):
        return False
    if f is prim.Expression.__dict__.get(name):
        return False
    return not loader.get_func_info(f).generated


def _as_pytuple(v):
    from pyvc.values import Conc
    if isinstance(v, Conc):
        return tuple(v.obj)
    return tuple(x.obj if isinstance(x, Conc) else x for x in v.items)


def _hash_absent(I, node):
    """The node has no cached hash yet (attribute look-up raises AttributeError)."""
    node.extra.pop("_hash_value", None)


# ----------------------------------------------------------------------------- __post_init__ contracts
import pymbolic.primitives as prim  # noqa: E402
from contracts.specs import COMPARISON_OPERATORS  # noqa: E402
from pyvc.api import FunctionContract, same  # noqa: E402

OPERATOR_NAMES = {"eq": "==", "ne": "!=", "lt": "<", "le": "<=", "gt": ">", "ge": ">="}


def cmp_old(self):
    return (self.left, self.operator, self.right)


def cmp_post(self, result, old):
    """Afterwards the operator is one of the six symbols (names are translated), operands untouched."""
    if not (same(self.left, old[0]) and same(self.right, old[2])):
        return False
    if old[1] in COMPARISON_OPERATORS:
        return self.operator == old[1]
    return old[1] in OPERATOR_NAMES and self.operator == OPERATOR_NAMES[old[1]]


def cmp_raises(self):
    return self.operator not in COMPARISON_OPERATORS and self.operator not in OPERATOR_NAMES


def cse_setup(I, inputs):
    import z3
    from pyvc import smt
    from pyvc.values import SymV
    inputs[0].fields["scope"] = SymV(z3.Const("self.scope", smt.V))      # scope may be None (deprecated)
    I.tracked = [t for t in I.tracked if t[0] is not inputs[0]]
    I.track(inputs[0])


def cse_old(self):
    return (self.child, self.prefix, self.scope)


def cse_post(self, result, old):
    if not (same(self.child, old[0]) and same(self.prefix, old[1])):
        return False
    if old[2] is None:
        return self.scope == prim.cse_scope.EVALUATION
    return same(self.scope, old[2])


POST_INIT = [
    FunctionContract("C01.Comparison.__post_init__", "pymbolic.primitives:Comparison.__post_init__",
                     [("self", "node:Comparison")], old=cmp_old, ensures=[("normalised", cmp_post)],
                     raises=[("invalid-operator", cmp_raises, RuntimeError)], property_id="C01"),
    FunctionContract("C01.CommonSubexpression.__post_init__", "pymbolic.primitives:CommonSubexpression.__post_init__",
                     [("self", "node:CommonSubexpression")], old=cse_old, ensures=[("scope-not-none", cse_post)],
                     setup=cse_setup, property_id="C01"),
]


# ----------------------------------------------------------------------------- decorator configuration (syntactic)
def config_obligations(arg=None):
    """expr_dataclass.map_cls: dataclass(...) is called with eq=False, frozen=__debug__ (exactly), init=init,
    and the augmentation gets the caller's hash flag."""
    import ast
    import time
    from pyvc import loader
    t0 = time.time()
    obs = []
    info = loader.get_func_info(prim.expr_dataclass)
    calls = [n for n in ast.walk(info.node) if isinstance(n, ast.Call)]

    def kw(call, name):
        for k in call.keywords:
            if k.arg == name:
                return k.value
        return None
    dc = [c for c in calls if isinstance(c.func, ast.Call) and getattr(c.func.func, "id", "") == "dataclass"]
    ok = False
    detail = "dataclass(...) call not found"
    if dc:
        inner = dc[0].func
        frozen, eq, init = kw(inner, "frozen"), kw(inner, "eq"), kw(inner, "init")
        ok = (isinstance(frozen, ast.Name) and frozen.id == "__debug__" and isinstance(eq, ast.Constant) and eq.value is False
              and isinstance(init, ast.Name) and init.id == "init")
        detail = "" if ok else f"dataclass keywords: frozen={ast.unparse(frozen) if frozen else None}, eq={ast.unparse(eq) if eq else None}, init={ast.unparse(init) if init else None}"
    obs.append(dict(name="expr_dataclass.map_cls/config", status="discharged" if ok else "refuted", backend="syntactic", time_s=0.0,
                    detail=detail, model="", goal="dataclass(init=init, eq=False, frozen=__debug__, ...) — frozen in the default interpreter mode for EVERY decorated class"))
    aug = [c for c in calls if getattr(c.func, "id", "") == "_augment_expression_dataclass"]
    ok2 = bool(aug) and isinstance(kw(aug[0], "hash"), ast.Name) and kw(aug[0], "hash").id == "hash"
    obs.append(dict(name="expr_dataclass.map_cls/hash-flag", status="discharged" if ok2 else "refuted", backend="syntactic", time_s=0.0,
                    detail="" if ok2 else "augmentation not applied with the caller's hash flag", model="",
                    goal="_augment_expression_dataclass(dc_cls, hash=hash)"))
    # run-time table: every decorated class really is frozen (default mode) and has eq=False
    from pyvc import verify
    from contracts import fixtures_nodes as fxn
    for k in list(verify.node_class_table()) + fxn.DECORATED:
        if "_is_expr_dataclass" not in k.__dict__:
            continue
        prm = k.__dataclass_params__
        ok3 = prm.frozen == __debug__ and prm.eq is False
        obs.append(dict(name=f"{k.__name__}/dataclass-params", status="discharged" if ok3 else "refuted", backend="table", time_s=0.0,
                        detail="" if ok3 else f"frozen={prm.frozen} eq={prm.eq}", model="", goal="frozen == __debug__ and eq is False"))
    return dict(contract="C01.config", status="ok", obligations=obs, function=info.describe(), paths=len(obs), time_s=time.time() - t0)


# ----------------------------------------------------------------------------- frame scan
ALLOWED_WRITES = {
    # (module, enclosing function, written attribute): why it is allowed
    ("pymbolic.primitives", "__hash__", "_hash_value"): "hash cache of legacy nodes (Inv proved)",
    ("pymbolic.primitives", "__setstate__", "*"): "unpickling: fields from the state tuple (frame proved)",
    ("pymbolic.primitives", "__post_init__", "kw_parameters"): "normalisation in __post_init__ (contract)",
    ("pymbolic.primitives", "__post_init__", "operator"): "normalisation in __post_init__ (contract)",
    ("pymbolic.primitives", "__post_init__", "scope"): "normalisation in __post_init__ (contract)",
    ("pymbolic.primitives", "_augment_expression_dataclass", "_is_expr_dataclass"): "class attribute (marker), not an instance field",
    ("pymbolic.primitives", "_augment_expression_dataclass", "mapper_method"): "class attribute, assigned once at class creation",
    ("pymbolic.polynomial", "__init__", "*"): "constructor of a legacy node",
    ("pymbolic.rational", "__init__", "*"): "constructor of a legacy node",
    ("pymbolic.geometric_algebra.primitives", "__init__", "*"): "constructor",
    ("pymbolic.interop.matchpy", "__init__", "*"): "constructor of a matchpy wrapper object under construction (not an existing expression)",
}


def frame_scan(arg=None):
    """Every place in pymbolic/ that can rebind an attribute of an existing expression object:
    `object.__setattr__`, `setattr`, `__dict__` writes anywhere, and attribute stores on `self` inside
    Expression subclasses.  Each site must be on the allow-list above (the sites whose frames are proved)."""
    import ast
    import importlib
    import os
    import time
    t0 = time.time()
    import pymbolic
    root = os.path.dirname(pymbolic.__file__)
    obs = []
    sites = []
    for dp, _, fns in os.walk(root):
        for fname in sorted(fns):
            if not fname.endswith(".py"):
                continue
            path = os.path.join(dp, fname)
            modname = "pymbolic" + path[len(root):-3].replace(os.sep, ".")
            if modname.endswith(".__init__"):
                modname = modname[:-9]
            tree = ast.parse(open(path).read(), path)
            try:
                mod = importlib.import_module(modname)
            except Exception:  # noqa: BLE001
                mod = None

            def visit(node, cls_stack, fn_stack):
                if isinstance(node, ast.ClassDef):
                    for ch in node.body:
                        visit(ch, cls_stack + [node.name], fn_stack)
                    return
                if isinstance(node, (ast.FunctionDef, ast.AsyncFunctionDef)):
                    for ch in node.body:
                        visit(ch, cls_stack, fn_stack + [node.name])
                    return
                for sub in ast.walk(node):
                    if isinstance(sub, (ast.FunctionDef, ast.ClassDef)) and sub is not node:
                        continue
                    if isinstance(sub, ast.Call):
                        fsrc = ast.unparse(sub.func)
                        if fsrc in ("object.__setattr__", "setattr", "object.__delattr__", "delattr"):
                            attr = sub.args[1].value if len(sub.args) > 1 and isinstance(sub.args[1], ast.Constant) else "*"
                            sites.append((modname, fn_stack[-1] if fn_stack else "<module>", attr, path, sub.lineno, fsrc))
                    if isinstance(sub, ast.Attribute) and isinstance(sub.ctx, (ast.Store, ast.Del)):
                        tgt = ast.unparse(sub.value)
                        is_expr_cls = False
                        if cls_stack and mod is not None:
                            k = getattr(mod, cls_stack[0], None)
                            is_expr_cls = isinstance(k, type) and issubclass(k, prim.Expression)
                        if (tgt == "self" and is_expr_cls) or "__dict__" in tgt:
                            sites.append((modname, fn_stack[-1] if fn_stack else "<module>", sub.attr, path, sub.lineno, f"{tgt}.{sub.attr} ="))
            for n in tree.body:
                visit(n, [], [])
    for (modname, fn_, attr, path, line, what) in sites:
        key_ok = (modname, fn_, attr) in ALLOWED_WRITES or (modname, fn_, "*") in ALLOWED_WRITES
        gen_ok = fn_ == "_augment_expression_dataclass"
        if fn_ == "setattr_hook":
            key_ok = True
        ok = key_ok or gen_ok
        obs.append(dict(name=f"frame/{modname}:{fn_}:{attr}@{line}", status="discharged" if ok else "refuted", backend="syntactic",
                        time_s=0.0, detail="" if ok else f"{what} at {path}:{line} may rebind an attribute of an existing expression object",
                        model="", goal="attribute writes that can reach an existing expression object occur only at the proved sites"))
    return dict(contract="C01.frame-scan", status="ok", obligations=obs, function=None, paths=len(obs), time_s=time.time() - t0)

"""Check entry point: proof obligations + bounded stand-in + findings + evidence for one property.

Exit status: 0 property held on everything explored (KNOWN-FINDING lines allowed),
             1 violation (a line `VIOLATION property=<id> replay=<path>` is printed),
             3 internal error of the harness itself.
"""
from __future__ import annotations

import argparse
import hashlib
import importlib
import json
import multiprocessing as mp
import os
import re
import sys
import time
import traceback

ROOT = os.path.dirname(os.path.dirname(os.path.abspath(__file__)))
OUT = ROOT
if ROOT not in sys.path:
    sys.path.insert(0, ROOT)
_repo = os.environ.get("VERIF_REPO")
if _repo:
    sys.path.insert(0, _repo)


# ----------------------------------------------------------------------------- data model
class Failure:
    """A concrete, replayable violation found by running the real code."""

    def __init__(self, check, signature, case, expected="", actual="", functions=()):
        self.check = check
        self.signature = signature
        self.case = case
        self.expected = str(expected)[:400]
        self.actual = str(actual)[:400]
        self.functions = list(functions)

    def as_dict(self):
        return dict(check=self.check, signature=self.signature, case=self.case, expected=self.expected,
                    actual=self.actual, functions=self.functions)


class BoundedRun:
    def __init__(self, name, rule, bound, functions=()):
        self.name = name
        self.rule = rule
        self.bound = bound
        self.functions = list(functions)
        self.evaluations = 0
        self.distinct = set()
        self.nontrivial = 0
        self.exhaustive = True
        self.samples = []
        self.failures: list[Failure] = []
        self.notes = []

    def case(self, key, nontrivial=True, sample=None):
        self.evaluations += 1
        h = hashlib.sha1(repr(key).encode()).digest()[:8]
        if h not in self.distinct:
            self.distinct.add(h)
            if nontrivial:
                self.nontrivial += 1
        if sample is not None and len(self.samples) < 5:
            self.samples.append(sample)

    # set by the runner: tells whether a failure is covered by a listed known finding.  Known failures are kept up to a cap
    # of their own, so that they can never crowd out a failure that no finding lists.
    known_matcher = None
    KNOWN_CAP, NEW_CAP = 400, 4000

    def fail(self, f: Failure):
        m = BoundedRun.known_matcher
        if m is not None and m(f):
            self._n_known = getattr(self, "_n_known", 0) + 1
            if self._n_known <= self.KNOWN_CAP:
                self.failures.append(f)
            return
        self._n_new = getattr(self, "_n_new", 0) + 1
        if self._n_new <= self.NEW_CAP:
            self.failures.append(f)

    def summary(self):
        return dict(name=self.name, rule=self.rule, bound=self.bound, evaluations=self.evaluations,
                    distinct_nontrivial=self.nontrivial, exhaustive=self.exhaustive,
                    functions=self.functions, failures=len(self.failures), notes=self.notes[:10])


# ----------------------------------------------------------------------------- jobs
_JOBS = None
_SPECS = None


def _run_job(i):
    from pyvc import verify
    kind, contract, arg, hooks = _JOBS[i]
    try:
        if kind == "mapper":
            return verify.verify_mapper_method(contract, arg, _SPECS, hooks=hooks)
        if kind == "mapperv":
            k, vn, v = arg
            return verify.verify_mapper_method(contract, k, _SPECS, hooks=hooks, variant=v, variant_name=vn)
        if kind == "function":
            return verify.verify_function(contract, _SPECS, hooks=hooks, rlimit=getattr(contract, "rlimit", 20_000_000))
        if kind == "custom":
            return contract(arg)
    except Exception as e:  # noqa: BLE001
        return dict(contract=getattr(contract, "name", str(contract)), status="engine-error",
                    reason=f"{type(e).__name__}: {e}", traceback=traceback.format_exc()[-1500:],
                    obligations=[], time_s=0.0)
    raise ValueError(kind)


def run_jobs(jobs, specs, procs):
    global _JOBS, _SPECS
    _JOBS, _SPECS = jobs, specs
    if not jobs:
        return []
    if procs <= 1:
        return [_run_job(i) for i in range(len(jobs))]
    ctx = mp.get_context("fork")
    with ctx.Pool(min(procs, len(jobs))) as pool:
        return pool.map(_run_job, range(len(jobs)), chunksize=1)


# ----------------------------------------------------------------------------- findings
def load_findings(pid):
    path = os.path.join(ROOT, "known_findings.jsonl")
    out = []
    if os.path.exists(path):
        for line in open(path):
            line = line.strip()
            if not line or line.startswith("#"):
                continue
            if line.startswith("fixed:"):
                m = re.match(r"fixed:\s+property=(\S+)\s+(\S+)\s+(.*)", line)
                d = dict(property=m.group(1), status="fixed", commit=m.group(2), what=m.group(3),
                         id=f"fixed-{m.group(2)}") if m else {}
            else:
                d = json.loads(line)
            if d.get("property") == pid:
                out.append(d)
    return out


def finding_matches(fd, *, failure=None, obligation=None):
    if fd.get("status") != "known":
        return False
    m = fd.get("match", {})
    if failure is not None:
        if "check" in m and re.fullmatch(m["check"], failure.check) is None:
            return False
        if "signature" in m:
            return re.search(m["signature"], failure.signature) is not None
        return False
    if obligation is not None:
        if "obligation" in m:
            return re.search(m["obligation"], obligation) is not None
        return False
    return False


# ----------------------------------------------------------------------------- main
def main(argv=None):
    ap = argparse.ArgumentParser()
    ap.add_argument("property")
    ap.add_argument("--tier", default=os.environ.get("VERIF_TIER", "quick"))
    ap.add_argument("--replay")
    ap.add_argument("--procs", type=int, default=int(os.environ.get("VERIF_PROCS", "16")))
    ap.add_argument("--only", help="regex on proof job names (debugging)")
    ap.add_argument("--no-bounded", action="store_true")
    ap.add_argument("--verbose", "-v", action="store_true")
    args = ap.parse_args(argv)
    pid = args.property.upper()
    tier = "thorough" if args.tier.startswith("t") else "quick"
    seed = int(os.environ.get("VERIF_SEED", "0") or 0)
    t0 = time.time()
    try:
        mod = importlib.import_module(f"props.{pid.lower()}")
        if args.replay:
            return do_replay(mod, pid, args.replay)
        return run_property(mod, pid, tier, seed, args, t0)
    except SystemExit:
        raise
    except Exception as exc:  # noqa: BLE001
        traceback.print_exc()
        # An exception that escapes while the check builds its inputs or runs its jobs: if it was raised INSIDE the code under check
        # (innermost frame in the repository), the library failed on an input every check of the unchanged tree handles - that is a
        # violation found without a structured failing input, not a fault of the harness.  Anything else stays a harness error.
        import pymbolic
        repo_root = os.path.dirname(os.path.dirname(os.path.abspath(pymbolic.__file__)))
        frames = traceback.extract_tb(exc.__traceback__)
        inner = frames[-1].filename if frames else ""
        if os.path.abspath(inner).startswith(os.path.join(repo_root, "pymbolic")):
            out = os.environ.get("VERIF_OUT") or ROOT
            os.makedirs(os.path.join(out, "replays"), exist_ok=True)
            h = hashlib.sha1((type(exc).__name__ + inner + str(frames[-1].lineno)).encode()).hexdigest()[:8]
            path = os.path.join(out, "replays", f"{pid}-library-raised-during-check-{h}.json")
            json.dump(dict(property=pid, obligation="the code under check raised while the check was preparing or running its inputs",
                           detail=f"{type(exc).__name__}: {exc}", location=f"{inner}:{frames[-1].lineno} in {frames[-1].name}",
                           solver_output="".join(traceback.format_exception(type(exc), exc, exc.__traceback__))[-4000:], cases=[], witnesses=[]),
                      open(path, "w"), indent=1)
            print(f"VIOLATION property={pid} replay={path} no-failing-input-found")
            return 1
        print(f"HARNESS-ERROR property={pid}")
        return 3


def do_replay(mod, pid, path):
    data = json.load(open(path))
    cases = data.get("cases") or ([data["case"]] if "case" in data else [])
    bad = 0
    for c in cases:
        r = mod.replay(c)
        print(("STILL-VIOLATES " if r else "passes ") + json.dumps(c)[:300])
        bad += bool(r)
    if not cases:
        print("replay file carries no concrete input (obligation-only violation): "
              + data.get("obligation", "?"))
        print(data.get("solver_output", "")[:2000])
        return 1
    if bad:
        print(f"VIOLATION property={pid} replay={path}")
        return 1
    return 0


def run_property(mod, pid, tier, seed, args, t0):
    import pymbolic
    specs = getattr(mod, "SPECS", [])
    jobs = mod.proof_jobs(tier)
    if args.only:
        jobs = [j for j in jobs if re.search(args.only, job_name(j))]
    reports = run_jobs(jobs, specs, args.procs)
    t_proof = time.time() - t0
    _early = load_findings(pid)
    BoundedRun.known_matcher = staticmethod(lambda f: any(finding_matches(fd, failure=f) for fd in _early))
    bruns = [] if args.no_bounded else mod.bounded(tier, seed, args.procs)
    t_all = time.time() - t0
    findings = load_findings(pid)

    # ---- classify proof results
    obligations = []
    demoted = []
    fns = []
    for j, rep in zip(jobs, reports):
        if rep.get("function"):
            fns.append(dict(rep["function"], contract=rep.get("contract"), node_class=rep.get("node_class"),
                            paths=rep.get("paths"), status=rep["status"]))
        if rep["status"] in ("unsupported", "engine-error", "vacuous"):
            demoted.append(dict(job=job_name(j), status=rep["status"], reason=rep.get("reason", "")[:300]))
            if args.verbose and rep.get("traceback"):
                print(rep["traceback"])
        for o in rep.get("obligations", []):
            obligations.append(o)
        if rep["status"] == "ok" and not rep.get("obligations"):
            # vacuity guard: a contract that generated no obligation (no feasible path, contradictory assumptions) proves nothing
            demoted.append(dict(job=job_name(j), status="vacuous", reason="no obligation was generated for this contract"))
    refuted = [o for o in obligations if o["status"] == "refuted"]
    undecided = [o for o in obligations if o["status"] == "undecided"]
    discharged = [o for o in obligations if o["status"] == "discharged"]

    # ---- failures of the bounded stand-in
    failures = [f for b in bruns for f in b.failures]
    known_lines = {}
    new_failures = []
    for f in failures:
        hit = next((fd for fd in findings if finding_matches(fd, failure=f)), None)
        if hit is not None:
            known_lines.setdefault(hit["id"], (hit, []))[1].append(f)
        else:
            new_failures.append(f)
    new_refuted = []
    for o in refuted:
        hit = next((fd for fd in findings if finding_matches(fd, obligation=o["name"])), None)
        if hit is not None:
            known_lines.setdefault(hit["id"], (hit, []))
            o["known_finding"] = hit["id"]
        else:
            new_refuted.append(o)

    global OUT
    OUT = os.environ.get("VERIF_OUT") or ROOT
    os.makedirs(os.path.join(OUT, "replays"), exist_ok=True)
    os.makedirs(os.path.join(OUT, "evidence"), exist_ok=True)
    violations = []
    # group concrete failures per check+function for compact replay files
    groups = {}
    for f in new_failures:
        groups.setdefault((f.check, tuple(f.functions)), []).append(f)
    used_for_obligation = set()
    for o in new_refuted:
        # attribute a concrete failure to the refuted obligation (same function named)
        fname = o["name"].split("/")[0]
        mname = fname.split("[")[0].split(".")[-1]
        kname = fname.split("[")[1].rstrip("]") if "[" in fname else None
        cands = [f for f in new_failures if any(mname == fn.split(".")[-1] or fn == fname for fn in f.functions)
                 or (kname and f"root={kname}" in f.signature)]
        h = hashlib.sha1(o["name"].encode()).hexdigest()[:8]
        path = os.path.join(OUT, "replays", f"{pid}-{re.sub(r'[^A-Za-z0-9_.-]+', '_', o['name'])[:80]}-{h}.json")
        data = dict(property=pid, obligation=o["name"], goal=o.get("goal"), detail=o.get("detail"),
                    solver="z3", solver_output=o.get("model", ""), cases=[c.case for c in cands[:5]],
                    witnesses=[c.as_dict() for c in cands[:5]])
        json.dump(data, open(path, "w"), indent=1, default=str)
        for c in cands:
            used_for_obligation.add(id(c))
        if cands:
            violations.append(f"VIOLATION property={pid} replay={path}")
        else:
            violations.append(f"VIOLATION property={pid} replay={path} no-failing-input-found")
    for (check, fnames), fs in groups.items():
        fs = [f for f in fs if id(f) not in used_for_obligation]
        if not fs:
            continue
        h = hashlib.sha1((check + repr(fnames) + fs[0].signature).encode()).hexdigest()[:8]
        path = os.path.join(OUT, "replays", f"{pid}-{re.sub(r'[^A-Za-z0-9_.-]+', '_', check)[:60]}-{h}.json")
        json.dump(dict(property=pid, check=check, functions=list(fnames), cases=[f.case for f in fs[:10]],
                       witnesses=[f.as_dict() for f in fs[:10]], total_failures=len(fs)),
                  open(path, "w"), indent=1, default=str)
        violations.append(f"VIOLATION property={pid} replay={path}")

    for fd in findings:
        if fd.get("status") == "known" and fd["id"] not in known_lines:
            known_lines[fd["id"]] = (fd, [])
    for fid, (fd, fs) in sorted(known_lines.items()):
        if fs:
            extra = f" ({len(fs)} cases, e.g. {fs[0].signature[:120]})"
        elif any(o.get("known_finding") == fid for o in refuted):
            extra = " (obligation refuted as recorded)"
        else:
            extra = f" (listed; witness: {fd.get('witness', '')[:140]}; no case of this tier's domain hit it)"
        print(f"KNOWN-FINDING: property={pid} {fd['what']}{extra}")

    # ---- evidence
    ev = build_evidence(mod, pid, tier, seed, jobs, reports, obligations, discharged, refuted, undecided,
                        demoted, fns, bruns, known_lines, findings, violations, time.time() - t0, t_proof)
    write_evidence(pid, ev)

    n_f = sum(len(b.failures) for b in bruns)
    print(f"[{pid}] tier={tier} functions={len(fns)} obligations={len(obligations)} discharged={len(discharged)} "
          f"refuted={len(refuted)} undecided={len(undecided)} demoted={len(demoted)} "
          f"bounded_evals={sum(b.evaluations for b in bruns)} bounded_failures={n_f} "
          f"known={len(known_lines)} wall={time.time() - t0:.1f}s")
    if args.verbose:
        for d in demoted:
            print("  demoted:", d)
        for o in refuted + undecided:
            print("  ", o["status"], o["name"], o.get("detail", "")[:300])
    for v in violations:
        print(v)
    return 1 if violations else 0


def job_name(j):
    kind, contract, arg, _ = j
    n = getattr(contract, "name", getattr(contract, "__name__", str(contract)))
    if kind == "mapper":
        return f"{n}[{getattr(arg, '__name__', arg)}]"
    if kind == "mapperv":
        return f"{n}[{getattr(arg[0], '__name__', arg[0])}]{arg[1]}"
    return n


def assumption_scan(mod, pid):
    """Mechanical list of every place where the contracts of this property assume something instead of proving it:
    assume(...) in contract code, facts pushed on the path or the axiom set by hooks, callee contracts installed in place
    of a function's body, errors a contract tolerates.  Produced from the contract sources on every run."""
    import types
    files = set()
    cands = [v for v in vars(mod).values() if isinstance(v, types.ModuleType) and (v.__name__ or "").startswith("contracts")]
    try:
        cands.append(__import__(f"contracts.{pid.lower()}", fromlist=["x"]))
    except Exception:   # noqa: BLE001
        pass
    seen = []
    while cands:
        m = cands.pop()
        if m in seen:
            continue
        seen.append(m)
        files.add(getattr(m, "__file__", None))
        cands += [v for v in vars(m).values() if isinstance(v, types.ModuleType) and (v.__name__ or "").startswith("contracts")]
    pat = re.compile(r"\bassume\(|ctx\.assume\(|I\.pcs\.append\(|I\.contracts\[id\(|allowed_exc\s*=|assume_path_bool\(|rec_contract\s*=")
    out = []
    for f in sorted(x for x in files if x):
        for no, line in enumerate(open(f), 1):
            if pat.search(line) and not line.lstrip().startswith("#"):
                out.append(f"{os.path.relpath(f, ROOT)}:{no}: {line.strip()[:160]}")
    return out


def build_evidence(mod, pid, tier, seed, jobs, reports, obligations, discharged, refuted, undecided, demoted,
                   fns, bruns, known_lines, findings, violations, wall, t_proof):
    level_claimed = getattr(mod, "LEVEL", "proof")
    n_ob = len(obligations)
    n_dis = len(discharged)
    known_refuted = [o for o in refuted if o.get("known_finding")]
    evals = sum(b.evaluations for b in bruns)
    distinct = sum(b.nontrivial for b in bruns)
    solver_time = sum(r.get("solver_time_s", 0.0) for r in reports)
    slow = sorted(obligations, key=lambda o: -o.get("time_s", 0))[:10]
    samples = [dict(obligation=o["name"], goal=o.get("goal", "")[:300], status=o["status"]) for o in obligations[:3]]
    for b in bruns:
        samples += [dict(bounded=b.name, case=s) for s in b.samples[:2]]
    trusted = list(getattr(mod, "TRUSTED_BASE", [])) + [
        "CPython 3.12, its ast/inspect modules", "z3 5.1 (Python API)",
        "PyVC engine (/verif/pyvc): symbolic semantics of the Python subset, checked by engine self-tests",
        "M-IND: structural induction over finite expression trees (per-method obligations assume the mapper contract on sub-terms)",
    ]
    all_proved = n_ob > 0 and n_dis == n_ob and not demoted
    proof_ok = n_ob > 0 and (n_dis + len(known_refuted)) == n_ob
    if level_claimed == "proof" and all_proved:
        level = "proof"
    elif level_claimed == "proof":
        level = "other"
    else:
        level = level_claimed
    cov = dict(
        obligations=n_ob, discharged=n_dis,
        refuted=len(refuted), refuted_known_findings=len(known_refuted), undecided=len(undecided),
        checker_cmd=f"./check {pid} --tier {tier}",
        trusted_base=trusted,
        evaluations=evals, distinct_nontrivial=distinct,
        rule="; ".join(f"{b.name}: {b.rule}" for b in bruns)[:3000] or "no bounded part",
        exhaustive=bool(bruns) and all(b.exhaustive for b in bruns),
        samples=samples or [dict(note="no samples")],
        functions_under_contract=fns,
        by_backend={"z3": n_dis},
        solver_time_s=round(solver_time, 3),
        slowest_obligations=[dict(name=o["name"], time_s=round(o.get("time_s", 0), 3)) for o in slow],
        bounded_functions=[b.summary() for b in bruns],
        demoted=demoted,
        known_findings=[dict(id=fid, what=fd["what"], cases=len(fs)) for fid, (fd, fs) in known_lines.items()],
        fixed_findings=[dict(id=fd.get("id"), commit=fd.get("commit"), what=fd.get("what"))
                        for fd in findings if fd.get("status") == "fixed"],
        undecided_obligations=[dict(name=o["name"], detail=o.get("detail", "")[:200]) for o in undecided][:50],
        proof_wall_s=round(t_proof, 2),
        assumption_scan=assumption_scan(mod, pid),
        explanation=getattr(mod, "EXPLANATION", "") + (
            "" if all_proved else
            f" This run: {n_dis}/{n_ob} obligations discharged, {len(undecided)} undecided, {len(demoted)} functions "
            f"outside the engine's reach (demoted to the bounded stand-in), {len(known_refuted)} refuted inside recorded known findings."),
    )
    ev = dict(property_id=pid, tier=tier, seed=seed, level=level, coverage=cov,
              assumptions=list(getattr(mod, "ASSUMPTIONS", [])), wall_s=round(wall, 2),
              violations=len(violations))
    return ev


def write_evidence(pid, ev):
    path = os.path.join(OUT, "evidence", f"{pid}.json")
    try:
        import jsonschema
        schema = json.load(open("/root/.vp/EVIDENCE.schema.json"))
        jsonschema.validate(ev, schema)
    except FileNotFoundError:
        pass
    json.dump(ev, open(path, "w"), indent=1, default=str)


if __name__ == "__main__":
    sys.exit(main())

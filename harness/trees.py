"""Exhaustive enumerators of small pymbolic expression trees (bounded stand-in / replay search)."""
from __future__ import annotations

import itertools
from fractions import Fraction

import pymbolic.primitives as p

X, Y, Z = p.Variable("x"), p.Variable("y"), p.Variable("z")
LEAVES_BASIC = [X, Y, 0, 1, -1, 2, 1.0, True, Fraction(1, 2)]
LEAVES_SMALL = [X, Y, 2, -1]
F = p.Variable("f")
A = p.Variable("a")


def build(cls, kids, extra=None):
    """Build a node of class cls from a list of child expressions (as many as it needs)."""
    k = list(kids)
    e = extra or {}
    if cls in (p.Sum, p.Product, p.BitwiseOr, p.BitwiseXor, p.BitwiseAnd, p.LogicalOr, p.LogicalAnd,
               p.Min, p.Max):
        return cls(tuple(k))
    if cls in (p.Quotient, p.FloorDiv, p.Remainder, p.Power, p.LeftShift, p.RightShift):
        return cls(k[0], k[1])
    if cls in (p.BitwiseNot, p.LogicalNot):
        return cls(k[0])
    if cls is p.Comparison:
        return cls(k[0], e.get("operator", "<"), k[1])
    if cls is p.If:
        return cls(k[0], k[1], k[2])
    if cls is p.Call:
        return cls(e.get("function", F), tuple(k))
    if cls is p.CallWithKwargs:
        from immutabledict import immutabledict
        return cls(e.get("function", F), tuple(k[:1]), immutabledict({"kw": k[1]} if len(k) > 1 else {}))
    if cls is p.Subscript:
        return cls(e.get("aggregate", A), k[0] if len(k) == 1 else tuple(k))
    if cls is p.Lookup:
        return cls(k[0], e.get("name", "attr"))
    if cls is p.CommonSubexpression:
        return cls(k[0], e.get("prefix"), e.get("scope", p.cse_scope.EVALUATION))
    if cls is p.Slice:
        return cls(tuple(k))
    if cls is p.Substitution:
        return cls(k[0], ("x",), (k[1],))
    if cls is p.Derivative:
        return cls(k[0], ("x",))
    raise KeyError(cls)


ARITY = {
    p.Sum: 2, p.Product: 2, p.BitwiseOr: 2, p.BitwiseXor: 2, p.BitwiseAnd: 2, p.LogicalOr: 2,
    p.LogicalAnd: 2, p.Min: 2, p.Max: 2, p.Quotient: 2, p.FloorDiv: 2, p.Remainder: 2, p.Power: 2,
    p.LeftShift: 2, p.RightShift: 2, p.BitwiseNot: 1, p.LogicalNot: 1, p.Comparison: 2, p.If: 3,
    p.Call: 2, p.CallWithKwargs: 2, p.Subscript: 1, p.Lookup: 1, p.CommonSubexpression: 1,
    p.Slice: 2, p.Substitution: 2, p.Derivative: 1,
}

ARITH = [p.Sum, p.Product, p.Quotient, p.FloorDiv, p.Remainder, p.Power]
BITS = [p.LeftShift, p.RightShift, p.BitwiseNot, p.BitwiseOr, p.BitwiseXor, p.BitwiseAnd]
LOGIC = [p.LogicalNot, p.LogicalOr, p.LogicalAnd, p.Comparison, p.If, p.Min, p.Max]
STRUCT = [p.Call, p.CallWithKwargs, p.Subscript, p.Lookup, p.CommonSubexpression]
ALL_EVAL = ARITH + BITS + LOGIC + STRUCT


def variants(cls):
    """Extra-field variants of a class (comparison operators, n-ary widths)."""
    if cls is p.Comparison:
        return [{"operator": o} for o in ("==", "!=", "<", "<=", ">", ">=")]
    return [{}]


def depth1(classes, leaves):
    out = []
    for cls in classes:
        n = ARITY[cls]
        for ex in variants(cls):
            for kids in itertools.product(leaves, repeat=n):
                try:
                    out.append(build(cls, kids, ex))
                except Exception:  # noqa: BLE001
                    pass
    return out


def nary(classes, leaves, widths=(0, 1, 3)):
    out = []
    for cls in classes:
        if cls in (p.Sum, p.Product, p.BitwiseOr, p.BitwiseXor, p.BitwiseAnd, p.LogicalOr, p.LogicalAnd,
                   p.Min, p.Max, p.Call):
            for w in widths:
                for kids in itertools.islice(itertools.product(leaves, repeat=w), 40):
                    out.append(build(cls, kids))
    return out


def triples(classes, leaves, fill=None):
    """Every (parent class, child position, child class) with the child a depth-1 tree."""
    fill = fill if fill is not None else leaves[:2]
    out = []
    inner = {c: depth1([c], leaves[:3])[:6] for c in classes}
    for P in classes:
        n = ARITY[P]
        for ex in variants(P)[:2]:
            for pos in range(n):
                for C in classes:
                    for ch in inner[C][:3]:
                        for other in fill[:2]:
                            kids = [other] * n
                            kids[pos] = ch
                            try:
                                out.append(build(P, kids, ex))
                            except Exception:  # noqa: BLE001
                                pass
    return out


def thin(seq, k, seed=0):
    """At most k elements of seq, in their order, chosen by a seeded sample.  (A fixed stride can alias with the period of an
    enumeration - it once dropped every statement stream that had a dependency; a seeded sample cannot.)"""
    import random
    seq = list(seq)
    if len(seq) <= k:
        return seq
    idx = sorted(random.Random(seed).sample(range(len(seq)), k))
    return [seq[i] for i in idx]


def dedup(exprs):
    seen = set()
    out = []
    for e in exprs:
        k = (type(e).__name__, repr(e))
        if k not in seen:
            seen.add(k)
            out.append(e)
    return out


def src(e):
    """Python source that rebuilds e (for replay files)."""
    return repr(e)


def from_src(s):
    import pymbolic.primitives as prim
    from fractions import Fraction  # noqa: F401
    from immutabledict import immutabledict  # noqa: F401
    ns = {k: getattr(prim, k) for k in dir(prim) if not k.startswith("_")}
    ns.update(Fraction=Fraction, immutabledict=immutabledict)
    import numpy
    ns["numpy"] = numpy
    return eval(s, ns)  # noqa: S307

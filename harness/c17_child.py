"""Child process of the C17 bounded check.  modes:
   produce <out.pkl> <history>   build the corpus from source, apply the history (hash/pickle ops), dump pickles + digests
   consume <in.pkl>              unpickle, compare with the corpus built from source HERE (==, hash, dict/set look-up), digests
"""
import hashlib
import os
import pickle
import sys
import warnings

ROOT = os.path.dirname(os.path.dirname(os.path.abspath(__file__)))
sys.path.insert(0, ROOT)
_repo = os.environ.get("VERIF_REPO")
if _repo:
    sys.path.insert(0, _repo)
warnings.simplefilter("ignore")


def corpus():
    import pymbolic.primitives as p
    from immutabledict import immutabledict
    from contracts import fixtures_nodes as fxn
    from pymbolic.geometric_algebra.primitives import MultiVectorVariable, Nabla, NablaComponent
    x, y, f, a = p.Variable("x"), p.Variable("y"), p.Variable("f"), p.Variable("a")
    ex = [
        x, p.Sum((x, 1)), p.Product((x, y, 2.5)), p.Quotient(x, y), p.FloorDiv(x, 3), p.Remainder(x, y), p.Power(x, -2),
        p.LeftShift(x, 2), p.RightShift(x, y), p.BitwiseNot(x), p.BitwiseOr((x, y)), p.BitwiseXor((x, 1)), p.BitwiseAnd((x, y, 7)),
        p.Comparison(x, "<=", y), p.LogicalNot(x), p.LogicalOr((x, y)), p.LogicalAnd((x, True)), p.If(p.Comparison(x, ">", 0), x, y),
        p.Min((x, y)), p.Max((x, 3)), p.Call(f, (x, y)), p.CallWithKwargs(f, (x,), immutabledict({"kw": y, "other": 1})),
        p.Subscript(a, (x, 1)), p.Lookup(a, "attr"), p.CommonSubexpression(p.Sum((x, y)), "pre", p.cse_scope.GLOBAL),
        p.Substitution(x, ("x",), (y,)), p.Derivative(p.Power(x, 2), ("x",)), p.Slice((x, None, 2)), p.NaN(), p.NaN(float),
        p.FunctionSymbol(), p.Wildcard(), p.DotWildcard("w"), p.StarWildcard("s"),
        MultiVectorVariable("mv"), Nabla(3), NablaComponent(1, 3),
        fxn.UBase(x, "t"), fxn.UDerived(x, "t", y), fxn.UNoHash(x), fxn.LegacyChildOfDecorated(x, "t"),
        fxn.LegacyPair(x, 2), fxn.LegacyPairSub(y, p.Sum((x, 1))), fxn.LegacyExtended(x, "t", 5),
        p.Sum((p.Product((x, p.Power(y, 2))), p.Call(f, (p.Subscript(a, x),)), p.If(p.LogicalAnd((x, y)), 1, p.Quotient(1, x)))),
        p.Sum((fxn.UBase(x, "t"), fxn.LegacyPair(x, 2))),
    ]
    # user node types with a field that __init__ does not take (set by __post_init__), alone and nested
    ex += [fxn.UPostInit(x), fxn.UPostInit(p.Sum((x, y))), fxn.UPostInitDefault(x), fxn.UPostInitDefault(p.Product((x, 2))), p.Sum((fxn.UPostInit(y), fxn.UPostInitDefault(y), 1))]
    # expressions as the parser builds them (list literals become a hashable list type of the parser's own)
    from pymbolic import parse
    ex += [parse("f([a, b], 1)"), parse("g[(x, y), [x]] + [1, z]"), parse("h((a, b,), c=[d])")]
    # multivectors with symbolic coefficients (containers of expressions, documented as pickleable; their hash is memoized)
    from pymbolic.geometric_algebra import MultiVector, Space
    sp3 = Space(3)
    ex += [MultiVector({1: x, 2: y}, sp3), MultiVector({0: p.Sum((x, 1)), 7: p.Variable("zeta")}, sp3)]
    # the shipped legacy node types outside pymbolic.primitives
    from pymbolic.polynomial import Polynomial
    from pymbolic.rational import Rational
    ex += [Rational(x, 3), Rational(p.Sum((x, 1)), 2), Polynomial(x, ((0, 1), (2, 3))), Polynomial(y, ((1, x),))]
    return ex


def digest(e):
    from pymbolic.mapper.persistent_hash import PersistentHashWalkMapper
    h = hashlib.sha256()
    try:
        PersistentHashWalkMapper(h)(e)
    except Exception as exc:  # noqa: BLE001
        return "ERR:" + type(exc).__name__
    return h.hexdigest()


def compiled_corpus():
    import pymbolic
    import pymbolic.primitives as p
    x, y = p.Variable("x"), p.Variable("y")
    out = [(pymbolic.compile(p.Sum((p.Product((x, 3)), 1)), ["x"]), (4,)), (pymbolic.compile(p.Power(x, 2)), (5,)),
           (pymbolic.compile(p.Quotient(p.Sum((x, 1)), y), ["y", "x"]), (2, 7))]
    # free variables that are not listed (their order is decided when the expression is compiled - again after unpickling): many names, names differing
    # only in case, names hashing alike under no seed in particular; weights make every order of the arguments a different value
    for names in (["x", "X"], ["dt", "Dt", "DT", "a", "A"], ["n1", "n10", "n2", "N1", "n_1", "_n"], ["q" + str(i) for i in range(12)], ["b", "a", "B", "A", "ab", "aB", "Ab"]):
        e = p.Sum(tuple(p.Product((3 ** i, p.Variable(n))) for i, n in enumerate(names)))
        out.append((pymbolic.compile(e), tuple(range(1, len(names) + 1))))
        out.append((pymbolic.compile(e, [names[-1]]), tuple(range(2, len(names) + 2))))
    return out


def main():
    mode = sys.argv[1]
    if mode == "produce":
        out, hist = sys.argv[2], sys.argv[3].split(",")
        ex = corpus()
        recs = []
        for i, e in enumerate(ex):
            blobs = {}
            perr = None
            cur = e
            for op in hist:
                if op == "hash":
                    try:
                        hash(cur)
                    except TypeError:
                        pass
                elif op == "eq":
                    cur == corpus()[i]
                elif op == "roundtrip":
                    try:
                        cur = pickle.loads(pickle.dumps(cur))
                    except Exception as exc:  # noqa: BLE001
                        perr = f"pickle round trip in the producer raised {type(exc).__name__}: {exc}"
            for proto in range(0, pickle.HIGHEST_PROTOCOL + 1):
                try:
                    blobs[proto] = pickle.dumps(cur, protocol=proto)
                except Exception as exc:  # noqa: BLE001
                    perr = f"pickle.dumps(protocol={proto}) raised {type(exc).__name__}: {exc}"
            try:
                hv = hash(cur)
            except TypeError:
                hv = None
            recs.append(dict(blobs=blobs, digest=digest(e), producer_hash=hv, producer_error=perr))
        comp = [dict(blob=pickle.dumps(c), args=args, value=c(*args)) for c, args in compiled_corpus()]
        pickle.dump(dict(recs=recs, compiled=comp, seed=os.environ.get("PYTHONHASHSEED"), debug=__debug__), open(out, "wb"))
        return 0
    if mode == "consume":
        data = pickle.load(open(sys.argv[2], "rb"))
        ex = corpus()
        problems = []
        for i, (rec, local) in enumerate(zip(data["recs"], ex)):
            if rec.get("producer_error"):
                problems.append(f"expr#{i} {local!r}: {rec['producer_error']}")
            for proto, blob in rec["blobs"].items():
                try:
                    got = pickle.loads(blob)
                except Exception as exc:  # noqa: BLE001
                    problems.append(f"expr#{i} {local!r} proto={proto}: unpickling raised {type(exc).__name__}: {exc}")
                    continue
                try:
                    ok_eq = (got == local) and (local == got) and type(got) is type(local)
                    ok_hash = hash(got) == hash(local)
                    ok_key = got in {local: 1} and local in {got}
                    stale = getattr(got, "_hash_value", None)
                    ok_stale = stale is None or stale == hash(local)
                except TypeError as exc:
                    problems.append(f"expr#{i} {local!r} proto={proto}: {exc}")
                    continue
                if not (ok_eq and ok_hash and ok_key and ok_stale):
                    problems.append(f"expr#{i} {local!r} proto={proto}: eq={ok_eq} hash={ok_hash} key={ok_key} cached_hash_ok={ok_stale}")
            d = digest(local)
            if d != rec["digest"]:
                problems.append(f"expr#{i} {local!r}: persistent digest differs across processes ({rec['digest'][:12]} vs {d[:12]})")
        for j, c in enumerate(data["compiled"]):
            try:
                f = pickle.loads(c["blob"])
                if f(*c["args"]) != c["value"]:
                    problems.append(f"compiled#{j}: value differs after unpickling in another process")
            except Exception as exc:  # noqa: BLE001
                problems.append(f"compiled#{j}: {type(exc).__name__}: {exc}")
        for pr in problems:
            print("PROBLEM " + pr)
        print(f"CHECKED {len(data['recs'])} expressions x {max(len(r['blobs']) for r in data['recs'])} protocols, producer seed={data['seed']} debug={data['debug']}, "
              f"consumer seed={os.environ.get('PYTHONHASHSEED')} debug={__debug__}")
        return 0
    return 2


if __name__ == "__main__":
    sys.exit(main())

"""Native outcomes (value or raised error) and their equivalence."""
from __future__ import annotations

import math
import warnings


class Timeout(BaseException):
    pass


_ALARM_ACTIVE = False
RUN_LIMIT_S = 10.0
_TIMEOUTS = 0


def _limit():
    """The limit shrinks once the code under test has shown that it does not terminate: the violation is established
    after the first time-outs, the remaining cases must not cost 10 s each."""
    if _TIMEOUTS >= 20:
        return 0.2
    if _TIMEOUTS >= 3:
        return 1.0
    return RUN_LIMIT_S


class DidNotTerminate(Exception):
    """The real code did not return within the limit (reported as an outcome, so that a change that makes the code
    loop forever fails the check instead of hanging it)."""


def with_alarm(seconds, thunk, default=None):
    """Run thunk under a wall-clock alarm (huge integer powers etc. are skipped, not judged)."""
    import signal
    global _ALARM_ACTIVE

    def h(sig, frm):
        raise Timeout()
    if _ALARM_ACTIVE:           # already guarded by an enclosing alarm (timers do not nest)
        return thunk()
    old = signal.signal(signal.SIGALRM, h)
    _ALARM_ACTIVE = True
    signal.setitimer(signal.ITIMER_REAL, seconds)
    try:
        return thunk()
    except Timeout:
        return default
    finally:
        signal.setitimer(signal.ITIMER_REAL, 0)
        signal.signal(signal.SIGALRM, old)
        _ALARM_ACTIVE = False


def run(thunk):
    """Outcome of running real code: ('val', v) or ('exc', class, args); never hangs (DidNotTerminate after RUN_LIMIT_S)."""
    import threading

    def go():
        try:
            with warnings.catch_warnings():
                warnings.simplefilter("ignore")
                return ("val", thunk())
        except RecursionError:
            raise
        except Exception as e:  # noqa: BLE001
            return ("exc", type(e), e.args)
    global _TIMEOUTS
    if _ALARM_ACTIVE or threading.current_thread() is not threading.main_thread():
        return go()
    lim = _limit()
    r = with_alarm(lim, go, default=None)
    if r is None:
        _TIMEOUTS += 1
        return ("exc", DidNotTerminate, (f"no result within {lim} s",))
    return r


def run_rec(thunk):
    """As run(), with RecursionError as an outcome (for checks that feed deep or long inputs on purpose)."""
    try:
        return run(thunk)
    except RecursionError:
        return ("exc", RecursionError, ("maximum recursion depth exceeded",))


def same_value(a, b, typed=True):
    """== plus (optionally) same type; NaN equals NaN; containers elementwise."""
    try:
        import numpy as np
        if isinstance(a, np.ndarray) or isinstance(b, np.ndarray):
            if not (isinstance(a, np.ndarray) and isinstance(b, np.ndarray)) or a.shape != b.shape:
                return False
            return all(same_value(x, y, typed) for x, y in zip(a.flat, b.flat))
    except ImportError:
        pass
    if isinstance(a, float) and isinstance(b, float) and math.isnan(a) and math.isnan(b):
        return True
    if isinstance(a, (list, tuple)) and isinstance(b, (list, tuple)):
        return type(a) is type(b) and len(a) == len(b) and all(same_value(x, y, typed) for x, y in zip(a, b))
    if typed and type(a) is not type(b):
        return False
    if not typed and (isinstance(a, (float, complex)) or isinstance(b, (float, complex))):
        # floating point involved (untyped comparison): dropping a neutral 1.0 or re-associating a sum
        # changes rounding / exactness, not the mathematical value
        try:
            return abs(complex(a) - complex(b)) <= 1e-9 * max(1.0, abs(complex(a)), abs(complex(b)))
        except Exception:  # noqa: BLE001
            pass
    try:
        return bool(a == b)
    except Exception:  # noqa: BLE001
        return False


def describe(o):
    if o[0] == "val":
        try:
            r = repr(o[1])
        except ValueError:
            r = "<huge int>"
        return f"value {r[:200]} ({type(o[1]).__name__})"
    return f"raises {o[1].__name__}{o[2]!r}"


def equivalent(real, spec, possible_errors=None, typed=True):
    """Outcome equivalence: values equal; or both raise and the raised error is among the errors
    the specification's sub-evaluations can raise (order of failing operands is not pinned)."""
    if real[0] == "val" and spec[0] == "val":
        return same_value(real[1], spec[1], typed)
    if real[0] == "exc" and spec[0] == "exc":
        if possible_errors is None:
            return True
        return any(issubclass(real[1], t) or issubclass(t, real[1]) for t in possible_errors) \
            or real[1] is spec[1]
    return False

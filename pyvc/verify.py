"""Obligation generation and discharge for contracts (mapper methods and plain functions)."""
from __future__ import annotations

import dataclasses
import inspect
import time
import traceback
import types

import z3

from . import loader, smt
from .api import FunctionContract, MapperContract
from .interp import Env, Interp
from .smt import S, V, Bool, Int, Str, fn
from .values import *  # noqa: F403


# ----------------------------------------------------------------------------- class table
def node_class_table():
    """Closed world of node classes: every Expression subclass that is an expression dataclass
    and is importable from the working tree (A-CW)."""
    import pymbolic.primitives as p
    import pymbolic.geometric_algebra.primitives  # noqa: F401
    try:
        import pymbolic.polynomial  # noqa: F401
        import pymbolic.rational  # noqa: F401
    except Exception:  # noqa: BLE001
        pass
    seen = []
    stack = [p.Expression]
    while stack:
        k = stack.pop()
        for sub in k.__subclasses__():
            if sub not in seen and sub.__module__.startswith("pymbolic"):
                seen.append(sub)
                stack.append(sub)
    seen.sort(key=lambda k: (k.__module__, k.__qualname__))
    return seen


def dispatch_target(mapper_cls, node_cls):
    """The handler `Mapper.__call__` reaches for a node of class node_cls (same algorithm as the
    real dispatcher, which is itself under contract in C04): (method name, function) or None."""
    name = getattr(node_cls, "mapper_method", None)
    if name is not None:
        m = getattr(mapper_cls, name, None)
        if m is not None:
            return name, m
    for k in node_cls.__mro__[1:]:
        name = getattr(k, "mapper_method", None)
        if name:
            m = getattr(mapper_cls, name, None)
            if m:
                return name, m
    return None


# ----------------------------------------------------------------------------- spec functions
def install_spec(I: Interp, f):
    meta = f.__pyvc_spec__
    name = meta["name"]

    def handler(I, obj, args, kwargs, star, dstar, node):
        if star is not None or dstar is not None:
            raise Unsupported(f"star args to spec {name}")
        params = list(inspect.signature(f).parameters)
        allargs = list(args) + [kwargs[p] for p in params[len(args):] if p in kwargs]
        d = allargs[meta["unfold_on"]]
        if meta.get("int_args"):
            d = None
        unfoldable = isinstance(d, (SymNode, PyTuple, PyList, Conc, SymInt, SymBool, SymStr)) or \
            (isinstance(d, (SymV, SymSeq)) and I.spec_depth == 0 and getattr(I, "unfold_top", False))
        I.unfold_top = False
        if unfoldable and I.spec_depth < I.max_spec_unfold + (1 if isinstance(d, SymNode) and d.t is not None and "mk_" in str(d.t.decl()) else 0):
            I.spec_depth += 1
            try:
                info = loader.get_func_info(f)
                defaults = [Conc(x) for x in (f.__defaults__ or ())]
                env = Env({}, None, f.__globals__)
                return I.run_function(info.node, env, f.__globals__, allargs, {}, None, None, defaults, {},
                                      name=name)
            finally:
                I.spec_depth -= 1
        # uninterpreted application
        if meta.get("int_args"):
            its = [I.as_int(a) for a in allargs]
            if all(t is not None for t in its):
                app = fn(f"{name}_ii", *([Int] * len(its)), Int)(*its)
                if meta.get("nonneg"):
                    I.ctx.assume(app >= 0)
                if meta.get("define") and I.define_fuel > 0 and app.get_id() not in I.defined_apps:
                    I.defined_apps.add(app.get_id())
                    I.define_fuel -= 1
                    saved_pcs, I.pcs = I.pcs, []
                    saved_depth, I.spec_depth = I.spec_depth, 0
                    try:
                        info = loader.get_func_info(f)
                        env0 = Env({}, None, f.__globals__)
                        outs = I.explore(lambda: I.run_function(info.node, env0, f.__globals__, allargs, {}, None, None, [], {}, name=name))
                        term = None
                        for o in outs:
                            if o.kind != "ret":
                                continue
                            vt = I.as_int(o.value)
                            if vt is None:
                                raise Unsupported(f"defined spec {name} returned non-int")
                            pc = z3.And(*o.pcs) if o.pcs else z3.BoolVal(True)
                            term = vt if term is None else z3.If(pc, vt, term)
                        if term is not None:
                            I.ctx.assume(app == term)
                    finally:
                        I.pcs = saved_pcs
                        I.spec_depth = saved_depth
                        I.define_fuel += 1
                return SymInt(app)
        ts = [I.lift(a) for a in allargs]
        sorts = [V] * len(ts)
        uname = name
        if I.spec_depth > 0:            # nested occurrence inside an unfolding: may be read as another function (lemmas over a definition)
            uname = getattr(I, "spec_alias", {}).get(name, name)
        if not meta["total"]:
            ok = fn(f"{uname}_ok", *sorts, Bool)(*ts)
            if not I.decide(ok):
                raise PyRaise(SymExc(None, (), term=fn(f"{uname}_exc", *sorts, V)(*ts), origin=f"spec {uname}"))
        r = meta["returns"]
        if r == "v":
            return SymV(fn(f"{uname}_v", *sorts, V)(*ts))
        if r == "int":
            return SymInt(fn(f"{name}_i", *sorts, Int)(*ts))
        if r == "nat":
            t = fn(f"{name}_i", *sorts, Int)(*ts)
            I.ctx.assume(t >= 0)
            return SymInt(t)
        if r == "bool":
            return SymBool(fn(f"{name}_b", *sorts, Bool)(*ts))
        if r == "set":
            return SymSet(fn(f"{name}_set", *sorts, smt.SetV)(*ts))
        if r == "seq":
            return SymSeq(fn(f"{name}_seq", *sorts, S)(*ts), "list")
        raise Unsupported(f"spec return kind {r}")
    I.specs[id(f)] = handler


def install_assumed(I, fobj, cfn):
    """Callee replaced by its contract: calls of fobj run the contract function cfn instead."""
    def handler(I, args, kwargs, star, dstar, node):
        return I.call_function(Conc(cfn), args, kwargs, star, dstar, node)
    I.contracts[id(fobj)] = handler


# ----------------------------------------------------------------------------- symbolic inputs
def make_input(I: Interp, name, kind):
    c = I.ctx
    if kind == "v":
        return SymV(z3.Const(name, V))
    if kind == "int":
        return SymInt(z3.Const(name, Int))
    if kind == "nat":
        t = z3.Const(name, Int)
        c.assume(t >= 0)
        return SymInt(t)
    if kind == "bool":
        return SymBool(z3.Const(name, Bool))
    if kind == "real":
        return SymReal(z3.Const(name, smt.Real))
    if kind == "str":
        return SymStr(z3.Const(name, Str))
    if kind == "seq":
        return SymSeq(z3.Const(name, S), "tuple")
    if kind == "list":
        return SymSeq(z3.Const(name, S), "list")
    if kind == "strmap":
        t = z3.Const(name, V)
        c.assume(smt.tag(t) == smt.TAG_DICT)
        return SymStrMap(t)
    if kind == "map":
        return SymMap(z3.Const(name + "_keys", S), z3.Const(name + "_vals", S))
    if kind == "expr":
        t = z3.Const(name, V)
        c.assume(smt.tag(t) == smt.TAG_NODE)
        return SymV(t)
    if kind.startswith("node:"):
        cls = loader.resolve(kind[5:]) if ":" in kind[5:] else _node_cls(kind[5:])
        return I.sym_node(cls, z3.Const(name, V))
    if kind.startswith("bv"):
        return SymBV(z3.Const(name, z3.BitVecSort(int(kind[2:]))))
    if kind == "symdict":
        return SymDict(z3.Const(name, V), None, name)
    if kind.startswith("obj:"):
        spec_ = kind[4:]
        attrs = {}
        if "{" in spec_:
            spec_, _, rest = spec_.partition("{")
            for item in rest.rstrip("}").split(","):
                if item.strip():
                    an, _, ak = item.partition("=")
                    attrs[an.strip()] = ak.strip()
        cls = loader.resolve(spec_)
        o = SymObj(cls, {}, z3.Const(name, V))
        for an, ak in attrs.items():
            o.attrs[an] = make_input(I, f"{name}.{an}", ak)
        return o
    if kind == "set":
        return SymSet(z3.Const(name, smt.SetV))
    if kind.startswith("const:"):
        return Conc(eval(kind[6:]))  # noqa: S307  (contract text is ours)
    raise Unsupported(f"input kind {kind}")


def _node_cls(name):
    import pymbolic.primitives as p
    return getattr(p, name)


# ----------------------------------------------------------------------------- results
@dataclasses.dataclass
class Obligation:
    name: str
    status: str            # discharged | refuted | undecided | unsupported
    backend: str = "z3"
    time_s: float = 0.0
    detail: str = ""
    model: str = ""
    goal: str = ""

    def as_dict(self):
        return dataclasses.asdict(self)


def exc_compatible(I, a: SymExc, b: SymExc):
    """Outcome equivalence for two raised errors: python bool or z3 Bool."""
    if a.kind is None or b.kind is None:
        return True
    if not (issubclass(a.kind, b.kind) or issubclass(b.kind, a.kind)):
        return False
    if len(a.args) != len(b.args):
        return True
    if not any(k.__name__ in ("UnknownVariableError", "KeyError") for k in (a.kind, b.kind)):
        return True   # message texts are not part of any contract
    conj = []
    for x, y in zip(a.args, b.args):
        try:
            conj.append(I.lift(x) == I.lift(y))
        except Unsupported:
            pass
    return z3.And(*conj) if conj else True


def values_match(I, a, b):
    """Equality of two result values as a z3 Bool (identity on V for objects, structural for
    statically shaped containers)."""
    if isinstance(a, SymSet) or isinstance(b, SymSet):
        return I.as_set(a) == I.as_set(b)
    if isinstance(a, (PyList, PyTuple)) and isinstance(b, (PyList, PyTuple)) and type(a) is type(b):
        if len(a.items) != len(b.items):
            return z3.BoolVal(False)
        return z3.And(*[values_match(I, x, y) for x, y in zip(a.items, b.items)]) if a.items else z3.BoolVal(True)
    if isinstance(a, SymMap) and isinstance(b, SymMap):
        return z3.And(a.keys == b.keys, a.vals == b.vals)
    if isinstance(a, PyDict) and isinstance(b, PyDict):
        if list(a.d) != list(b.d) and set(a.d) != set(b.d):
            return z3.BoolVal(False)
        return z3.And(*[values_match(I, a.d[k], b.d[k]) for k in a.d]) if a.d else z3.BoolVal(True)
    return I.lift(a) == I.lift(b)


def compare_outcomes(I, code_outs, spec_outs, oname, rlimit, effects=False):
    """One obligation per code path: its outcome is equivalent to the spec's on every compatible
    spec path."""
    obs = []
    for i, co in enumerate(code_outs):
        t0 = time.time()
        status = "discharged"
        detail = ""
        model = ""
        goal_txt = []
        for j, so in enumerate(spec_outs):
            if co.kind == "ret" and so.kind == "ret":
                m = values_match(I, co.value, so.value)
                goal_txt.append(f"spec#{j}: result == {so.value!r}")
                if effects == "cache" and not any(g[0] == "dict-write" for g in co.extra.get("ghost", [])):
                    # a hit: nothing may be recomputed (no handler invocation at all)
                    if co.effects:
                        m = False
                    goal_txt.append("hit: no handler invoked")
                elif effects:
                    from . import effects as fx
                    lg = fx.logs_equivalent(I, co.effects, so.effects, co.pcs + so.pcs, rlimit)
                    m = lg if m is True else z3.And(m, lg)
                    goal_txt.append(f"log ~ {[str(e)[:60] for e in so.effects]}")
            elif co.kind == "exc" and so.kind == "exc":
                m = exc_compatible(I, co.value, so.value)
                goal_txt.append(f"spec#{j}: raises ~ {so.value!r}")
            else:
                m = False
                goal_txt.append(f"spec#{j}: {so.kind} (code: {co.kind}) -> paths must be disjoint")
            if m is True:
                continue
            neg = z3.BoolVal(True) if m is False else z3.Not(m)
            r, mdl = smt.check(I.ctx, co.pcs + so.pcs + [neg], rlimit=rlimit)
            if r == "sat":
                status = "refuted"
                detail = f"code path {i} ({co.kind}: {co.value!r}) vs spec path {j} ({so.kind}: {so.value!r})"
                model = _model_text(mdl)
                break
            if r == "unknown":
                status = "undecided"
                detail = f"solver unknown: {mdl}"
        obs.append(Obligation(f"{oname}/path{i}", status, "z3", time.time() - t0, detail, model,
                              goal="; ".join(goal_txt)[:600] + f" | pc: {[str(p)[:80] for p in co.pcs][:6]}"))
    # coverage: every feasible spec path must be met by some code path (totality of the comparison)
    return obs


def _model_text(mdl, limit=1500):
    try:
        parts = []
        for d in mdl.decls():
            if d.arity() == 0:
                parts.append(f"{d.name()} = {mdl[d]}")
        return "; ".join(parts)[:limit]
    except Exception:  # noqa: BLE001
        return ""


def check_bool_post(I, outs, oname, post_thunk_for, rlimit):
    """ensures-clauses evaluated on every returning path: post must be true."""
    obs = []
    return obs


# ----------------------------------------------------------------------------- mapper methods
def make_self(I: Interp, mc: MapperContract, mapper_cls, variant=None):
    selfv = SymObj(mapper_cls, {}, z3.Const("self", V))
    attrs = dict(mc.self_attrs)
    attrs.update(variant or {})
    for an, kind in attrs.items():
        if isinstance(kind, str):
            selfv.attrs[an] = make_input(I, f"self.{an}", kind)
        else:
            selfv.attrs[an] = Conc(kind[0])       # ("value",) concrete attribute
    for an, inv_fn in getattr(mc, "dict_invs", {}).items():
        d = selfv.attrs.get(an)
        if isinstance(d, SymDict):
            def inv(I, key, val, inv_fn=inv_fn, selfv=selfv):
                I.assume_path_bool(lambda: I.call_function(Conc(inv_fn), [selfv, key, val], {}))
            d.inv = inv
            I.track(d)
    I.track(selfv)
    return selfv


def verify_mapper_method(mc: MapperContract, node_cls, specs, rlimit=20_000_000, hooks=None, variant=None,
                         variant_name=""):
    """All obligations of `mapper.map_<K>` for node class K.  Returns dict(report)."""
    t0 = time.time()
    mapper_cls = loader.resolve(mc.mapper)
    foreign = isinstance(node_cls, str)
    if foreign:
        mn = {"<constant>": "map_constant", "<list>": "map_list", "<tuple>": "map_tuple"}[node_cls]
        tgt = (mn, getattr(mapper_cls, mn, None))
        if tgt[1] is None:
            tgt = None
        node_name = node_cls
    else:
        tgt = dispatch_target(mapper_cls, node_cls)
        if mc.methods:          # contract on a helper handler that is not the dispatch target (e.g. map_*_uncached)
            tgt = (mc.methods[0], getattr(mapper_cls, mc.methods[0]))
        node_name = node_cls.__name__
    rep = dict(contract=mc.name, node_class=node_name, obligations=[], status="ok",
               function=None, paths=0, time_s=0.0)
    if tgt is None:
        rep["status"] = "no-handler"
        return rep
    mname, meth = tgt
    fobj = loader.unwrap(meth)
    import pymbolic.mapper as _pm
    if getattr(mc, "skip_base_stubs", True) and mapper_cls is not _pm.Mapper and \
            getattr(_pm.Mapper, mname, None) is not None and loader.unwrap(getattr(_pm.Mapper, mname)) is fobj:
        # handler is the abstract stub of the Mapper base class: the class is not handled by this mapper;
        # "reported by raising" is obligation <stub>/raises below
        rep["status"] = "base-stub"
        rep["method"] = mname
        return rep
    try:
        info = loader.get_func_info(fobj)
    except TypeError as e:
        rep["status"] = "unsupported"
        rep["reason"] = str(e)
        return rep
    rep["function"] = info.describe()
    rep["method"] = mname
    oname = f"{mapper_cls.__name__}.{mname}[{node_name}]{variant_name}"
    ctx = smt.Ctx()
    I = Interp(ctx, class_table=list(node_class_table()))
    I.new_objects = []
    I.map_defs = {}
    I.map_info = {}
    for f in specs:
        install_spec(I, f)
    if hooks:
        hooks(I)
    try:
        I.empty_dict_symbolic = bool(getattr(mc, "dict_invs", None))
        selfv = make_self(I, mc, mapper_cls, variant)
        if foreign:
            et = z3.Const("expr", V)
            if node_cls == "<constant>":
                expr = SymV(et)
                ctx.assume(z3.Or(smt.tag(et) == smt.TAG_INT, smt.tag(et) == smt.TAG_BOOL,
                                 smt.tag(et) == smt.TAG_RAT, smt.tag(et) == smt.TAG_FLOAT))
            else:
                expr = SymSeq(z3.Const("expr_items", S), "list" if node_cls == "<list>" else "tuple")
        else:
            expr = I.sym_node(node_cls, z3.Const("expr", V))
            if mc.invariant is not None:
                assume_bool(I, lambda: I.call_function(Conc(mc.invariant), [expr], {}))
        sig = info.node.args
        star = z3.Const("args", S) if (sig.vararg is not None and mc.extra_args) else None
        dstar = SymMap(z3.Const("kwargs_keys", S), z3.Const("kwargs_vals", S)) if (sig.kwarg is not None and mc.extra_args) else None
        if dstar is not None:
            ctx.assume(z3.Length(dstar.keys) == z3.Length(dstar.vals))
        args_val = SymSeq(star, "tuple") if star is not None else PyTuple([])
        kw_val = dstar if dstar is not None else PyDict({})
        if mc.setup:
            mc.setup(I, selfv, expr)
            I.tracked = [t for t in I.tracked if t[0] is not selfv]
            I.track(selfv)
            # mutable values a setup installs as attributes carry path state of their own (write log of a symbolic dict ...)
            already = {id(t[0]) for t in I.tracked}
            for av in selfv.attrs.values():
                if isinstance(av, (SymDict, PyList, PyDict, SymSet)) and id(av) not in already:
                    I.track(av)

        def rec_handler(I, self_obj, args, kwargs, rstar, rdstar, node):
            x = args[0]
            extra = list(args[1:])
            if rstar is not None:
                a = SymSeq(z3.Concat(smt.seq_of(ctx, [I.lift(v) for v in extra]), rstar) if extra else rstar, "tuple")
            else:
                a = PyTuple(extra)
            if rdstar is not None:
                if kwargs:
                    k = SymMap(z3.Concat(smt.seq_of(ctx, [I.lift(Conc(kk)) for kk in kwargs]), rdstar.keys),
                               z3.Concat(smt.seq_of(ctx, [I.lift(v) for v in kwargs.values()]), rdstar.vals))
                else:
                    k = rdstar
            else:
                k = PyDict(kwargs)
            I.rec_calls.append((x, a, k))
            return I.call_function(Conc(mc.rec), [self_obj, x, a, k], {})
        I.rec_calls = []
        if selfv.rec_contract is None:
            selfv.rec_contract = NativeHandler(rec_handler)

        alternatives = [([], [], "")]
        if getattr(mc, "old", None) is not None:
            # entry-state expression (evaluated before the method runs), passed to every postcondition as its last argument;
            # when it branches (e.g. on membership in a symbolic table) the method is verified once per branch
            oouts = I.explore(lambda: I.call_function(Conc(mc.old), [selfv, expr, args_val, kw_val], {}))
            if not oouts or any(o.kind != "ret" for o in oouts):
                raise Unsupported("old-state expression must return a value on every path")
            alternatives = [(list(o.pcs), [o.value], f"/old{i}" if len(oouts) > 1 else "") for i, o in enumerate(oouts)]

        def run_code():
            return I.call_function(Conc(fobj), [selfv, expr], {}, star, dstar, owner=_owner_of(mapper_cls, mname))
        rep["paths"] = 0
        for alt_pcs, old_after, alt_sfx in alternatives:
            saved_pcs = len(I.pcs)
            I.pcs.extend(alt_pcs)
            code_outs = I.explore(run_code)
            rep["paths"] += len(code_outs)
            if mc.refines is not None:
                def run_spec():
                    I.unfold_top = foreign
                    try:
                        return I.call_function(Conc(mc.refines), [selfv, expr, args_val, kw_val], {})
                    finally:
                        I.unfold_top = False
                spec_outs = I.explore(run_spec)
                rep["obligations"] += [o.as_dict() for o in compare_outcomes(I, code_outs, spec_outs, oname + alt_sfx + "/refines", rlimit,
                                                                           effects=getattr(mc, "effects", False))]
            for ename, efn in mc.ensures:
                rep["obligations"] += [o.as_dict() for o in
                                       check_ensures(I, code_outs, efn, [selfv, expr, args_val, kw_val], f"{oname}{alt_sfx}/{ename}", rlimit,
                                                     after=old_after, allowed_exc=getattr(mc, "allowed_exc", (NotImplementedError,)))]
            if getattr(mc, "dict_invs", None):
                rep["obligations"] += [o.as_dict() for o in check_dict_writes(I, mc, selfv, code_outs, oname + alt_sfx, rlimit)]
            del I.pcs[saved_pcs:]
        # vacuity: the precondition/axiom set must be satisfiable
        r, _ = smt.check(ctx, [], rlimit=rlimit)
        rep["axioms_sat"] = r
        if r == "unsat":
            rep["status"] = "vacuous"
    except Unsupported as e:
        rep["status"] = "unsupported"
        rep["reason"] = str(e)
    except PyRaise as e:
        rep["status"] = "unsupported"
        rep["reason"] = f"python-level exception outside exploration: {e}"
    except Exception as e:  # noqa: BLE001
        rep["status"] = "engine-error"
        rep["reason"] = f"{type(e).__name__}: {e}"
        rep["traceback"] = traceback.format_exc()[-1500:]
    rep["time_s"] = time.time() - t0
    rep["solver_time_s"] = ctx.stats["time"]
    rep["queries"] = ctx.stats["queries"]
    return rep


def assume_bool(I, thunk):
    """Assume (as an axiom of this proof context) that a boolean contract expression holds."""
    outs = I.explore(thunk)
    disj = []
    for po in outs:
        if po.kind != "ret":
            continue
        t = I.truth(po.value)
        if t is False:
            continue
        parts = list(po.pcs) + ([] if t is True else [t])
        disj.append(z3.And(*parts) if parts else z3.BoolVal(True))
    I.ctx.assume(z3.Or(*disj) if disj else z3.BoolVal(False))


def check_dict_writes(I, mc, selfv, code_outs, oname, rlimit):
    """Object invariant of caches: every entry written satisfies the dict invariant; and frame:
    only the declared cache attributes of self are assigned."""
    obs = []
    allowed = set(mc.dict_invs) | set(getattr(mc, "may_assign", ()))
    for i, co in enumerate(code_outs):
        t0 = time.time()
        status, detail, model = "discharged", "", ""
        post_attrs = None
        for obj, snap in co.extra.get("state", []):
            if obj is selfv:
                post_attrs = snap
        writes = [g for g in co.extra.get("ghost", []) if g[0] == "dict-write"]
        saved = len(I.pcs)
        I.pcs.extend(co.pcs)
        try:
            for _, d, key, val in writes:
                an = next((a for a, v in (post_attrs or {}).items() if v is d), None)
                if an is None or an not in mc.dict_invs:
                    continue
                pouts = I.explore(lambda: I.call_function(Conc(mc.dict_invs[an]), [selfv, key, val], {}))
                for po in pouts:
                    if po.kind == "exc":
                        r, mdl = smt.check(I.ctx, I.pcs + po.pcs, rlimit=rlimit)
                        if r != "unsat":
                            status, detail = "refuted" if r == "sat" else "undecided", f"invariant undefined for written entry ({po.value!r})"
                            model = _model_text(mdl) if r == "sat" else ""
                        continue
                    t = I.truth(po.value)
                    if t is True:
                        continue
                    neg = z3.BoolVal(True) if t is False else z3.Not(t)
                    r, mdl = smt.check(I.ctx, I.pcs + po.pcs + [neg], rlimit=rlimit)
                    if r == "sat":
                        status, detail, model = "refuted", f"path {i}: entry written to {an} violates the cache invariant", _model_text(mdl)
                    elif r == "unknown" and status == "discharged":
                        status, detail = "undecided", str(mdl)
            bad = [w for w in co.extra.get("writes", []) if w[0] is selfv and w[1] not in allowed]
            if bad and status == "discharged":
                r, mdl = smt.check(I.ctx, I.pcs, rlimit=rlimit)
                if r != "unsat":
                    status, detail = "refuted", f"path {i}: assigns self.{bad[0][1]} (frame: only {sorted(allowed)})"
        finally:
            del I.pcs[saved:]
        obs.append(Obligation(f"{oname}/cache-inv+frame/path{i}", status, "z3", time.time() - t0, detail, model,
                              goal=f"every entry written to {sorted(mc.dict_invs)} satisfies the invariant; assigns only {sorted(allowed)}"))
    return obs


def _owner_of(cls, name):
    for k in cls.__mro__:
        if name in k.__dict__:
            return k
    return None


def check_ensures(I, code_outs, efn, base_args, oname, rlimit, on_exc=False, after=(), allowed_exc=()):
    """Boolean postcondition on every returning path of the code; a feasible path on which the code itself raises an
    exception of a known class that the contract does not mention is reported as undecided (never silently skipped,
    never a violation by itself).  Errors propagated from callee contracts are outside the postcondition."""
    obs = []
    for i, co in enumerate(code_outs):
        if co.kind != "ret" and not on_exc:
            k = co.value.kind
            if k is None:
                continue        # an error propagated from a callee / the induction hypothesis (unknown class): the postcondition speaks of returns
            if any(issubclass(k, a) for a in allowed_exc):
                continue
            r, _ = smt.check(I.ctx, I.pcs + co.pcs, rlimit=rlimit)
            if r != "unsat":
                obs.append(Obligation(f"{oname}/no-unexpected-exception/path{i}", "undecided", "z3", 0.0,
                                      f"the code can raise {co.value!r} on a path the contract does not describe", "",
                                      goal="every path returns (or raises an error the contract names)"))
            continue
        t0 = time.time()
        saved = len(I.pcs)
        I.pcs.extend(co.pcs)
        I.current_ghost = co.extra.get("ghost", [])
        saved_tracked = I.tracked
        if co.extra.get("state"):
            I.tracked = list(co.extra["state"])     # the path's post-state is the base state while the postcondition runs
        I.restore_tracked()
        status, detail, model = "discharged", "", ""
        try:
            def run_post():
                return I.call_function(Conc(efn), [*base_args, co.value, *after], {})
            pouts = I.explore(run_post)
            for po in pouts:
                if po.kind == "exc":
                    r, mdl = smt.check(I.ctx, I.pcs + po.pcs, rlimit=rlimit)
                    if r != "unsat":
                        status, detail = "undecided", f"postcondition raised {po.value!r}"
                    continue
                t = I.truth(po.value)
                if t is True:
                    continue
                neg = z3.BoolVal(True) if t is False else z3.Not(t)
                r, mdl = smt.check(I.ctx, I.pcs + po.pcs + [neg], rlimit=rlimit)
                if r == "sat":
                    status, detail, model = "refuted", f"path {i}: post false", _model_text(mdl)
                    break
                if r == "unknown":
                    status, detail = "undecided", f"solver unknown: {mdl}"
        finally:
            del I.pcs[saved:]
            I.tracked = saved_tracked
        obs.append(Obligation(f"{oname}/path{i}", status, "z3", time.time() - t0, detail, model,
                              goal=f"ensures {getattr(efn, '__name__', '?')} | pc: {[str(p)[:80] for p in co.pcs][:6]}"))
    return obs


# ----------------------------------------------------------------------------- plain functions
def verify_function(fc: FunctionContract, specs, rlimit=20_000_000, hooks=None):
    t0 = time.time()
    rep = dict(contract=fc.name, obligations=[], status="ok", function=None, paths=0, time_s=0.0)
    ctx = smt.Ctx()
    I = Interp(ctx, class_table=list(node_class_table()))
    I.new_objects = []
    I.map_defs = {}
    I.map_info = {}
    for f in specs:
        install_spec(I, f)
    if hooks:
        hooks(I)
    try:
        target = loader.resolve(fc.target) if isinstance(fc.target, str) else fc.target
        fobj = loader.unwrap(target)
        info = loader.get_func_info(fobj)
        rep["function"] = info.describe()
        oname = fc.name
        if fc.arithmetic:
            I.op_may_raise = False
        from . import loops as _loops
        _loops.install_lemmas(I)
        I.extra_obligations = []
        star = dstar = None
        plain = []
        for n, k in fc.params:
            if k == "star":
                star = z3.Const(n, S)
            elif k == "dstar":
                dstar = SymMap(z3.Const(n + "_keys", S), z3.Const(n + "_vals", S))
                ctx.assume(z3.Length(dstar.keys) == z3.Length(dstar.vals))
            else:
                plain.append((n, k))
        inputs = [make_input(I, n, k) for n, k in plain]
        for v in inputs:
            if isinstance(v, (SymObj, SymDict, PyList, PyDict, SymSet, SymNode)):
                I.track(v)
        for tpath, cfn in (fc.assume or {}).items():
            install_assumed(I, loader.unwrap(loader.resolve(tpath)), cfn)
        if fc.setup:
            fc.setup(I, inputs)
            # what setup installed (fields, attributes) is part of the initial state of every path
            for v in inputs:
                if isinstance(v, (SymObj, SymDict, PyList, PyDict, SymSet, SymNode)):
                    I.tracked = [t for t in I.tracked if t[0] is not v]
                    I.track(v)
        spec_inputs = list(inputs)
        if star is not None:
            spec_inputs.append(SymSeq(star, "tuple"))
        if dstar is not None:
            spec_inputs.append(dstar)
        # precondition
        pre_pcs = []
        if fc.requires is not None:
            pouts = I.explore(lambda: I.call_function(Conc(fc.requires), spec_inputs, {}))
            disj = []
            for po in pouts:
                if po.kind != "ret":
                    continue
                t = I.truth(po.value)
                if t is False:
                    continue
                disj.append(z3.And(*po.pcs, *( [] if t is True else [t])) if (po.pcs or t is not True) else z3.BoolVal(True))
            pre = z3.Or(*disj) if disj else z3.BoolVal(False)
            pre_pcs = [pre]
            r, _ = smt.check(ctx, pre_pcs, rlimit=rlimit)
            rep["requires_sat"] = r
            if r == "unsat":
                rep["status"] = "vacuous"
                return rep
        I.pcs.extend(pre_pcs)
        if fc.loops:
            pnames = [a.arg for a in info.node.args.args]
            olds = dict(zip(pnames, inputs))
            _loops.install(I, fc.loops, fc.name, lambda: olds)
        if fc.old is not None:
            oouts = I.explore(lambda: I.call_function(Conc(fc.old), spec_inputs, {}))
            if len(oouts) != 1 or oouts[0].kind != "ret":
                raise Unsupported("old-state expression must be a single-path value")
            old_val = oouts[0].value
        def run_code():
            saved = I.contracts.pop(id(fobj), None)      # the function under proof runs its real body ...
            I.top_frame_contract = (id(fobj), saved)     # ... and its own contract applies to recursive calls only
            try:
                return I.call_function(Conc(fobj), inputs, {}, star, dstar)
            finally:
                if saved is not None:
                    I.contracts[id(fobj)] = saved
        code_outs = I.explore(run_code)
        rep["paths"] = len(code_outs)
        if fc.refines is not None:
            spec_outs = I.explore(lambda: I.call_function(Conc(fc.refines), spec_inputs, {}))
            rep["obligations"] += [o.as_dict() for o in compare_outcomes(I, code_outs, spec_outs, oname + "/refines", rlimit,
                                                                       effects=getattr(fc, "effects", False))]
        for ename, efn in fc.ensures:
            rep["obligations"] += [o.as_dict() for o in check_ensures(I, code_outs, efn, spec_inputs, f"{oname}/{ename}", rlimit,
                                                                     after=([old_val] if fc.old is not None else []),
                                                                     allowed_exc=tuple(x[2] for x in fc.raises) + tuple(getattr(fc, "allowed_exc", ())))]
        for rname, cond, exc_cls in fc.raises:
            rep["obligations"] += [o.as_dict() for o in check_raises(I, code_outs, cond, exc_cls, spec_inputs, f"{oname}/{rname}", rlimit)]
        if getattr(fc, "dict_invs", None):
            class _MC:
                dict_invs = fc.dict_invs
                may_assign = getattr(fc, "may_assign", ())
            rep["obligations"] += [o.as_dict() for o in check_dict_writes(I, _MC, inputs[0], code_outs, oname, rlimit)]
        extra = getattr(I, "extra_obligations", [])
        rep["obligations"] += [o.as_dict() for o in extra]
        del I.pcs[:]
    except Unsupported as e:
        rep["status"] = "unsupported"
        rep["reason"] = str(e)
    except PyRaise as e:
        rep["status"] = "unsupported"
        rep["reason"] = f"python-level exception outside exploration: {e}"
    except Exception as e:  # noqa: BLE001
        rep["status"] = "engine-error"
        rep["reason"] = f"{type(e).__name__}: {e}"
        rep["traceback"] = traceback.format_exc()[-1500:]
    rep["time_s"] = time.time() - t0
    rep["solver_time_s"] = ctx.stats["time"]
    rep["queries"] = ctx.stats["queries"]
    return rep


def check_raises(I, code_outs, cond, exc_cls, inputs, oname, rlimit):
    """`cond(inputs)` holds  <=>  the call raises exc_cls (both directions, per path)."""
    obs = []
    couts = I.explore(lambda: I.call_function(Conc(cond), inputs, {}))
    cond_t = []
    for po in couts:
        if po.kind != "ret":
            continue
        t = I.truth(po.value)
        if t is False:
            continue
        cond_t.append(z3.And(*po.pcs, *([] if t is True else [t])) if (po.pcs or t is not True) else z3.BoolVal(True))
    c = z3.Or(*cond_t) if cond_t else z3.BoolVal(False)
    for i, co in enumerate(code_outs):
        t0 = time.time()
        raised = co.kind == "exc" and co.value.kind is not None and issubclass(co.value.kind, exc_cls)
        goal = c if raised else z3.Not(c)
        if co.kind == "exc" and co.value.kind is None:
            status, detail, model = "undecided", "unknown exception kind", ""
        else:
            r, mdl = smt.check(I.ctx, I.pcs + co.pcs + [z3.Not(goal)], rlimit=rlimit)
            status = {"unsat": "discharged", "sat": "refuted"}.get(r, "undecided")
            detail = "" if r == "unsat" else f"path {i} {'raises' if raised else 'does not raise'} {exc_cls.__name__}"
            model = _model_text(mdl) if r == "sat" else ""
        obs.append(Obligation(f"{oname}/path{i}", status, "z3", time.time() - t0, detail, model,
                              goal=f"raises {exc_cls.__name__} iff cond"))
    return obs

"""Symbolic meaning of the structural helpers of pyvc.api (children, map_children, ...)."""
from __future__ import annotations

import dataclasses

import z3

from . import api, loader, smt
from .smt import S, V, Bool, Int, fn
from .values import *  # noqa: F403


def install(I):
    H = I.builtin_handlers

    def _children(I, args, kw, star, dstar, node):
        (e,) = args
        if isinstance(e, SymSeq):
            return SymSeq(e.t, "list")
        if isinstance(e, (PyTuple, PyList)):
            return PyList(e.items)
        if not isinstance(e, SymNode):
            raise Unsupported("children() of a node of unknown class")
        parts = []
        cfs = loader.child_fields(e.cls)
        if all(h == "one" for h in cfs.values()):
            return PyList([e.fields[n] for n in cfs])
        for name, how in cfs.items():
            v = e.fields[name]
            if how == "one":
                parts.append(z3.Unit(I.lift(v)))
            elif how == "many":
                parts.append(I.as_seq(v))
            else:
                if isinstance(v, PyDict):
                    parts.append(smt.seq_of(I.ctx, [I.lift(x) for x in v.d.values()]))
                else:
                    parts.append(v.vals)
        if not parts:
            return PyList([])
        return SymSeq(parts[0] if len(parts) == 1 else z3.Concat(*parts), "list")
    H[api.children] = _children

    def _map_children(I, args, kw, star, dstar, node):
        e, f = args
        if isinstance(e, SymSeq):
            r = I.map_over_fn(node, [e.t], lambda bvals, f=f: I.call(f, [bvals[0]], {}), tag="mc")
            return SymSeq(r.t, e.kind)
        if not isinstance(e, SymNode):
            raise Unsupported("map_children() of a node of unknown class")
        cf = loader.child_fields(e.cls)
        import pymbolic.primitives as p
        guard_none = e.cls is p.Slice or issubclass(e.cls, p.Slice)
        vals = {}
        for fld in dataclasses.fields(e.cls):
            v = e.fields[fld.name]
            how = cf.get(fld.name)
            if how == "one":
                v = I.call(f, [v], {})
            elif how == "many":
                def body(bvals, f=f):
                    c = bvals[0]
                    if guard_none and I.is_true(I.compare("is", c, Conc(None))):
                        return Conc(None)
                    return I.call(f, [c], {})
                ci = I.concrete_iter(v)
                if ci is not None:
                    v = PyTuple([body([c]) for c in ci])
                else:
                    r = I.map_over_fn(node, [I.as_seq(v)], body, tag="mc")
                    v = SymSeq(r.t, "tuple")
            elif how == "mapvals":
                if isinstance(v, PyDict):
                    v = PyDict({k: I.call(f, [c], {}) for k, c in v.d.items()})
                else:
                    r = I.map_over_fn(node, [v.vals], lambda bvals, f=f: I.call(f, [bvals[0]], {}), tag="mv")
                    v = SymMap(v.keys, r.t, "immutabledict")
            vals[fld.name] = v
        return I.construct_node(e.cls, [], vals, node)
    H[api.map_children] = _map_children

    def _fields_identical(I, args, kw, star, dstar, node):
        a, b = args
        if isinstance(a, SymSeq) and isinstance(b, SymSeq):
            if a.kind != b.kind:
                return Conc(False)
            return SymBool(a.t == b.t)
        if isinstance(a, SymSeq) or isinstance(b, SymSeq):
            o = b if isinstance(a, SymSeq) else a
            sq = a if isinstance(a, SymSeq) else b
            if isinstance(o, SymV):
                box = smt.box_tup if sq.kind == "tuple" else smt.box_list
                unb = smt.unbox_tup if sq.kind == "tuple" else smt.unbox_list
                tg = smt.TAG_TUPLE if sq.kind == "tuple" else smt.TAG_LIST
                return SymBool(z3.And(smt.tag(o.t) == tg, unb(o.t) == sq.t))
            return Conc(False)
        if not (isinstance(a, SymNode) and isinstance(b, SymNode)):
            # a generic object against a node of known class: class and projections
            known, other = (a, b) if isinstance(a, SymNode) else (b, a)
            if isinstance(known, SymNode) and isinstance(other, (Conc, SymInt, SymBool, SymStr, PyTuple, PyList, SymSeq)):
                return Conc(False)
            if not isinstance(known, SymNode) or not isinstance(other, SymV):
                raise Unsupported("fields_identical needs a node of known class")
            t = other.t
            conj = [smt.tag(t) == smt.TAG_NODE, smt.cls_of(t) == I.cls_id(known.cls)]
            o = I.sym_node(known.cls, t, assume_facts=False)
            # sym_node assumes the class facts; here they are part of the *claim*, so build projections only
            a, b = known, o
            pre = conj
        else:
            pre = []
            if a.cls is not b.cls:
                return Conc(False)
        conj = list(pre)
        for name in a.fields:
            r = I.identical(a.fields[name], b.fields[name])
            if r is False:
                return Conc(False)
            if r is not True:
                conj.append(r)
        return SymBool(z3.And(*conj)) if conj else Conc(True)
    H[api.fields_identical] = _fields_identical

    def _same_elements(I, args, kw, star, dstar, node):
        a, b = args
        sa, sb = I.as_seq(a), I.as_seq(b)
        w = fn("elem_weight", V, Int)
        W = fn("seq_weight", S, Int)

        def weight(sq):
            k = sq.decl().kind()
            if k == z3.Z3_OP_SEQ_EMPTY:
                return z3.IntVal(0)
            if k == z3.Z3_OP_SEQ_UNIT:
                return w(sq.arg(0))
            if k == z3.Z3_OP_SEQ_CONCAT:
                return z3.Sum([weight(c) for c in sq.children()])
            return W(sq)
        # equal weighted sums for an arbitrary weight function  <=>  equal multisets
        return SymBool(z3.And(weight(z3.simplify(sa)) == weight(z3.simplify(sb)), z3.Length(sa) == z3.Length(sb)))
    H[api.same_elements] = _same_elements

    def _child_fields(I, args, kw, star, dstar, node):
        return Conc(api.child_fields(args[0].obj))
    H[api.child_fields] = _child_fields

    def _same(I, args, kw, star, dstar, node):
        r = I.identical(args[0], args[1])
        return Conc(r) if isinstance(r, bool) else SymBool(r)
    H[api.same] = _same

    def _implies(I, args, kw, star, dstar, node):
        a = I.truth(args[0])
        b = I.truth(args[1])
        if a is False or b is True:
            return Conc(True)
        if a is True:
            return Conc(b) if isinstance(b, bool) else SymBool(b)
        if b is False:
            return SymBool(z3.Not(a))
        return SymBool(z3.Implies(a, b))
    H[api.implies] = _implies

    def _is_fresh(I, args, kw, star, dstar, node):
        (o,) = args
        return SymBool(fn("alloc_id", V, Int)(I.lift(o)) > 0)
    H[api.is_fresh] = _is_fresh


    from . import effects

    def _emit(I, args, kw, star, dstar, node):
        effects.event(I, args[0].obj, args[1:])
        return Conc(None)
    H[api.emit] = _emit

    def _for_each(I, args, kw, star, dstar, node):
        seqv, f = args
        effects.foreach_children(I, node, seqv, lambda c: I.call(f, [c], {}))
        return Conc(None)
    H[api.for_each] = _for_each
    effects.install_for_hook(I)
    I.foreach_info = {}

    def _combine_calls(I, args, kw, star, dstar, node):
        out = []
        for g in getattr(I, "current_ghost", []):
            if g[0] == "combine":
                out.append(PyTuple([g[1], g[2]]))
        return PyList(out)
    try:
        from contracts import c04
        H[c04.combine_calls] = _combine_calls
    except ImportError:
        pass

    def _union_all(I, args, kw, star, dstar, node):
        (v,) = args
        ci = I.concrete_iter(v)
        if ci is not None:
            t = z3.EmptySet(V)
            for x in ci:
                t = z3.SetUnion(t, I.as_set(x))
            return SymSet(t)
        return SymSet(z3.SetUnion(z3.EmptySet(V), I.union_of_seq(I.as_seq(v))))
    H[api.union_all] = _union_all

    def _ite(I, args, kw, star, dstar, node):
        c, a, b = args
        t = I.truth(c)
        if isinstance(t, bool):
            return a if t else b
        if isinstance(a, SymBV) or isinstance(b, SymBV):
            w = (a if isinstance(a, SymBV) else b).t.size()
            ta = a.t if isinstance(a, SymBV) else z3.BitVecVal(a.obj, w)
            tb = b.t if isinstance(b, SymBV) else z3.BitVecVal(b.obj, w)
            return SymBV(z3.If(t, ta, tb))
        ia, ib = I.as_int(a), I.as_int(b)
        if ia is not None and ib is not None:
            return SymInt(z3.If(t, ia, ib))
        return SymV(z3.If(t, I.lift(a), I.lift(b)))
    H[api.ite] = _ite

    def _to_int(I, args, kw, star, dstar, node):
        (x,) = args
        if isinstance(x, SymBV):
            return SymInt(z3.BV2Int(x.t))
        if isinstance(x, (SymInt, Conc)):
            return x
        raise Unsupported("to_int")
    H[api.to_int] = _to_int

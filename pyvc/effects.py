"""Ghost event log: effects of abstract callbacks (visit / post_visit / rec in walk-style mappers),
lifting of effect-only loops over symbolic sequences, and comparison of two logs."""
from __future__ import annotations

import ast

import z3

from . import smt
from .smt import S, V, Bool, Int, fn
from .values import *  # noqa: F403

EV_NONE = z3.Const("ev_none", V)
ev_weight = fn("ev_weight", V, Int)


def event(I, name, vals):
    """Append event name(vals...) to the log; returns its term."""
    ts = []
    for v in vals:
        if isinstance(v, SymMap):
            ts += [v.keys, v.vals]
        elif isinstance(v, PyDict):
            ts += [smt.seq_of(I.ctx, [I.lift(Conc(k)) for k in v.d]), smt.seq_of(I.ctx, [I.lift(x) for x in v.d.values()])]
        elif isinstance(v, (SymSeq, PyTuple, PyList)):
            ts.append(I.as_seq(v))
        else:
            ts.append(I.lift(v))
    t = fn(f"ev_{name}", *[x.sort() for x in ts], V)(*ts)
    I.effects.append(t)
    return t


def native_post_optional():
    return None


def pack_args(I, args, kwargs, star, dstar):
    """(positional Seq value, keyword SymMap/PyDict) of a call with possibly symbolic star parts."""
    if star is not None:
        a = SymSeq(z3.Concat(smt.seq_of(I.ctx, [I.lift(v) for v in args]), star) if args else star, "tuple")
    else:
        a = PyTuple(list(args))
    if dstar is not None:
        if kwargs:
            k = SymMap(z3.Concat(smt.seq_of(I.ctx, [I.lift(Conc(kk)) for kk in kwargs]), dstar.keys),
                       z3.Concat(smt.seq_of(I.ctx, [I.lift(v) for v in kwargs.values()]), dstar.vals))
        else:
            k = dstar
    else:
        k = PyDict(kwargs)
    return a, k


def install_for_hook(I):
    """Effect-only `for x in <symbolic seq>: <calls>` is lifted to one foreach event."""
    def for_hook(I, s, it, env):
        if s.orelse:
            return False
        for st in s.body:
            for sub in ast.walk(st):
                if isinstance(sub, (ast.Assign, ast.AugAssign, ast.AnnAssign, ast.Return, ast.Break, ast.Continue,
                                    ast.For, ast.While, ast.Try, ast.Raise, ast.NamedExpr, ast.Delete, ast.With)):
                    return False
        seqs, shape = I.iter_parts(it)
        from .interp import Env
        bvs = [z3.Const(I.fresh_name(s, f"fe{i}"), V) for i in range(len(seqs))]
        e2 = Env({}, env)
        if shape == "zip":
            I.bind_target(s.target, PyTuple([SymV(b) for b in bvs]), e2)
        else:
            I.bind_target(s.target, SymV(bvs[0]), e2)

        def body():
            I.exec_block(s.body, e2)
            return Conc(None)
        save_pure = I.pure_depth
        outs = I.explore(body)
        if any(o.kind == "exc" for o in outs):
            raise Unsupported("effect loop body may raise")
        terms = merge_effects(outs)
        emit_foreach(I, s, bvs, seqs, terms)
        return True
    I.builtin_handlers["__for_hook__"] = for_hook


def merge_effects(outs):
    """Per-iteration effect list as ITE-merged event terms (positions aligned across body paths)."""
    n = max((len(o.effects) for o in outs), default=0)
    terms = []
    for i in range(n):
        t = EV_NONE
        for o in outs:
            if i < len(o.effects):
                pc = z3.And(*o.pcs) if o.pcs else z3.BoolVal(True)
                t = z3.If(pc, o.effects[i], t)
        terms.append(z3.simplify(t))
    return terms


def emit_foreach(I, node, bvs, seqs, terms):
    if not terms:
        return
    free = I.free_consts(terms, bvs)
    key, txt = I.canon_key(terms, bvs, free)
    args = list(seqs) + free
    t = fn(f"ev_foreach!{key}", *[a.sort() for a in args], V)(*args)
    I.foreach_info[t.get_id()] = dict(bvs=bvs, seqs=seqs, terms=terms, term=t)
    I.effects.append(t)


def foreach_children(I, node, seq_val, fn_body):
    """Spec-side: apply an effectful body to every element of a sequence value."""
    ci = I.concrete_iter(seq_val)
    if ci is not None:
        for c in ci:
            fn_body(c)
        return
    sq = I.as_seq(seq_val)
    sq = z3.simplify(sq) if sq.decl().kind() == z3.Z3_OP_SEQ_CONCAT else sq
    k = sq.decl().kind()
    if k in (z3.Z3_OP_SEQ_CONCAT, z3.Z3_OP_SEQ_UNIT, z3.Z3_OP_SEQ_EMPTY):
        for part in (sq.children() if k == z3.Z3_OP_SEQ_CONCAT else [sq]):
            pk = part.decl().kind()
            if pk == z3.Z3_OP_SEQ_EMPTY:
                continue
            if pk == z3.Z3_OP_SEQ_UNIT:
                fn_body(SymV(part.arg(0)))
            else:
                foreach_children(I, node, SymSeq(part, "list"), fn_body)
        return
    bv = z3.Const(I.fresh_name(node, "fs0"), V)
    outs = I.explore(lambda: (fn_body(SymV(bv)), Conc(None))[1])
    if any(o.kind == "exc" for o in outs):
        raise Unsupported("spec effect body may raise")
    emit_foreach(I, node, [bv], [sq], merge_effects(outs))


def expand(I, events, pcs, rlimit):
    """Unroll foreach events whose sequence length is fixed (<= 4) by the path condition."""
    out = []
    for t in events:
        info = I.foreach_info.get(t.get_id())
        if info is None:
            out.append(t)
            continue
        sq = info["seqs"][0]
        n_fixed = None
        for n in range(0, 5):
            r, _ = smt.check(I.ctx, list(pcs) + [z3.Length(sq) != n], rlimit=rlimit)
            if r == "unsat":
                n_fixed = n
                break
        if n_fixed is None:
            out.append(t)
            continue
        for i in range(n_fixed):
            subs = [(b, s[i]) for b, s in zip(info["bvs"], info["seqs"])]
            for bt in info["terms"]:
                out.append(z3.simplify(z3.substitute(bt, *subs)))
    return out


def weight_sum(I, events):
    I.ctx.assume(ev_weight(EV_NONE) == 0)
    if not events:
        return z3.IntVal(0)
    return z3.Sum([weight_of(e) for e in events])


def weight_of(t):
    if z3.is_app(t) and t.decl().kind() == z3.Z3_OP_ITE:
        return z3.If(t.arg(0), weight_of(t.arg(1)), weight_of(t.arg(2)))
    if z3.eq(t, EV_NONE):
        return z3.IntVal(0)
    return ev_weight(t)


def logs_equivalent(I, code_events, spec_events, pcs, rlimit, first_fixed=True, last_fixed=True):
    """Obligation formula: same first event, same last event, same multiset in between
    (the order in which children are traversed is not pinned)."""
    ce = expand(I, code_events, pcs, rlimit)
    se = expand(I, spec_events, pcs, rlimit)
    conj = []
    # an optional trailing post event of the spec ("post?"): present in the code or not
    if se and se[-1].decl().name() == "ev_post?":
        opt = se[-1]
        se = se[:-1]
        if ce and ce[-1].decl().name() == "ev_post" and all(z3.eq(a, b) for a, b in zip(ce[-1].children(), opt.children())):
            ce = ce[:-1]
    if first_fixed and se:
        if not ce:
            return z3.BoolVal(False)
        conj.append(ce[0] == se[0])
        ce, se = ce[1:], se[1:]
    if last_fixed and se and se[-1].decl().name().startswith("ev_post"):
        if not ce:
            return z3.BoolVal(False)
        conj.append(ce[-1] == se[-1])
        ce, se = ce[:-1], se[:-1]
    conj.append(weight_sum(I, ce) == weight_sum(I, se))
    return z3.And(*conj)

"""Loading the real code: function object -> AST of the text that runs.

Nothing is hand copied: the function object is resolved at run time from the imported
working tree, its source file is re-read and re-parsed on every run, and for functions
that only exist as generated text (`_MODULE_SOURCE_CODE`) the text is recompiled and the
byte code compared with the function object that actually runs.
"""
from __future__ import annotations

import ast
import hashlib
import importlib
import inspect
import types

_FILE_CACHE: dict = {}
_AST_CACHE: dict = {}


def resolve(path: str):
    """'pkg.mod:Cls.attr' -> object (through the real MRO)."""
    mod, _, qual = path.partition(":")
    obj = importlib.import_module(mod)
    for part in qual.split("."):
        if part:
            obj = getattr(obj, part)
    return obj


def _parse_file(filename):
    if filename not in _FILE_CACHE:
        with open(filename) as f:
            src = f.read()
        _FILE_CACHE[filename] = (src, ast.parse(src, filename))
    return _FILE_CACHE[filename]


def unwrap(fn):
    """Strip decorators that the extraction treats as binding rules only."""
    while True:
        if isinstance(fn, (staticmethod, classmethod)):
            fn = fn.__func__
        elif isinstance(fn, property):
            fn = fn.fget
        elif hasattr(fn, "__wrapped__"):
            fn = fn.__wrapped__
        elif isinstance(fn, types.MethodType):
            fn = fn.__func__
        else:
            return fn


class FuncInfo:
    def __init__(self, fn, node, source, filename, generated=False, bytecode_checked=None):
        self.fn = fn
        self.node = node
        self.source = source
        self.filename = filename
        self.generated = generated
        self.bytecode_checked = bytecode_checked
        self.sha256 = hashlib.sha256(source.encode()).hexdigest()

    def describe(self):
        return {
            "function": f"{self.fn.__module__}:{self.fn.__qualname__}",
            "file": self.filename,
            "line": getattr(self.node, "lineno", None),
            "sha256": self.sha256[:16],
            "generated_text": self.generated,
            "bytecode_equal": self.bytecode_checked,
        }


def _find_def(tree, code):
    name = code.co_name
    line = code.co_firstlineno
    best = None
    lambdas = []
    for n in ast.walk(tree):
        if isinstance(n, (ast.FunctionDef, ast.AsyncFunctionDef)) and n.name == name:
            first = n.decorator_list[0].lineno if n.decorator_list else n.lineno
            if first == line or n.lineno == line:
                return n
            if best is None:
                best = n
        elif isinstance(n, ast.Lambda) and name == "<lambda>" and n.lineno == line:
            lambdas.append(n)
    if lambdas:
        if len(lambdas) == 1:
            return lambdas[0]
        # several lambdas on one line: the one whose compiled byte code is that of the function object
        for n in lambdas:
            try:
                c = compile(ast.Expression(body=n), "<lambda-match>", "eval")
                inner = [k for k in c.co_consts if isinstance(k, types.CodeType)]
                if inner and inner[0].co_code == code.co_code and inner[0].co_names == code.co_names \
                        and inner[0].co_varnames == code.co_varnames \
                        and [k for k in inner[0].co_consts if not isinstance(k, types.CodeType)] == [k for k in code.co_consts if not isinstance(k, types.CodeType)]:
                    return n
            except Exception:  # noqa: BLE001
                pass
        # same position information as a last resort
        try:
            pos = next(iter(code.co_positions()))
        except Exception:  # noqa: BLE001
            pos = None
        for n in lambdas:
            if pos and n.col_offset <= (pos[2] or 0) <= (n.end_col_offset or 10**9):
                return n
        return lambdas[0]
    return best


def _code_equal(c1, c2):
    if c1.co_code != c2.co_code or c1.co_names != c2.co_names or c1.co_varnames != c2.co_varnames:
        return False
    k1 = [c for c in c1.co_consts if not isinstance(c, types.CodeType)]
    k2 = [c for c in c2.co_consts if not isinstance(c, types.CodeType)]
    if repr(k1) != repr(k2):
        return False
    s1 = [c for c in c1.co_consts if isinstance(c, types.CodeType)]
    s2 = [c for c in c2.co_consts if isinstance(c, types.CodeType)]
    return len(s1) == len(s2) and all(_code_equal(a, b) for a, b in zip(s1, s2))


def get_func_info(fn) -> FuncInfo:
    fn = unwrap(fn)
    if not isinstance(fn, types.FunctionType):
        raise TypeError(f"not a python function: {fn!r}")
    key = id(fn.__code__)
    if key in _AST_CACHE:
        return _AST_CACHE[key]
    code = fn.__code__
    filename = code.co_filename
    generated = False
    checked = None
    if filename.startswith("<"):
        src = fn.__globals__.get("_MODULE_SOURCE_CODE")
        if src is None:
            raise TypeError(f"no source for generated function {fn.__qualname__} ({filename})")
        tree = ast.parse(src)
        generated = True
        # the text must be the code that runs: recompile and compare byte code
        mod_code = compile(src, filename, "exec")
        checked = False
        stack = [mod_code]
        while stack:
            c = stack.pop()
            for k in c.co_consts:
                if isinstance(k, types.CodeType):
                    if k.co_name == code.co_name and k.co_firstlineno == code.co_firstlineno:
                        checked = _code_equal(k, code)
                    stack.append(k)
    else:
        src, tree = _parse_file(filename)
    node = _find_def(tree, code)
    if node is None:
        raise TypeError(f"cannot locate source of {fn.__qualname__} in {filename}")
    seg = ast.get_source_segment(src, node) or ""
    info = FuncInfo(fn, node, seg, filename, generated, checked)
    _AST_CACHE[key] = info
    return info


def field_kinds(cls):
    """Field name -> kind ('v','seq','map','str') from the dataclass field *annotations*
    of the real class."""
    import dataclasses
    out = {}
    for k in cls.__mro__:
        if "_is_expr_dataclass" in k.__dict__:
            break
        names = k.__dict__.get("init_arg_names")
        if isinstance(names, tuple):
            # legacy node (init-args protocol), possibly extending a decorated class
            base = {}
            if dataclasses.is_dataclass(cls):
                base = {f.name: annotation_kind(f.type) for f in dataclasses.fields(cls)}
            return {n: base.get(n, "v") for n in names}
    if not dataclasses.is_dataclass(cls):
        raise TypeError(f"{cls.__name__}: neither an expression dataclass nor a legacy class with static init_arg_names")
    for f in dataclasses.fields(cls):
        out[f.name] = annotation_kind(f.type)
    return out


def annotation_kind(ann) -> str:
    a = ann if isinstance(ann, str) else getattr(ann, "__name__", str(ann))
    a = a.replace(" ", "").replace("\n", "")
    if a.startswith("(") and a.endswith(")"):
        a = a[1:-1]
    if a.startswith("tuple["):
        return "seq"
    if a.startswith("Mapping[") or a.startswith("dict["):
        return "map"
    if a == "str":
        return "str"
    return "v"


def child_fields(cls):
    """The child-bearing fields of a node class, from field annotations only
    (independent of any traversal): name -> 'one' | 'many' | 'mapvals'."""
    import dataclasses
    out = {}
    for f in dataclasses.fields(cls):
        a = f.type if isinstance(f.type, str) else str(f.type)
        a = a.replace(" ", "").replace("\n", "")
        if "ExpressionT" not in a:
            continue
        if a.startswith("(") and a.endswith(")"):
            a = a[1:-1]
        if a.startswith("tuple["):
            out[f.name] = "many"
        elif a.startswith("Mapping["):
            out[f.name] = "mapvals"
        else:
            out[f.name] = "one"
    return out

"""SMT vocabulary of PyVC: sorts, boxed Python values, operator symbols, axioms-on-demand.

Python objects are elements of the uninterpreted sort V.  z3 equality on V is
*object identity* (`is`); Python's `==` is the separate relation/op py_eq.
Tuples/lists of symbolic length are z3 sequences over V.  Everything here is
quantifier free: axioms are instantiated when a term is created (Ctx.axioms).
"""
from __future__ import annotations

import z3

V = z3.DeclareSort("V")
S = z3.SeqSort(V)
Str = z3.StringSort()
Int = z3.IntSort()
Bool = z3.BoolSort()
Real = z3.RealSort()
SetV = z3.SetSort(V)

_F: dict = {}


def fn(name, *sorts):
    key = (name, tuple(s.sexpr() if hasattr(s, "sexpr") else str(s) for s in sorts))
    f = _F.get(key)
    if f is None:
        f = z3.Function(name, *sorts)
        _F[key] = f
    return f


# tags of V
TAG_NONE, TAG_INT, TAG_BOOL, TAG_STR, TAG_TUPLE, TAG_LIST, TAG_NODE, TAG_OBJ, TAG_RAT, \
    TAG_SET, TAG_DICT, TAG_NOTIMPL, TAG_FLOAT = range(13)

tag = fn("tag", V, Int)
cls_of = fn("cls_of", V, Int)       # class-table index of an object (nodes and known objects)
box_int = fn("box_int", Int, V)
unbox_int = fn("unbox_int", V, Int)
box_bool = fn("box_bool", Bool, V)
unbox_bool = fn("unbox_bool", V, Bool)
box_str = fn("box_str", Str, V)
unbox_str = fn("unbox_str", V, Str)
box_tup = fn("box_tup", S, V)
unbox_tup = fn("unbox_tup", V, S)
box_list = fn("box_list", S, V)
unbox_list = fn("unbox_list", V, S)
box_real = fn("box_real", Real, V)
unbox_real = fn("unbox_real", V, Real)
truthy = fn("truthy", V, Bool)
NoneV = z3.Const("NoneV", V)
NotImplV = z3.Const("NotImplementedV", V)


class Ctx:
    """Per-function proof context: axioms instantiated so far, named constants."""

    def __init__(self):
        self.axioms: list = []
        self._seen: set = set()
        self.consts: dict = {}
        self.fresh_n = 0
        self.objconst: dict = {}
        self.assume(tag(NoneV) == TAG_NONE)
        self.assume(z3.Not(truthy(NoneV)))
        self.assume(tag(NotImplV) == TAG_NOTIMPL)
        self.stats = {"queries": 0, "time": 0.0}

    def assume(self, ax):
        k = ax.get_id()
        if k not in self._seen:
            self._seen.add(k)
            self.axioms.append(ax)

    def fresh(self, prefix, sort):
        self.fresh_n += 1
        return z3.Const(f"{prefix}!{self.fresh_n}", sort)

    # ---- boxing with axioms on demand
    def bint(self, t):
        t = z3.simplify(t) if not z3.is_int_value(t) else t
        b = box_int(t)
        self.assume(unbox_int(b) == t)
        self.assume(tag(b) == TAG_INT)
        self.assume(truthy(b) == (t != 0))
        return b

    def bbool(self, t):
        b = box_bool(t)
        self.assume(unbox_bool(b) == t)
        self.assume(tag(b) == TAG_BOOL)
        self.assume(truthy(b) == t)
        return b

    def bstr(self, t):
        b = box_str(t)
        self.assume(unbox_str(b) == t)
        self.assume(tag(b) == TAG_STR)
        self.assume(truthy(b) == (z3.Length(t) != 0))
        return b

    def btup(self, s):
        b = box_tup(s)
        self.assume(unbox_tup(b) == s)
        self.assume(tag(b) == TAG_TUPLE)
        self.assume(truthy(b) == (z3.Length(s) != 0))
        return b

    def blist(self, s):
        b = box_list(s)
        self.assume(unbox_list(b) == s)
        self.assume(tag(b) == TAG_LIST)
        self.assume(truthy(b) == (z3.Length(s) != 0))
        return b

    def breal(self, t):
        b = box_real(t)
        self.assume(unbox_real(b) == t)
        self.assume(tag(b) == TAG_RAT)
        self.assume(truthy(b) == (t != 0))
        return b

    def obj_const(self, pyobj, hint=None):
        """A V constant standing for a concrete Python object (class, function, module…).
        Distinct objects get pairwise distinct constants."""
        k = id(pyobj)
        if k in self.objconst:
            return self.objconst[k][0]
        name = hint or getattr(pyobj, "__qualname__", None) or getattr(pyobj, "__name__", None) \
            or type(pyobj).__name__
        c = z3.Const(f"obj:{name}#{len(self.objconst)}", V)
        for (oc, _o) in self.objconst.values():
            self.assume(oc != c)
        self.assume(tag(c) == TAG_OBJ)
        self.objconst[k] = (c, pyobj)
        return c


def seq_of(ctx, terms):
    """z3 sequence from a python list of V terms."""
    if not terms:
        return z3.Empty(S)
    units = [z3.Unit(t) for t in terms]
    if len(units) == 1:
        return units[0]
    return z3.Concat(*units)


DEFAULT_TIMEOUT_MS = 90_000      # wall-clock ceiling per query (rlimit is the primary, deterministic bound)


def check(ctx: Ctx, formulas, rlimit=None, timeout_ms=None):
    """Satisfiability of axioms + formulas. Returns ('sat', model)|('unsat', None)|('unknown', reason)."""
    import time
    s = z3.Solver()
    if rlimit:
        s.set("rlimit", rlimit)
    s.set("timeout", timeout_ms or DEFAULT_TIMEOUT_MS)
    for a in ctx.axioms:
        s.add(a)
    for f in formulas:
        s.add(f)
    t0 = time.time()
    r = s.check()
    ctx.stats["queries"] += 1
    ctx.stats["time"] += time.time() - t0
    if r == z3.sat:
        return "sat", s.model()
    if r == z3.unsat:
        return "unsat", None
    import os
    if os.environ.get("PYVC_DUMP_UNKNOWN"):
        open(os.environ["PYVC_DUMP_UNKNOWN"], "w").write(s.to_smt2())
    return "unknown", s.reason_unknown()


def to_smt2(ctx: Ctx, formulas):
    s = z3.Solver()
    for a in ctx.axioms:
        s.add(a)
    for f in formulas:
        s.add(f)
    return s.to_smt2()

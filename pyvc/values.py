"""Symbolic value classes of the PyVC interpreter."""
from __future__ import annotations

import z3

from . import smt


class Unsupported(Exception):
    """Raised when the function leaves the supported Python subset (never a verdict)."""


class PyRaise(Exception):
    """A Python-level exception raised by the code under symbolic execution."""

    def __init__(self, exc):
        super().__init__(repr(exc))
        self.exc = exc  # SymExc


class SymExc:
    """Exception value. kind: concrete exception class or None (unknown);
    term: V term identifying the exception object (for unknown kinds)."""

    def __init__(self, kind=None, args=(), term=None, origin=""):
        self.kind = kind
        self.args = tuple(args)
        self.term = term
        self.origin = origin

    def __repr__(self):
        k = self.kind.__name__ if self.kind else "?"
        return f"SymExc({k}, {self.args!r}, {self.origin})"


class Val:
    pass


class Conc(Val):
    """A concrete Python object (number, string, None, class, function, module, dict table…)."""
    __slots__ = ("obj",)

    def __init__(self, obj):
        self.obj = obj

    def __repr__(self):
        r = repr(self.obj)
        return f"Conc({r[:60]})"


class SymV(Val):
    """Arbitrary Python object, term of sort V."""
    __slots__ = ("t",)

    def __init__(self, t):
        self.t = t

    def __repr__(self):
        return f"SymV({self.t})"


class SymInt(Val):
    __slots__ = ("t",)

    def __init__(self, t):
        self.t = t

    def __repr__(self):
        return f"SymInt({self.t})"


class SymReal(Val):
    __slots__ = ("t",)

    def __init__(self, t):
        self.t = t

    def __repr__(self):
        return f"SymReal({self.t})"


class SymBool(Val):
    __slots__ = ("t",)

    def __init__(self, t):
        self.t = t

    def __repr__(self):
        return f"SymBool({self.t})"


class SymStr(Val):
    __slots__ = ("t",)

    def __init__(self, t):
        self.t = t

    def __repr__(self):
        return f"SymStr({self.t})"


class SymSeq(Val):
    """tuple or list of symbolic length; t: z3 Seq(V). Immutable view (lists that get
    mutated must be PyList)."""
    __slots__ = ("t", "kind")

    def __init__(self, t, kind="tuple"):
        self.t = t
        self.kind = kind

    def __repr__(self):
        return f"SymSeq[{self.kind}]({self.t})"


class SymList(SymSeq):
    """A list of symbolic length created on the current path (list(x), a havoc'ed loop variable): it may be mutated in
    place (pop(0), append, extend, +=) by replacing its term.  Inputs are plain SymSeq and stay immutable, so no state
    can leak between explored paths (every path re-executes from the start and re-creates its SymLists)."""
    __slots__ = ()

    def __init__(self, t):
        SymSeq.__init__(self, t, "list")

    def __repr__(self):
        return f"SymList({self.t})"


class SymMap(Val):
    """Insertion-ordered mapping with symbolic number of entries: parallel sequences."""
    __slots__ = ("keys", "vals", "kind")

    def __init__(self, keys, vals, kind="dict"):
        self.keys = keys
        self.vals = vals
        self.kind = kind

    def __repr__(self):
        return f"SymMap({self.keys}, {self.vals})"


class SymStrMap(Val):
    """Mapping str -> V with symbolic contents (an environment): has/get functions of a V term."""
    __slots__ = ("t",)

    def __init__(self, t):
        self.t = t


class SymSet(Val):
    """Set value as an abstract V term built by set algebra symbols."""
    __slots__ = ("t",)

    def __init__(self, t):
        self.t = t

    def __repr__(self):
        return f"SymSet({self.t})"


class PyTuple(Val):
    __slots__ = ("items",)

    def __init__(self, items):
        self.items = list(items)

    def __repr__(self):
        return f"PyTuple({self.items})"


class PyList(Val):
    """Mutable list of known length (object identity = this Python object)."""
    __slots__ = ("items",)

    def __init__(self, items):
        self.items = list(items)

    def __repr__(self):
        return f"PyList({self.items})"


class PyDict(Val):
    """Mutable dict with concrete (hashable python) keys -> values."""
    __slots__ = ("d",)

    def __init__(self, d=None):
        self.d = dict(d or {})


class SymNode(Val):
    """An expression object of *known* class with field values.
    t: V term (identity). fields: name -> Val. mutable=True only during construction."""
    __slots__ = ("cls", "t", "fields", "mutable", "extra")

    def __init__(self, cls, t, fields, mutable=False):
        self.cls = cls
        self.t = t
        self.fields = fields
        self.mutable = mutable
        self.extra = {}

    def __repr__(self):
        return f"SymNode({self.cls.__name__}, {self.t})"


class SymObj(Val):
    """Object of known class with an attribute dictionary (mapper instances…)."""
    __slots__ = ("cls", "attrs", "t", "rec_contract", "ghost")

    def __init__(self, cls, attrs=None, t=None):
        self.cls = cls
        self.attrs = dict(attrs or {})
        self.t = t
        self.rec_contract = None
        self.ghost = {}

    def __repr__(self):
        return f"SymObj({self.cls.__name__})"


class Closure(Val):
    """A function defined in interpreted code (def / lambda) with its environment."""
    __slots__ = ("node", "env", "name", "defaults", "kwdefaults", "module_globals", "owner")

    def __init__(self, node, env, name, defaults, kwdefaults, module_globals, owner=None):
        self.node = node
        self.env = env
        self.name = name
        self.defaults = defaults
        self.kwdefaults = kwdefaults
        self.module_globals = module_globals
        self.owner = owner


class BoundMethod(Val):
    __slots__ = ("self_val", "func", "name", "owner")

    def __init__(self, self_val, func, name="", owner=None):
        self.self_val = self_val
        self.func = func        # python function object or Closure
        self.name = name
        self.owner = owner      # class where func was found (for super())


class SuperProxy(Val):
    __slots__ = ("self_val", "after")

    def __init__(self, self_val, after):
        self.self_val = self_val
        self.after = after


class SymGen(Val):
    """Lazy generator expression / comprehension source awaiting a consumer."""
    __slots__ = ("elt", "generators", "env", "interp_frame")

    def __init__(self, elt, generators, env, interp_frame):
        self.elt = elt
        self.generators = generators
        self.env = env
        self.interp_frame = interp_frame


class SymZip(Val):
    """zip(...) of sequences: list of SymSeq/PyTuple/PyList."""
    __slots__ = ("parts",)

    def __init__(self, parts):
        self.parts = parts


class SymEnumerate(Val):
    __slots__ = ("seq", "start")

    def __init__(self, seq, start=0):
        self.seq = seq
        self.start = start


class Outcome:
    """Result of one path: kind 'ret' or 'exc'."""
    __slots__ = ("kind", "value", "pcs", "effects", "decisions", "extra")

    def __init__(self, kind, value, pcs, effects=None, decisions=None, extra=None):
        self.kind = kind
        self.value = value
        self.pcs = list(pcs)
        self.effects = effects
        self.decisions = decisions
        self.extra = extra or {}

    def __repr__(self):
        return f"Outcome({self.kind}, {self.value!r}, pcs={self.pcs})"


class NativeHandler(Val):
    """Engine-side handler standing for a callable (contract application)."""
    __slots__ = ("fn",)

    def __init__(self, fn):
        self.fn = fn


class SymDict(Val):
    """Mutable dict with symbolic initial content (base) and a write log.  Keys are compared by the
    z3 identity of their lifted terms (A-EQ-KEY: a look-up with an equal key is a look-up with that key).
    inv: optional callable(I, key Val, value Val) assuming the dict invariant for an entry found in base."""
    __slots__ = ("base", "writes", "inv", "name", "removed", "value_kind")

    def __init__(self, base=None, inv=None, name="dict", value_kind=None):
        self.base = base
        self.writes = []
        self.inv = inv
        self.name = name
        self.removed = []
        self.value_kind = value_kind      # "int": every value found in the base is an integer (a contract's precondition on the dict)


class SymBV(Val):
    """Fixed-width bit-vector integer (a stated bound on Python's unbounded int; used for bitmaps)."""
    __slots__ = ("t",)

    def __init__(self, t):
        self.t = t

    def __repr__(self):
        return f"SymBV({self.t})"

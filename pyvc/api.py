"""Contract-side API: decorators and helper vocabulary usable inside contracts/specs.

Everything here is executable natively (bounded stand-in, replay oracle) AND has a symbolic
meaning given by the engine (pyvc.verify installs the handlers).
"""
from __future__ import annotations

SPECS = {}


def spec(returns="v", total=False, unfold_on=0, name=None, int_args=False, define=False, nonneg=False):
    """Mark a function as a specification function.

    Natively it simply runs.  Symbolically it is unfolded (one level per call chain) when its
    discriminating argument has a statically known class, and is otherwise an uninterpreted
    function of its arguments with outcome (value / raises)."""
    def deco(f):
        f.__pyvc_spec__ = dict(returns=returns, total=total, unfold_on=unfold_on, name=name or f.__name__,
                               int_args=int_args, define=define, nonneg=nonneg)
        SPECS[f.__name__] = f
        return f
    return deco


def same(a, b):
    """Object identity (`is`); symbolically z3 equality on V."""
    return a is b


def implies(a, b):
    return (not a) or b


class MapperContract:
    """Contract of a mapper class, verified one `map_<K>` at a time.

    mapper:     'module:Class'
    self_attrs: attribute name -> kind ('strmap', 'v', 'bool', 'flag:<values>', ...)
    rec:        function (self, e, args, kwargs) -> what `self.rec(e, *args, **kwargs)` denotes (IH)
    refines:    function (self, expr, args, kwargs) -> the outcome every `map_<K>(expr, *args, **kwargs)`
                must have (value or raised error), written over the spec functions
    ensures:    optional list of (name, function(self, expr, args, kwargs, result) -> bool)
    classes:    restrict to these node classes (default: every class that dispatches to a handler)
    """

    def __init__(self, name, mapper, rec, refines=None, ensures=(), self_attrs=None, classes=None,
                 exclude=(), invariant="default", extra_args=True, property_id=None, setup=None,
                 methods=None, via_dispatch=True, known=None, old=None):
        self.name = name
        self.old = old
        self.mapper = mapper
        self.rec = rec
        self.refines = refines
        self.ensures = list(ensures)
        self.self_attrs = dict(self_attrs or {})
        self.classes = classes
        self.exclude = set(exclude)
        if invariant == "default":
            from contracts.specs import node_inv
            invariant = node_inv
        self.invariant = invariant
        self.extra_args = extra_args
        self.property_id = property_id
        self.setup = setup
        self.methods = methods
        self.via_dispatch = via_dispatch
        self.known = known or {}


class FunctionContract:
    """Contract of a plain function or method.

    target:   'module:qualname'
    params:   list of (name, kind) describing symbolic inputs; kinds: 'v','int','nat','bool','str',
              'seq','node:<Class>','expr' (node of unknown class), 'obj:<module:Class>', 'number'
    requires: function(*params) -> bool
    refines:  function(*params) -> expected outcome  (optional)
    ensures:  list of (name, function(*params, result) -> bool)
    raises:   list of (name, condition function(*params) -> bool, exception class)
    """

    def __init__(self, name, target, params, requires=None, refines=None, ensures=(), raises=(),
                 property_id=None, setup=None, loops=None, inline=(), arithmetic=False, notes="",
                 kwargs_params=(), assume=None, old=None):
        self.name = name
        self.target = target
        self.params = list(params)
        self.requires = requires
        self.refines = refines
        self.ensures = list(ensures)
        self.raises = list(raises)
        self.property_id = property_id
        self.setup = setup
        self.loops = loops or {}
        self.inline = inline
        self.arithmetic = arithmetic
        self.notes = notes
        self.kwargs_params = kwargs_params
        self.assume = assume or {}
        self.old = old


# ----------------------------------------------------------------------------- structural helpers
# Natively these use dataclasses.fields of the REAL class and the field annotations (independent of
# any traversal code); symbolically the engine gives them the same meaning (pyvc.structural).

def child_fields(cls):
    import dataclasses
    from .loader import child_fields as cf
    if not dataclasses.is_dataclass(cls):
        return {"items": "many"} if issubclass(cls, (list, tuple)) else {}
    return cf(cls)


def children(expr):
    """All children of a node in field order (annotation-derived): list."""
    if isinstance(expr, (list, tuple)):
        return list(expr)
    out = []
    for name, how in child_fields(type(expr)).items():
        v = getattr(expr, name)
        if how == "one":
            out.append(v)
        elif how == "many":
            out.extend(v)
        else:
            out.extend(v.values())
    return out


def map_children(expr, f):
    """A new node of the same class whose child-bearing fields are mapped through f and whose other
    fields are those of expr."""
    import dataclasses
    if isinstance(expr, list):
        return [f(c) for c in expr]
    if isinstance(expr, tuple):
        return tuple([f(c) for c in expr])
    cf = child_fields(type(expr))
    vals = {}
    for fld in dataclasses.fields(expr):
        v = getattr(expr, fld.name)
        how = cf.get(fld.name)
        if how == "one":
            v = f(v)
        elif how == "many":
            v = tuple([None if c is None else f(c) for c in v])
        elif how == "mapvals":
            from immutabledict import immutabledict
            v = immutabledict({k: f(c) for k, c in v.items()})
        vals[fld.name] = v
    return type(expr)(**vals)


def fields_identical(a, b):
    """Same class and every field the identical object (tuples/mappings elementwise)."""
    import dataclasses
    if type(a) is not type(b):
        return False
    if isinstance(a, (list, tuple)):
        return len(a) == len(b) and all(x is y for x, y in zip(a, b))
    for fld in dataclasses.fields(a):
        x, y = getattr(a, fld.name), getattr(b, fld.name)
        if isinstance(x, tuple) and isinstance(y, tuple):
            if len(x) != len(y) or any(p is not q for p, q in zip(x, y)):
                return False
        elif hasattr(x, "items") and hasattr(y, "items"):
            if list(x.keys()) != list(y.keys()) or any(x[k] is not y[k] for k in x):
                return False
        elif x is not y and x != y:
            return False
        elif x is not y and isinstance(x, (tuple,)):
            return False
    return True


def same_elements(a, b):
    """Two finite sequences have the same elements with the same multiplicities (by identity)."""
    a, b = list(a), list(b)
    if len(a) != len(b):
        return False
    rest = list(b)
    for x in a:
        for i, y in enumerate(rest):
            if x is y or (type(x) is type(y) and x == y):
                del rest[i]
                break
        else:
            return False
    return True


def is_fresh(obj):
    """Ghost predicate: obj was allocated during the call (natively unknown: True)."""
    return True


# ----------------------------------------------------------------------------- ghost event log
LOG = []


def emit(name, *vals):
    """Append a ghost event (natively to LOG; symbolically to the path's effect log)."""
    LOG.append((name, *vals))
    return None


def for_each(seq, f):
    """Apply an effectful f to every element of seq."""
    for c in seq:
        f(c)
    return None


def union_all(sets):
    """Union of an iterable of sets."""
    out = set()
    for x in sets:
        out = out | x
    return out


# ----------------------------------------------------------------------------- lemmas and ghost arithmetic
LEMMAS = {}


def requires(cond):
    """Precondition of a lemma (natively an assertion)."""
    assert cond, "lemma precondition violated"


def lemma(f):
    """A lemma: a function whose returned boolean is a theorem under its `requires`.  Its body is the proof
    (it may call itself on smaller arguments = induction hypothesis, and other lemmas).  Callers get the
    returned statement as a fact after the precondition has been checked."""
    f.__pyvc_lemma__ = True
    LEMMAS[f.__name__] = f
    return f


class Loop:
    """Annotation of one loop: invariant / variant as functions of a namespace `v` holding the current values
    of the function's local variables (v.name) and the entry values of its parameters (v.old_name)."""

    def __init__(self, invariant=None, variant=None, note="", hint=None, ghost=None, ghost_update=None, unroll=None):
        self.unroll = unroll                    # bounded unrolling with an unwinding assertion (complete when it passes)
        self.ghost = ghost or {}                # ghost variable name -> initial value (function of v or constant)
        self.ghost_update = ghost_update        # function(v) -> dict of new ghost values, run at the end of the body
        self.invariant = invariant
        self.variant = variant
        self.note = note
        self.hint = hint        # ghost code run at the start of the body (lemma instantiations)


def fresh_int():
    """Symbolic-only: an arbitrary integer (used in assumed callee contracts)."""
    raise NotImplementedError("symbolic only")


def assume(cond):
    """Symbolic-only: a fact assumed on the current path (postcondition of an assumed callee contract)."""
    assert cond


def witness(k):
    """Ghost: register an existential witness for divides()."""
    return None


def divides(d, x):
    """d | x  (exists k. x == k*d).  Symbolically decided with the registered witnesses."""
    if d == 0:
        return x == 0
    return x % d == 0


def ite(c, a, b):
    """Non-branching conditional (both alternatives are evaluated)."""
    return a if c else b


def to_int(x):
    """A bitmap/count as a mathematical integer."""
    return int(x)

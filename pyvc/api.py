"""Contract-side API: decorators and helper vocabulary usable inside contracts/specs.

Everything here is executable natively (bounded stand-in, replay oracle) AND has a symbolic
meaning given by the engine (pyvc.verify installs the handlers).
"""
from __future__ import annotations

SPECS = {}


def spec(returns="v", total=False, unfold_on=0, name=None):
    """Mark a function as a specification function.

    Natively it simply runs.  Symbolically it is unfolded (one level per call chain) when its
    discriminating argument has a statically known class, and is otherwise an uninterpreted
    function of its arguments with outcome (value / raises)."""
    def deco(f):
        f.__pyvc_spec__ = dict(returns=returns, total=total, unfold_on=unfold_on, name=name or f.__name__)
        SPECS[f.__name__] = f
        return f
    return deco


def same(a, b):
    """Object identity (`is`); symbolically z3 equality on V."""
    return a is b


def implies(a, b):
    return (not a) or b


class MapperContract:
    """Contract of a mapper class, verified one `map_<K>` at a time.

    mapper:     'module:Class'
    self_attrs: attribute name -> kind ('strmap', 'v', 'bool', 'flag:<values>', ...)
    rec:        function (self, e, args, kwargs) -> what `self.rec(e, *args, **kwargs)` denotes (IH)
    refines:    function (self, expr, args, kwargs) -> the outcome every `map_<K>(expr, *args, **kwargs)`
                must have (value or raised error), written over the spec functions
    ensures:    optional list of (name, function(self, expr, args, kwargs, result) -> bool)
    classes:    restrict to these node classes (default: every class that dispatches to a handler)
    """

    def __init__(self, name, mapper, rec, refines=None, ensures=(), self_attrs=None, classes=None,
                 exclude=(), invariant="default", extra_args=True, property_id=None, setup=None,
                 methods=None, via_dispatch=True, known=None):
        self.name = name
        self.mapper = mapper
        self.rec = rec
        self.refines = refines
        self.ensures = list(ensures)
        self.self_attrs = dict(self_attrs or {})
        self.classes = classes
        self.exclude = set(exclude)
        if invariant == "default":
            from contracts.specs import node_inv
            invariant = node_inv
        self.invariant = invariant
        self.extra_args = extra_args
        self.property_id = property_id
        self.setup = setup
        self.methods = methods
        self.via_dispatch = via_dispatch
        self.known = known or {}


class FunctionContract:
    """Contract of a plain function or method.

    target:   'module:qualname'
    params:   list of (name, kind) describing symbolic inputs; kinds: 'v','int','nat','bool','str',
              'seq','node:<Class>','expr' (node of unknown class), 'obj:<module:Class>', 'number'
    requires: function(*params) -> bool
    refines:  function(*params) -> expected outcome  (optional)
    ensures:  list of (name, function(*params, result) -> bool)
    raises:   list of (name, condition function(*params) -> bool, exception class)
    """

    def __init__(self, name, target, params, requires=None, refines=None, ensures=(), raises=(),
                 property_id=None, setup=None, loops=None, inline=(), arithmetic=False, notes="",
                 kwargs_params=(), assume=None):
        self.name = name
        self.target = target
        self.params = list(params)
        self.requires = requires
        self.refines = refines
        self.ensures = list(ensures)
        self.raises = list(raises)
        self.property_id = property_id
        self.setup = setup
        self.loops = loops or {}
        self.inline = inline
        self.arithmetic = arithmetic
        self.notes = notes
        self.kwargs_params = kwargs_params
        self.assume = assume or {}
